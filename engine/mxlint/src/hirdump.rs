//! Typed HIR serialisation (structured bodies with resolved callees and types), item tables,
//! and auto-trait facts for local generic ADTs.

use crate::json::J;
use crate::{def_str, span_json, ty_str};
use rustc_ast::LitKind;
use rustc_hir as hir;
use rustc_hir::def::{DefKind, Res};
use rustc_hir::def_id::{DefId, LocalDefId};
use rustc_hir::{ExprKind, PatKind, QPath, StmtKind};
use rustc_middle::ty::{self, Instance, TyCtxt, TypeckResults, TypingEnv};

struct Hx<'tcx> {
    tcx: TyCtxt<'tcx>,
    tr: &'tcx TypeckResults<'tcx>,
    env: TypingEnv<'tcx>,
}

fn short_span(tcx: TyCtxt<'_>, span: rustc_span::Span) -> J {
    let sm = tcx.sess.source_map();
    let site = if span.from_expansion() { span.source_callsite() } else { span };
    let lo = sm.lookup_char_pos(site.lo());
    J::A(vec![J::I(lo.line as i128), J::I(lo.col.0 as i128 + 1), J::B(span.from_expansion())])
}

pub fn dump_fn<'tcx>(tcx: TyCtxt<'tcx>, ldid: LocalDefId) -> J {
    let did = ldid.to_def_id();
    let body = tcx.hir_body_owned_by(ldid);
    let tr = tcx.typeck(ldid);
    let hx = Hx { tcx, tr, env: TypingEnv::post_analysis(tcx, did) };
    let sig = tcx.fn_sig(did).instantiate_identity().skip_norm_wip().skip_binder();
    let mut params = Vec::new();
    for (i, p) in body.params.iter().enumerate() {
        let ty = sig.inputs().get(i).map(|t| ty_str(*t)).unwrap_or_default();
        params.push(J::obj().f("pat", hx.pat(p.pat)).fs("ty", ty).done());
    }
    J::obj()
        .fs("path", def_str(tcx, did))
        .f("span", span_json(tcx, tcx.def_span(did)))
        .f("params", J::A(params))
        .fs("ret", ty_str(sig.output()))
        .f("body", hx.expr(body.value))
        .done()
}

impl<'tcx> Hx<'tcx> {
    fn local_name(&self, id: hir::HirId) -> (String, String) {
        let name = self.tcx.hir_name(id).to_string();
        let uid = format!("{}#{}", name, id.local_id.as_u32());
        (name, uid)
    }

    fn res(&self, res: Res, o: crate::json::Obj) -> crate::json::Obj {
        match res {
            Res::Local(id) => {
                let (n, u) = self.local_name(id);
                o.fs("res", "local").fs("name", n).fs("id", u)
            }
            Res::Def(kind, did) => {
                let mut o = o.fs("res", "def").fs("defkind", format!("{:?}", kind)).fs("def", def_str(self.tcx, did));
                match kind {
                    DefKind::Const { .. } | DefKind::AssocConst { .. } => {
                        if let Ok(v) = self.tcx.const_eval_poly(did) {
                            if let Some(si) = v.try_to_scalar_int() {
                                let size = si.size();
                                let bits = si.to_bits(size);
                                if bits <= i128::MAX as u128 {
                                    o = o.fi("const_bits", bits as i128).fi("const_size", size.bytes() as i128);
                                }
                            }
                        }
                    }
                    DefKind::Ctor(..) => {
                        let parent = self.tcx.parent(did);
                        o = o.fs("ctor_of", def_str(self.tcx, parent));
                    }
                    _ => {}
                }
                o
            }
            Res::SelfCtor(_) => o.fs("res", "selfctor"),
            Res::SelfTyAlias { .. } | Res::SelfTyParam { .. } => o.fs("res", "selfty"),
            other => o.fs("res", "other").fs("dbg", format!("{:?}", other)),
        }
    }

    fn resolve(&self, did: DefId, args: ty::GenericArgsRef<'tcx>, mut o: crate::json::Obj) -> crate::json::Obj {
        let tcx = self.tcx;
        o = o.fs("decl", def_str(tcx, did)).fb("decl_local", did.is_local());
        if let Some(tr) = tcx.trait_of_assoc(did) {
            o = o.fs("trait", def_str(tcx, tr));
        }
        let arity_ok = args.len() == tcx.generics_of(did).count();
        if !arity_ok {
            return o.f("callee", J::Null);
        }
        if let Ok(Some(inst)) = Instance::try_resolve(tcx, self.env, did, args) {
            let rd = inst.def_id();
            o = o.fs("callee", def_str(tcx, rd)).fb("callee_local", rd.is_local());
        } else {
            o = o.f("callee", J::Null);
        }
        o
    }

    fn qpath(&self, qp: &QPath<'tcx>, id: hir::HirId, o: crate::json::Obj) -> crate::json::Obj {
        let res = self.tr.qpath_res(qp, id);
        let mut o = self.res(res, o);
        // function items reached through a path: resolve to the concrete callee
        if let Res::Def(DefKind::Fn | DefKind::AssocFn, did) = res {
            let args = self.tr.node_args(id);
            o = self.resolve(did, args, o);
        }
        o
    }

    fn lit(&self, l: &hir::Lit, o: crate::json::Obj) -> crate::json::Obj {
        match &l.node {
            LitKind::Int(n, _) => o.fs("lit", "int").fs("v", n.get().to_string()),
            LitKind::Bool(b) => o.fs("lit", "bool").fb("v", *b),
            LitKind::Byte(b) => o.fs("lit", "byte").fi("v", *b as i128),
            LitKind::Char(c) => o.fs("lit", "char").fi("v", *c as u32 as i128),
            LitKind::Str(s, _) => o.fs("lit", "str").fs("v", s.to_string()),
            LitKind::ByteStr(bs, _) => {
                let v: Vec<J> = bs.as_byte_str().iter().map(|b| J::I(*b as i128)).collect();
                o.fs("lit", "bytestr").f("v", J::A(v))
            }
            LitKind::Float(s, _) => o.fs("lit", "float").fs("v", s.to_string()),
            other => o.fs("lit", "other").fs("dbg", format!("{:?}", other)),
        }
    }

    fn exprs(&self, es: &'tcx [hir::Expr<'tcx>]) -> J {
        J::A(es.iter().map(|e| self.expr(e)).collect())
    }

    fn block(&self, b: &'tcx hir::Block<'tcx>) -> J {
        let mut stmts = Vec::new();
        for s in b.stmts {
            match &s.kind {
                StmtKind::Let(l) => {
                    let mut o = J::obj().fs("s", "let").f("pat", self.pat(l.pat)).f("sp", short_span(self.tcx, s.span));
                    if let Some(init) = l.init {
                        o = o.f("init", self.expr(init));
                    }
                    if let Some(els) = l.els {
                        o = o.f("else", self.block(els));
                    }
                    stmts.push(o.done());
                }
                StmtKind::Expr(e) => stmts.push(J::obj().fs("s", "expr").f("e", self.expr(e)).done()),
                StmtKind::Semi(e) => stmts.push(J::obj().fs("s", "semi").f("e", self.expr(e)).done()),
                StmtKind::Item(_) => stmts.push(J::obj().fs("s", "item").done()),
            }
        }
        let mut o = J::obj().f("stmts", J::A(stmts));
        if let Some(e) = b.expr {
            o = o.f("expr", self.expr(e));
        }
        o.done()
    }

    pub fn expr(&self, e: &'tcx hir::Expr<'tcx>) -> J {
        let ty = self.tr.expr_ty_opt(e).map(ty_str).unwrap_or_default();
        let mut o = J::obj().fs("ty", ty).f("sp", short_span(self.tcx, e.span));
        if let Some(adj) = self.tr.expr_ty_adjusted_opt(e) {
            let a = ty_str(adj);
            o = o.fs("aty", a);
        }
        let o = match &e.kind {
            ExprKind::Lit(l) => self.lit(l, o.fs("k", "lit")),
            ExprKind::Path(qp) => self.qpath(qp, e.hir_id, o.fs("k", "path")),
            ExprKind::Call(f, args) => o.fs("k", "call").f("f", self.expr(f)).f("args", self.exprs(args)),
            ExprKind::MethodCall(seg, recv, args, _) => {
                let mut o = o.fs("k", "mcall").fs("method", seg.ident.to_string());
                if let Some(did) = self.tr.type_dependent_def_id(e.hir_id) {
                    let ga = self.tr.node_args(e.hir_id);
                    o = self.resolve(did, ga, o);
                }
                o.f("recv", self.expr(recv)).f("args", self.exprs(args))
            }
            ExprKind::Tup(es) => o.fs("k", "tup").f("es", self.exprs(es)),
            ExprKind::Array(es) => o.fs("k", "array").f("es", self.exprs(es)),
            ExprKind::Repeat(v, n) => {
                let mut o = o.fs("k", "repeat").f("v", self.expr(v));
                // length from the array type
                if let Some(t) = self.tr.expr_ty_opt(e) {
                    if let ty::Array(_, len) = t.kind() {
                        if let Some(n) = len.try_to_target_usize(self.tcx) {
                            o = o.fi("n", n as i128);
                        }
                    }
                }
                let _ = n;
                o
            }
            ExprKind::Binary(op, a, b) => {
                let mut o = o.fs("k", "binary").fs("op", format!("{:?}", op.node));
                if let Some(did) = self.tr.type_dependent_def_id(e.hir_id) {
                    o = o.fs("overloaded", def_str(self.tcx, did));
                }
                o.f("a", self.expr(a)).f("b", self.expr(b))
            }
            ExprKind::Unary(op, a) => o.fs("k", "unary").fs("op", format!("{:?}", op)).f("a", self.expr(a)),
            ExprKind::Cast(a, _) => o.fs("k", "cast").f("a", self.expr(a)),
            ExprKind::Type(a, _) => o.fs("k", "type").f("a", self.expr(a)),
            ExprKind::DropTemps(a) => o.fs("k", "droptemps").f("a", self.expr(a)),
            ExprKind::Let(l) => o.fs("k", "let").f("pat", self.pat(l.pat)).f("init", self.expr(l.init)),
            ExprKind::If(c, t, el) => {
                let mut o = o.fs("k", "if").f("c", self.expr(c)).f("t", self.expr(t));
                if let Some(el) = el {
                    o = o.f("e", self.expr(el));
                }
                o
            }
            ExprKind::Loop(b, _, src, _) => o.fs("k", "loop").fs("src", format!("{:?}", src)).f("b", self.block(b)),
            ExprKind::Match(s, arms, src) => {
                let mut av = Vec::new();
                for a in *arms {
                    let mut ao = J::obj().f("pat", self.pat(a.pat)).f("body", self.expr(a.body));
                    if let Some(g) = a.guard {
                        ao = ao.f("guard", self.expr(g));
                    }
                    av.push(ao.done());
                }
                o.fs("k", "match").fs("src", format!("{:?}", src)).f("scrut", self.expr(s)).f("arms", J::A(av))
            }
            ExprKind::Closure(c) => {
                let body = self.tcx.hir_body(c.body);
                let ps: Vec<J> = body.params.iter().map(|p| self.pat(p.pat)).collect();
                o.fs("k", "closure")
                    .fs("def", def_str(self.tcx, c.def_id.to_def_id()))
                    .f("params", J::A(ps))
                    .f("body", self.expr(body.value))
            }
            ExprKind::Block(b, _) => o.fs("k", "block").f("b", self.block(b)),
            ExprKind::Assign(l, r, _) => o.fs("k", "assign").f("l", self.expr(l)).f("r", self.expr(r)),
            ExprKind::AssignOp(op, l, r) => {
                o.fs("k", "assignop").fs("op", format!("{:?}", op.node)).f("l", self.expr(l)).f("r", self.expr(r))
            }
            ExprKind::Field(b, ident) => {
                let mut o = o.fs("k", "field").fs("name", ident.to_string());
                if let Some(bt) = self.tr.expr_ty_adjusted_opt(b) {
                    let mut t = bt;
                    while let ty::Ref(_, inner, _) = t.kind() {
                        t = *inner;
                    }
                    if let ty::Adt(adt, _) = t.kind() {
                        o = o.fs("adt", def_str(self.tcx, adt.did()));
                    }
                }
                o.f("base", self.expr(b))
            }
            ExprKind::Index(b, i, _) => {
                let mut o = o.fs("k", "index");
                if let Some(did) = self.tr.type_dependent_def_id(e.hir_id) {
                    o = o.fs("overloaded", def_str(self.tcx, did));
                }
                o.f("base", self.expr(b)).f("idx", self.expr(i))
            }
            ExprKind::AddrOf(_, m, a) => o.fs("k", "addrof").fb("mut", m.is_mut()).f("a", self.expr(a)),
            ExprKind::Break(dest, v) => {
                let mut o = o.fs("k", "break");
                if let Some(l) = dest.label {
                    o = o.fs("label", l.ident.to_string());
                }
                if let Some(v) = v {
                    o = o.f("v", self.expr(v));
                }
                o
            }
            ExprKind::Continue(_) => o.fs("k", "continue"),
            ExprKind::Ret(v) => {
                let mut o = o.fs("k", "ret");
                if let Some(v) = v {
                    o = o.f("v", self.expr(v));
                }
                o
            }
            ExprKind::Struct(qp, fields, base) => {
                let mut o = self.qpath(qp, e.hir_id, o.fs("k", "struct"));
                let fv: Vec<J> = fields
                    .iter()
                    .map(|f| J::obj().fs("name", f.ident.to_string()).f("e", self.expr(f.expr)).done())
                    .collect();
                o = o.f("fields", J::A(fv));
                if let hir::StructTailExpr::Base(b) = base {
                    o = o.f("base", self.expr(b));
                }
                o
            }
            other => {
                let name = format!("{:?}", other);
                let name = name.split(|c| c == '(' || c == '{' || c == ' ').next().unwrap_or("").to_string();
                o.fs("k", "other").fs("what", name)
            }
        };
        o.done()
    }

    pub fn pat(&self, p: &'tcx hir::Pat<'tcx>) -> J {
        let ty = self.tr.node_type_opt(p.hir_id).map(ty_str).unwrap_or_default();
        let o = J::obj().fs("ty", ty);
        let o = match &p.kind {
            PatKind::Wild => o.fs("k", "wild"),
            PatKind::Binding(mode, id, ident, sub) => {
                let mut o = o
                    .fs("k", "bind")
                    .fs("name", ident.to_string())
                    .fs("id", format!("{}#{}", ident, id.local_id.as_u32()))
                    .fs("mode", format!("{:?}", mode));
                if let Some(s) = sub {
                    o = o.f("sub", self.pat(s));
                }
                o
            }
            PatKind::Tuple(ps, dd) => o
                .fs("k", "tuple")
                .f("ps", J::A(ps.iter().map(|x| self.pat(x)).collect()))
                .f("dd", dd.as_opt_usize().map(|x| J::I(x as i128)).unwrap_or(J::Null)),
            PatKind::TupleStruct(qp, ps, dd) => {
                let o = self.qpath(qp, p.hir_id, o.fs("k", "tuplestruct"));
                o.f("ps", J::A(ps.iter().map(|x| self.pat(x)).collect()))
                    .f("dd", dd.as_opt_usize().map(|x| J::I(x as i128)).unwrap_or(J::Null))
            }
            PatKind::Struct(qp, fs, _) => {
                let o = self.qpath(qp, p.hir_id, o.fs("k", "struct"));
                o.f(
                    "fields",
                    J::A(fs.iter().map(|f| J::obj().fs("name", f.ident.to_string()).f("pat", self.pat(f.pat)).done()).collect()),
                )
            }
            PatKind::Or(ps) => o.fs("k", "or").f("ps", J::A(ps.iter().map(|x| self.pat(x)).collect())),
            PatKind::Ref(inner, ..) => o.fs("k", "ref").f("p", self.pat(inner)),
            PatKind::Expr(pe) => {
                let o = o.fs("k", "expr");
                match &pe.kind {
                    hir::PatExprKind::Lit { lit, negated } => self.lit(lit, o).fb("neg", *negated),
                    hir::PatExprKind::Path(qp) => self.qpath(qp, pe.hir_id, o),
                    #[allow(unreachable_patterns)]
                    _ => o.fs("dbg", "constblock"),
                }
            }
            PatKind::Range(lo, hi, end) => {
                let side = |x: &Option<&'tcx hir::PatExpr<'tcx>>| -> J {
                    match x {
                        Some(pe) => match &pe.kind {
                            hir::PatExprKind::Lit { lit, negated } => self.lit(lit, J::obj()).fb("neg", *negated).done(),
                            _ => J::s("?"),
                        },
                        None => J::Null,
                    }
                };
                o.fs("k", "range").f("lo", side(lo)).f("hi", side(hi)).fs("end", format!("{:?}", end))
            }
            PatKind::Slice(a, m, b) => o
                .fs("k", "slice")
                .f("before", J::A(a.iter().map(|x| self.pat(x)).collect()))
                .f("mid", m.map(|x| self.pat(x)).unwrap_or(J::Null))
                .f("after", J::A(b.iter().map(|x| self.pat(x)).collect())),
            other => {
                let name = format!("{:?}", other);
                let name = name.split(|c| c == '(' || c == '{' || c == ' ').next().unwrap_or("").to_string();
                o.fs("k", "other").fs("what", name)
            }
        };
        o.done()
    }
}

pub fn dump_items<'tcx>(tcx: TyCtxt<'tcx>) -> J {
    let mut adts = Vec::new();
    let mut consts = Vec::new();
    let mut statics = Vec::new();
    let mut impls = Vec::new();
    let mut fns = Vec::new();
    let ev = tcx.effective_visibilities(());
    for id in tcx.hir_free_items() {
        let did = id.owner_id.to_def_id();
        let ldid = id.owner_id.def_id;
        match tcx.def_kind(did) {
            DefKind::Struct | DefKind::Enum | DefKind::Union => {
                let adt = tcx.adt_def(did);
                let mut vs = Vec::new();
                for v in adt.variants() {
                    let fs: Vec<J> = v
                        .fields
                        .iter()
                        .map(|f| {
                            J::obj()
                                .fs("name", f.name.to_string())
                                .fs("ty", ty_str(tcx.type_of(f.did).instantiate_identity().skip_norm_wip()))
                                .fs("vis", format!("{:?}", f.vis))
                                .done()
                        })
                        .collect();
                    vs.push(J::obj().fs("name", v.name.to_string()).f("fields", J::A(fs)).done());
                }
                let generics = tcx.generics_of(did);
                let gp: Vec<J> = generics.own_params.iter().map(|p| J::s(p.name.to_string())).collect();
                adts.push(
                    J::obj()
                        .fs("path", def_str(tcx, did))
                        .fs("kind", format!("{:?}", tcx.def_kind(did)))
                        .fb("reachable_pub", ev.is_reachable(ldid))
                        .f("generics", J::A(gp))
                        .f("variants", J::A(vs))
                        .f("span", span_json(tcx, tcx.def_span(did)))
                        .done(),
                );
            }
            DefKind::Const { .. } => {
                let mut o = J::obj().fs("path", def_str(tcx, did)).fs("ty", ty_str(tcx.type_of(did).instantiate_identity().skip_norm_wip()));
                if let Ok(v) = tcx.const_eval_poly(did) {
                    if let Some(si) = v.try_to_scalar_int() {
                        let size = si.size();
                        let bits = si.to_bits(size);
                        if bits <= i128::MAX as u128 {
                            o = o.fi("bits", bits as i128);
                        }
                    }
                }
                // the initialiser of a local constant (array / tuple constants have no scalar value): its HIR expression
                if let Some(ldid2) = did.as_local() {
                    if tcx.hir_maybe_body_owned_by(ldid2).is_some() {
                        let body = tcx.hir_body_owned_by(ldid2);
                        let tr = tcx.typeck(ldid2);
                        let hx = Hx { tcx, tr, env: TypingEnv::post_analysis(tcx, did) };
                        o = o.f("init", hx.expr(body.value));
                    }
                }
                consts.push(o.done());
            }
            DefKind::Static { .. } => {
                let attrs = tcx.codegen_fn_attrs(did);
                let tls = attrs.flags.contains(rustc_middle::middle::codegen_fn_attrs::CodegenFnAttrFlags::THREAD_LOCAL);
                statics.push(
                    J::obj()
                        .fs("path", def_str(tcx, did))
                        .fs("ty", ty_str(tcx.type_of(did).instantiate_identity().skip_norm_wip()))
                        .fb("thread_local", tls)
                        .fb("mutable", tcx.is_mutable_static(did))
                        .done(),
                );
            }
            DefKind::Impl { .. } => {
                let mut o = J::obj().fs("self", ty_str(tcx.type_of(did).instantiate_identity().skip_norm_wip()));
                if let Some(tr) = tcx.impl_opt_trait_ref(did) {
                    o = o.fs("trait", def_str(tcx, tr.skip_binder().def_id));
                }
                let ms: Vec<J> = tcx.associated_item_def_ids(did).iter().map(|m| J::s(def_str(tcx, *m))).collect();
                impls.push(o.f("items", J::A(ms)).f("span", span_json(tcx, tcx.def_span(did))).done());
            }
            DefKind::Fn => {
                fns.push(J::s(def_str(tcx, did)));
            }
            _ => {}
        }
    }
    J::obj()
        .f("adts", J::A(adts))
        .f("consts", J::A(consts))
        .f("statics", J::A(statics))
        .f("impls", J::A(impls))
        .f("fns", J::A(fns))
        .done()
}

/// For every local ADT: does `Adt<P..>: Send/Sync` hold (a) with no assumption on the type
/// parameters, (b) assuming every type parameter implements the same auto trait?
pub fn dump_auto_traits<'tcx>(tcx: TyCtxt<'tcx>) -> J {
    use rustc_infer::infer::TyCtxtInferExt;
    use rustc_middle::ty::Upcast;
    use rustc_trait_selection::infer::InferCtxtExt;
    let mut out = Vec::new();
    let send = tcx.get_diagnostic_item(rustc_span::sym::Send);
    let sync = tcx.get_diagnostic_item(rustc_span::sym::Sync);
    for id in tcx.hir_free_items() {
        let did = id.owner_id.to_def_id();
        if !matches!(tcx.def_kind(did), DefKind::Struct | DefKind::Enum) {
            continue;
        }
        let ty = tcx.type_of(did).instantiate_identity().skip_norm_wip();
        let generics = tcx.generics_of(did);
        let base_env = tcx.param_env(did);
        let mut o = J::obj().fs("adt", def_str(tcx, did)).fs("ty", ty_str(ty));
        for (name, tr) in [("send", send), ("sync", sync)] {
            let Some(trait_did) = tr else { continue };
            // (a) unconditional
            let infcx = tcx.infer_ctxt().build(ty::TypingMode::non_body_analysis());
            let uncond = infcx.type_implements_trait(trait_did, [ty], base_env).must_apply_modulo_regions();
            // (b) assuming params implement the trait
            let mut clauses: Vec<ty::Clause<'tcx>> = base_env.caller_bounds().iter().collect();
            let args = ty::GenericArgs::identity_for_item(tcx, did);
            for p in generics.own_params.iter() {
                if let ty::GenericParamDefKind::Type { .. } = p.kind {
                    let pty = args.type_at(p.index as usize);
                    let tref = ty::TraitRef::new(tcx, trait_did, [pty]);
                    clauses.push(tref.upcast(tcx));
                }
            }
            let env2 = ty::ParamEnv::new(tcx.mk_clauses(&clauses));
            let infcx2 = tcx.infer_ctxt().build(ty::TypingMode::non_body_analysis());
            let cond = infcx2.type_implements_trait(trait_did, [ty], env2).must_apply_modulo_regions();
            o = o.fb(&format!("{}_uncond", name), uncond).fb(&format!("{}_if_params", name), cond);
        }
        out.push(o.done());
    }
    J::A(out)
}
