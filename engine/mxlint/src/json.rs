//! Minimal JSON value + serializer (no external crates available offline).

pub enum J {
    Null,
    B(bool),
    I(i128),
    S(String),
    A(Vec<J>),
    O(Vec<(String, J)>),
}

impl J {
    pub fn s<T: Into<String>>(x: T) -> J {
        J::S(x.into())
    }
    pub fn obj() -> Obj {
        Obj(Vec::new())
    }
    pub fn opt(x: Option<J>) -> J {
        x.unwrap_or(J::Null)
    }
    pub fn write(&self, out: &mut String) {
        match self {
            J::Null => out.push_str("null"),
            J::B(b) => out.push_str(if *b { "true" } else { "false" }),
            J::I(i) => {
                // JSON numbers beyond 2^53 lose precision in some readers; python is fine
                out.push_str(&i.to_string())
            }
            J::S(s) => write_str(s, out),
            J::A(v) => {
                out.push('[');
                for (i, x) in v.iter().enumerate() {
                    if i > 0 {
                        out.push(',');
                    }
                    x.write(out);
                }
                out.push(']');
            }
            J::O(v) => {
                out.push('{');
                for (i, (k, x)) in v.iter().enumerate() {
                    if i > 0 {
                        out.push(',');
                    }
                    write_str(k, out);
                    out.push(':');
                    x.write(out);
                }
                out.push('}');
            }
        }
    }
}

pub struct Obj(pub Vec<(String, J)>);
impl Obj {
    pub fn f(mut self, k: &str, v: J) -> Self {
        self.0.push((k.to_string(), v));
        self
    }
    pub fn fs<T: Into<String>>(self, k: &str, v: T) -> Self {
        self.f(k, J::S(v.into()))
    }
    pub fn fi<T: Into<i128>>(self, k: &str, v: T) -> Self {
        self.f(k, J::I(v.into()))
    }
    pub fn fb(self, k: &str, v: bool) -> Self {
        self.f(k, J::B(v))
    }
    pub fn done(self) -> J {
        J::O(self.0)
    }
}

fn write_str(s: &str, out: &mut String) {
    out.push('"');
    for c in s.chars() {
        match c {
            '"' => out.push_str("\\\""),
            '\\' => out.push_str("\\\\"),
            '\n' => out.push_str("\\n"),
            '\r' => out.push_str("\\r"),
            '\t' => out.push_str("\\t"),
            c if (c as u32) < 0x20 => out.push_str(&format!("\\u{:04x}", c as u32)),
            c => out.push(c),
        }
    }
    out.push('"');
}
