//! mxlint — fact extractor for the muxide verification harness.
//!
//! Runs as RUSTC_WORKSPACE_WRAPPER under `cargo +nightly check`; for the workspace
//! crate(s) it serialises, after analysis, the type-checked program (MIR with resolved
//! callees, typed HIR bodies, items, visibilities, auto-trait facts) into ONE json file per
//! compiler process.  All rule evaluation happens in /verif/bin/check (python) over these facts.
#![feature(rustc_private)]
#![allow(clippy::all)]

extern crate rustc_abi;
extern crate rustc_ast;
extern crate rustc_data_structures;
extern crate rustc_driver;
extern crate rustc_hir;
extern crate rustc_infer;
extern crate rustc_interface;
extern crate rustc_middle;
extern crate rustc_session;
extern crate rustc_span;
extern crate rustc_trait_selection;
extern crate rustc_type_ir;

mod hirdump;
mod json;
mod mirdump;

use json::J;
use rustc_driver::Compilation;
use rustc_hir::def::DefKind;
use rustc_hir::def_id::LOCAL_CRATE;
use rustc_interface::interface::Compiler;
use rustc_middle::ty::TyCtxt;
use rustc_span::Span;

pub fn span_json(tcx: TyCtxt<'_>, span: Span) -> J {
    let sm = tcx.sess.source_map();
    let exp = span.from_expansion();
    let site = if exp { span.source_callsite() } else { span };
    let lo = sm.lookup_char_pos(site.lo());
    let hi = sm.lookup_char_pos(site.hi());
    let file = format!("{}", lo.file.name.prefer_local_unconditionally());
    let mut o = J::obj()
        .fs("file", file)
        .fi("line", lo.line as i128)
        .fi("col", lo.col.0 as i128 + 1)
        .fi("eline", hi.line as i128)
        .fb("exp", exp);
    if exp {
        let mut names = Vec::new();
        for d in span.macro_backtrace() {
            names.push(J::s(d.kind.descr()));
        }
        o = o.f("macros", J::A(names));
    }
    o.done()
}

pub fn ty_str<'tcx>(ty: rustc_middle::ty::Ty<'tcx>) -> String {
    rustc_middle::ty::print::with_no_trimmed_paths!(format!("{}", ty))
}

pub fn def_str(tcx: TyCtxt<'_>, did: rustc_hir::def_id::DefId) -> String {
    rustc_middle::ty::print::with_no_trimmed_paths!(tcx.def_path_str(did))
}

struct Cb;

impl rustc_driver::Callbacks for Cb {
    fn after_analysis<'tcx>(&mut self, _c: &Compiler, tcx: TyCtxt<'tcx>) -> Compilation {
        let out_dir = match std::env::var("MXLINT_OUT") {
            Ok(d) => d,
            Err(_) => return Compilation::Continue,
        };
        let crate_name = tcx.crate_name(LOCAL_CRATE).to_string();
        let want = std::env::var("MXLINT_CRATES").unwrap_or_else(|_| "muxide".to_string());
        if !want.split(',').any(|w| w == crate_name) {
            return Compilation::Continue;
        }
        let nonce = std::env::var("MXLINT_NONCE").unwrap_or_default();
        let is_test = tcx.sess.opts.test;
        let crate_types: Vec<String> =
            tcx.crate_types().iter().map(|t| format!("{:?}", t).to_lowercase()).collect();
        let src = match &tcx.sess.io.input {
            rustc_session::config::Input::File(p) => p.display().to_string(),
            _ => "<str>".to_string(),
        };

        let mut bodies = Vec::new();
        let mut hirs = Vec::new();
        for ldid in tcx.hir_body_owners() {
            let did = ldid.to_def_id();
            let kind = tcx.def_kind(did);
            match kind {
                DefKind::Fn | DefKind::AssocFn | DefKind::Closure => {
                    if tcx.is_mir_available(did) {
                        bodies.push(mirdump::dump_body(tcx, ldid));
                    }
                    if !matches!(kind, DefKind::Closure) {
                        hirs.push(hirdump::dump_fn(tcx, ldid));
                    }
                }
                _ => {}
            }
        }
        let items = hirdump::dump_items(tcx);
        let autos = hirdump::dump_auto_traits(tcx);

        let root = J::obj()
            .fs("nonce", nonce)
            .fs("crate", crate_name.clone())
            .f("crate_types", J::A(crate_types.iter().map(|s| J::s(s.clone())).collect()))
            .fb("test", is_test)
            .fs("src", src.clone())
            .f("bodies", J::A(bodies))
            .f("hir", J::A(hirs))
            .f("items", items)
            .f("auto_traits", autos)
            .done();
        let mut s = String::new();
        root.write(&mut s);
        let tag = src.replace('/', "_").replace('.', "_");
        let fname = format!(
            "{}/{}-{}{}-{}.facts.json",
            out_dir,
            crate_name,
            crate_types.join("+"),
            if is_test { "-test" } else { "" },
            tag
        );
        std::fs::write(&fname, s).expect("mxlint: cannot write fact file");
        Compilation::Continue
    }
}

fn main() {
    let mut args: Vec<String> = std::env::args().collect();
    // RUSTC_WORKSPACE_WRAPPER protocol: argv[1] is the path of the real rustc.
    if args.len() > 1 && (args[1].ends_with("rustc") || args[1].contains("/rustc")) {
        args.remove(1);
    }
    rustc_driver::install_ice_hook("mxlint (verification harness) — not a rustc bug", |_| ());
    rustc_driver::run_compiler(&args, &mut Cb);
}
