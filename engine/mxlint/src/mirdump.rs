//! Structured MIR serialisation (optimized_mir at -Zmir-opt-level=0).

use crate::json::J;
use crate::{def_str, span_json, ty_str};
use rustc_abi::FIRST_VARIANT;
use rustc_hir::def::DefKind;
use rustc_hir::def_id::{DefId, LocalDefId};
use rustc_middle::mir::PlaceTy;
use rustc_middle::mir::*;
use rustc_middle::ty::{self, Instance, Ty, TyCtxt, TypingEnv};

struct Cx<'a, 'tcx> {
    tcx: TyCtxt<'tcx>,
    body: &'a Body<'tcx>,
    def: DefId,
    env: TypingEnv<'tcx>,
}

pub fn dump_body<'tcx>(tcx: TyCtxt<'tcx>, ldid: LocalDefId) -> J {
    let did = ldid.to_def_id();
    let body = tcx.optimized_mir(did);
    let cx = Cx { tcx, body, def: did, env: TypingEnv::post_analysis(tcx, did) };
    let (locals, dbg, blocks) = dump_parts(&cx);
    let mut promoted = Vec::new();
    for pb in tcx.promoted_mir(did).iter() {
        let pcx = Cx { tcx, body: pb, def: did, env: TypingEnv::post_analysis(tcx, did) };
        let (pl, _pd, pbk) = dump_parts(&pcx);
        promoted.push(J::obj().f("locals", J::A(pl)).f("blocks", J::A(pbk)).fi("argc", 0).f("debug", J::A(vec![])).done());
    }
    dump_rest(tcx, ldid, body, locals, dbg, blocks, promoted)
}

fn dump_parts<'a, 'tcx>(cx: &Cx<'a, 'tcx>) -> (Vec<J>, Vec<J>, Vec<J>) {
    let body = cx.body;
    let mut locals = Vec::new();
    for (l, decl) in body.local_decls.iter_enumerated() {
        locals.push(
            J::obj()
                .fi("i", l.as_usize() as i128)
                .fs("ty", ty_str(decl.ty))
                .fb("mut", decl.mutability.is_mut())
                .done(),
        );
    }
    let mut dbg = Vec::new();
    for v in &body.var_debug_info {
        let mut o = J::obj().fs("name", v.name.to_string());
        match &v.value {
            VarDebugInfoContents::Place(p) => {
                o = o.f("place", cx.place(p));
            }
            VarDebugInfoContents::Const(c) => {
                o = o.fs("const", format!("{}", c.const_));
            }
        }
        if let Some(a) = v.argument_index {
            o = o.fi("arg", a as i128);
        }
        dbg.push(o.done());
    }

    let mut blocks = Vec::new();
    for (bb, data) in body.basic_blocks.iter_enumerated() {
        let mut stmts = Vec::new();
        for st in &data.statements {
            if let Some(j) = cx.stmt(st) {
                stmts.push(j);
            }
        }
        let term = data.terminator();
        blocks.push(
            J::obj()
                .fi("i", bb.as_usize() as i128)
                .fb("cleanup", data.is_cleanup)
                .f("stmts", J::A(stmts))
                .f("term", cx.term(term))
                .done(),
        );
    }

    (locals, dbg, blocks)
}

fn dump_rest<'tcx>(tcx: TyCtxt<'tcx>, ldid: LocalDefId, body: &Body<'tcx>, locals: Vec<J>, dbg: Vec<J>, blocks: Vec<J>, promoted: Vec<J>) -> J {
    let did = ldid.to_def_id();
    let kind = tcx.def_kind(did);
    let parent = if matches!(kind, DefKind::Closure) {
        Some(def_str(tcx, tcx.typeck_root_def_id(did)))
    } else {
        None
    };
    let vis = match kind {
        DefKind::Fn | DefKind::AssocFn => format!("{:?}", tcx.visibility(did)),
        _ => "closure".to_string(),
    };
    let effective_pub = match kind {
        DefKind::Fn | DefKind::AssocFn => tcx.effective_visibilities(()).is_reachable(ldid),
        _ => false,
    };
    let mut o = J::obj()
        .fs("path", def_str(tcx, did))
        .fs("kind", format!("{:?}", kind))
        .fs("vis", vis)
        .fb("reachable_pub", effective_pub)
        .f("span", span_json(tcx, tcx.def_span(did)))
        .fi("argc", body.arg_count as i128)
        .f("locals", J::A(locals))
        .f("debug", J::A(dbg))
        .f("blocks", J::A(blocks))
        .f("promoted", J::A(promoted));
    if let Some(p) = parent {
        o = o.fs("parent", p);
    }
    // impl-of-trait information
    if let DefKind::AssocFn = kind {
        if let Some(impl_did) = tcx.impl_of_assoc(did) {
            o = o.fs("impl_self", ty_str(tcx.type_of(impl_did).instantiate_identity().skip_norm_wip()));
            if let Some(tr) = tcx.impl_opt_trait_ref(impl_did) {
                o = o.fs("impl_trait", def_str(tcx, tr.skip_binder().def_id));
            }
        }
    }
    o = o.fb("in_test_cfg", in_test_module(tcx, did));
    o.done()
}

/// true iff the item sits under a `#[cfg(test)]` module — such items only exist in test builds,
/// but in test builds we want to tell them apart from real library code.
pub fn in_test_module(tcx: TyCtxt<'_>, did: DefId) -> bool {
    let p = def_str(tcx, did);
    p.contains("::tests::") || p.contains("_tests::") || p.starts_with("tests::")
}

impl<'a, 'tcx> Cx<'a, 'tcx> {
    fn place(&self, p: &Place<'tcx>) -> J {
        let mut proj = Vec::new();
        let mut pty = PlaceTy::from_ty(self.body.local_decls[p.local].ty);
        for elem in p.projection.iter() {
            let j = match elem {
                ProjectionElem::Deref => J::obj().fs("k", "deref").done(),
                ProjectionElem::Field(f, fty) => {
                    let mut o = J::obj().fs("k", "field").fi("i", f.as_usize() as i128).fs("ty", ty_str(fty));
                    match pty.ty.kind() {
                        ty::Adt(adt, _) => {
                            let vi = pty.variant_index.unwrap_or(FIRST_VARIANT);
                            let v = adt.variant(vi);
                            o = o
                                .fs("name", v.fields[f].name.to_string())
                                .fs("adt", def_str(self.tcx, adt.did()))
                                .fs("variant", v.name.to_string());
                        }
                        ty::Closure(..) => {
                            o = o.fs("adt", "<closure-env>");
                        }
                        _ => {}
                    }
                    o.done()
                }
                ProjectionElem::Index(l) => J::obj().fs("k", "index").fi("local", l.as_usize() as i128).done(),
                ProjectionElem::ConstantIndex { offset, min_length, from_end } => J::obj()
                    .fs("k", "cindex")
                    .fi("offset", offset as i128)
                    .fi("min_length", min_length as i128)
                    .fb("from_end", from_end)
                    .done(),
                ProjectionElem::Subslice { from, to, from_end } => J::obj()
                    .fs("k", "subslice")
                    .fi("from", from as i128)
                    .fi("to", to as i128)
                    .fb("from_end", from_end)
                    .done(),
                ProjectionElem::Downcast(name, vi) => J::obj()
                    .fs("k", "downcast")
                    .fs("variant", name.map(|s| s.to_string()).unwrap_or_default())
                    .fi("vi", vi.as_usize() as i128)
                    .done(),
                other => J::obj().fs("k", "other").fs("dbg", format!("{:?}", other)).done(),
            };
            proj.push(j);
            pty = pty.projection_ty(self.tcx, elem);
        }
        J::obj()
            .fi("l", p.local.as_usize() as i128)
            .f("p", J::A(proj))
            .fs("ty", ty_str(pty.ty))
            .done()
    }

    fn constant(&self, c: &ConstOperand<'tcx>) -> J {
        let ty = c.const_.ty();
        let mut o = J::obj().fs("k", "const").fs("ty", ty_str(ty));
        if let Const::Unevaluated(uv, _) = c.const_ {
            if let Some(p) = uv.promoted {
                o = o.fi("promoted", p.as_usize() as i128);
            }
        }
        match ty.kind() {
            ty::FnDef(did, args) => {
                o = o.fs("fn", def_str(self.tcx, *did));
                o = o.f("callee", self.resolve(*did, args));
            }
            ty::Int(_) | ty::Uint(_) | ty::Bool | ty::Char => {
                if let Some(si) = c.const_.try_eval_scalar_int(self.tcx, self.env) {
                    let size = si.size();
                    let bits = si.to_bits(size);
                    let v: i128 = match ty.kind() {
                        ty::Int(_) => size.sign_extend(bits) as i128,
                        _ => bits as i128,
                    };
                    // u128 values above i128::MAX are rendered as strings
                    if matches!(ty.kind(), ty::Uint(_)) && bits > i128::MAX as u128 {
                        o = o.fs("big", bits.to_string());
                    } else {
                        o = o.fi("v", v);
                    }
                } else {
                    o = o.fs("unevaluated", format!("{}", c.const_));
                }
            }
            ty::Float(_) => {
                if let Some(si) = c.const_.try_eval_scalar_int(self.tcx, self.env) {
                    let size = si.size();
                    o = o.fs("fbits", si.to_bits(size).to_string());
                }
                o = o.fs("text", format!("{}", c.const_));
            }
            _ => {
                o = o.fs("text", rustc_middle::ty::print::with_no_trimmed_paths!(format!("{}", c.const_)));
                // pointer constants: does the allocation belong to a `static` item?
                if let Const::Val(ConstValue::Scalar(rustc_middle::mir::interpret::Scalar::Ptr(ptr, _)), _) = c.const_ {
                    let id = ptr.provenance.alloc_id();
                    match self.tcx.global_alloc(id) {
                        rustc_middle::mir::interpret::GlobalAlloc::Static(sd) => {
                            o = o.fs("static", def_str(self.tcx, sd));
                        }
                        rustc_middle::mir::interpret::GlobalAlloc::Memory(_) => {
                            o = o.fs("alloc", "memory");
                        }
                        _ => {
                            o = o.fs("alloc", "other");
                        }
                    }
                }
            }
        }
        o.done()
    }

    fn resolve(&self, did: DefId, args: ty::GenericArgsRef<'tcx>) -> J {
        let tcx = self.tcx;
        let mut o = J::obj().fs("decl", def_str(tcx, did));
        o = o.fb("local", did.is_local());
        let substs: Vec<J> = args
            .iter()
            .map(|a| J::s(rustc_middle::ty::print::with_no_trimmed_paths!(format!("{}", a))))
            .collect();
        o = o.f("substs", J::A(substs));
        if let Some(tr) = tcx.trait_of_assoc(did) {
            o = o.fs("trait", def_str(tcx, tr));
            if let Some(st) = args.get(0).and_then(|a| a.as_type()) {
                o = o.fs("self_ty", ty_str(st));
            }
        }
        match Instance::try_resolve(tcx, self.env, did, args) {
            Ok(Some(inst)) => {
                let rd = inst.def_id();
                o = o
                    .fs("resolved", def_str(tcx, rd))
                    .fb("resolved_local", rd.is_local())
                    .fs("ikind", instance_kind(&inst));
            }
            _ => {
                o = o.f("resolved", J::Null);
            }
        }
        let _ = self.def;
        o.done()
    }

    fn operand(&self, op: &Operand<'tcx>) -> J {
        match op {
            Operand::Copy(p) => J::obj().fs("k", "copy").f("place", self.place(p)).done(),
            Operand::Move(p) => J::obj().fs("k", "move").f("place", self.place(p)).done(),
            Operand::Constant(c) => self.constant(c),
            #[allow(unreachable_patterns)]
            other => J::obj().fs("k", "other").fs("dbg", format!("{:?}", other)).done(),
        }
    }

    fn rvalue(&self, rv: &Rvalue<'tcx>) -> J {
        match rv {
            Rvalue::Use(op, ..) => J::obj().fs("k", "use").f("op", self.operand(op)).done(),
            Rvalue::Repeat(op, n) => {
                J::obj().fs("k", "repeat").f("op", self.operand(op)).fs("n", format!("{}", n)).done()
            }
            Rvalue::Ref(_, bk, p) => J::obj()
                .fs("k", "ref")
                .fb("mut", matches!(bk, BorrowKind::Mut { .. }))
                .f("place", self.place(p))
                .done(),
            Rvalue::RawPtr(kind, p) => J::obj()
                .fs("k", "rawptr")
                .fs("kind", format!("{:?}", kind))
                .f("place", self.place(p))
                .done(),
            Rvalue::ThreadLocalRef(did) => {
                J::obj().fs("k", "tlsref").fs("static", def_str(self.tcx, *did)).done()
            }
            Rvalue::Cast(ck, op, ty) => {
                let from = op.ty(self.body, self.tcx);
                J::obj()
                    .fs("k", "cast")
                    .fs("kind", cast_kind(ck))
                    .f("op", self.operand(op))
                    .fs("from", ty_str(from))
                    .fs("to", ty_str(*ty))
                    .done()
            }
            Rvalue::BinaryOp(op, ab) => {
                let (a, b) = &**ab;
                J::obj()
                    .fs("k", "binop")
                    .fs("op", format!("{:?}", op))
                    .f("a", self.operand(a))
                    .f("b", self.operand(b))
                    .done()
            }
            Rvalue::UnaryOp(op, a) => {
                J::obj().fs("k", "unop").fs("op", format!("{:?}", op)).f("a", self.operand(a)).done()
            }
            Rvalue::Discriminant(p) => J::obj().fs("k", "discr").f("place", self.place(p)).done(),
            Rvalue::Aggregate(kind, ops) => {
                let mut o = J::obj().fs("k", "aggregate");
                match &**kind {
                    AggregateKind::Array(t) => {
                        o = o.fs("agg", "array").fs("elem", ty_str(*t));
                    }
                    AggregateKind::Tuple => {
                        o = o.fs("agg", "tuple");
                    }
                    AggregateKind::Adt(did, vi, _, _, _) => {
                        let adt = self.tcx.adt_def(*did);
                        let v = adt.variant(*vi);
                        o = o
                            .fs("agg", "adt")
                            .fs("adt", def_str(self.tcx, *did))
                            .fs("variant", v.name.to_string())
                            .f(
                                "fields",
                                J::A(v.fields.iter().map(|f| J::s(f.name.to_string())).collect()),
                            );
                    }
                    AggregateKind::Closure(did, _) => {
                        o = o.fs("agg", "closure").fs("closure", def_str(self.tcx, *did));
                    }
                    other => {
                        o = o.fs("agg", "other").fs("dbg", format!("{:?}", other));
                    }
                }
                o.f("ops", J::A(ops.iter().map(|x| self.operand(x)).collect())).done()
            }
            Rvalue::CopyForDeref(p) => J::obj().fs("k", "copyderef").f("place", self.place(p)).done(),
            other => J::obj().fs("k", "other").fs("dbg", format!("{:?}", other)).done(),
        }
    }

    fn stmt(&self, st: &Statement<'tcx>) -> Option<J> {
        let span = span_json(self.tcx, st.source_info.span);
        match &st.kind {
            StatementKind::Assign(b) => {
                let (p, rv) = &**b;
                Some(
                    J::obj()
                        .fs("k", "assign")
                        .f("place", self.place(p))
                        .f("rv", self.rvalue(rv))
                        .f("span", span)
                        .done(),
                )
            }
            StatementKind::SetDiscriminant { place, variant_index } => Some(
                J::obj()
                    .fs("k", "setdiscr")
                    .f("place", self.place(place))
                    .fi("vi", variant_index.as_usize() as i128)
                    .f("span", span)
                    .done(),
            ),
            StatementKind::StorageLive(_)
            | StatementKind::StorageDead(_)
            | StatementKind::Nop
            | StatementKind::FakeRead(..)
            | StatementKind::PlaceMention(..)
            | StatementKind::AscribeUserType(..)
            | StatementKind::Coverage(..)
            | StatementKind::ConstEvalCounter => None,
            other => Some(J::obj().fs("k", "other").fs("dbg", format!("{:?}", other)).f("span", span).done()),
        }
    }

    fn term(&self, t: &Terminator<'tcx>) -> J {
        let span = span_json(self.tcx, t.source_info.span);
        let bbi = |b: &BasicBlock| J::I(b.as_usize() as i128);
        let o = match &t.kind {
            TerminatorKind::Goto { target } => J::obj().fs("k", "goto").f("target", bbi(target)),
            TerminatorKind::SwitchInt { discr, targets } => {
                let mut arms = Vec::new();
                for (v, b) in targets.iter() {
                    arms.push(J::A(vec![J::s(v.to_string()), bbi(&b)]));
                }
                J::obj()
                    .fs("k", "switch")
                    .f("discr", self.operand(discr))
                    .fs("discr_ty", ty_str(discr.ty(self.body, self.tcx)))
                    .f("arms", J::A(arms))
                    .f("otherwise", bbi(&targets.otherwise()))
            }
            TerminatorKind::Return => J::obj().fs("k", "return"),
            TerminatorKind::Unreachable => J::obj().fs("k", "unreachable"),
            TerminatorKind::UnwindResume => J::obj().fs("k", "resume"),
            TerminatorKind::UnwindTerminate(_) => J::obj().fs("k", "terminate"),
            TerminatorKind::Drop { place, target, unwind, .. } => J::obj()
                .fs("k", "drop")
                .f("place", self.place(place))
                .f("target", bbi(target))
                .f("unwind", unwind_json(unwind)),
            TerminatorKind::Call { func, args, destination, target, unwind, fn_span, .. } => {
                let mut o = J::obj().fs("k", "call").f("func", self.operand(func));
                o = o
                    .f("args", J::A(args.iter().map(|a| self.operand(&a.node)).collect()))
                    .f("dest", self.place(destination))
                    .f("target", target.as_ref().map(|b| bbi(b)).unwrap_or(J::Null))
                    .f("unwind", unwind_json(unwind))
                    .f("fn_span", span_json(self.tcx, *fn_span));
                o
            }
            TerminatorKind::Assert { cond, expected, msg, target, unwind } => {
                let mut m = J::obj();
                match &**msg {
                    AssertKind::BoundsCheck { len, index } => {
                        m = m.fs("kind", "bounds").f("len", self.operand(len)).f("index", self.operand(index));
                    }
                    AssertKind::Overflow(op, a, b) => {
                        m = m
                            .fs("kind", "overflow")
                            .fs("op", format!("{:?}", op))
                            .f("a", self.operand(a))
                            .f("b", self.operand(b));
                    }
                    AssertKind::OverflowNeg(a) => {
                        m = m.fs("kind", "overflow_neg").f("a", self.operand(a));
                    }
                    AssertKind::DivisionByZero(a) => {
                        m = m.fs("kind", "div_zero").f("a", self.operand(a));
                    }
                    AssertKind::RemainderByZero(a) => {
                        m = m.fs("kind", "rem_zero").f("a", self.operand(a));
                    }
                    other => {
                        m = m.fs("kind", "other").fs("dbg", format!("{:?}", other));
                    }
                }
                J::obj()
                    .fs("k", "assert")
                    .f("cond", self.operand(cond))
                    .fb("expected", *expected)
                    .f("msg", m.done())
                    .f("target", bbi(target))
                    .f("unwind", unwind_json(unwind))
            }
            other => J::obj().fs("k", "other").fs("dbg", format!("{:?}", other)),
        };
        o.f("span", span).done()
    }
}

fn unwind_json(u: &UnwindAction) -> J {
    match u {
        UnwindAction::Cleanup(b) => J::I(b.as_usize() as i128),
        UnwindAction::Continue => J::s("continue"),
        UnwindAction::Unreachable => J::s("unreachable"),
        UnwindAction::Terminate(_) => J::s("terminate"),
    }
}

fn cast_kind(ck: &CastKind) -> String {
    match ck {
        CastKind::IntToInt => "IntToInt".into(),
        CastKind::FloatToInt => "FloatToInt".into(),
        CastKind::IntToFloat => "IntToFloat".into(),
        CastKind::FloatToFloat => "FloatToFloat".into(),
        CastKind::PtrToPtr => "PtrToPtr".into(),
        CastKind::Transmute => "Transmute".into(),
        other => format!("{:?}", other),
    }
}

fn instance_kind(i: &Instance<'_>) -> String {
    let s = format!("{:?}", i.def);
    s.split('(').next().unwrap_or("").to_string()
}

#[allow(dead_code)]
fn _unused<'tcx>(_: Ty<'tcx>) {}
