"""A10 — obligation discharge by dominating-guard entailment.

For an obligation at block `bb` of a MIR body the hypotheses are the branch conditions (switch edges and passed
Assert terminators) that dominate `bb`, translated to linear integer constraints over *atoms* (locals, loads, lengths
of slices, opaque sub-expressions), restricted to those whose atoms cannot have been modified between the guard edge and
the obligation.  Together with type-range bounds of the atoms they are handed to a small Fourier–Motzkin refutation
procedure:  hypotheses ∧ ¬goal  infeasible  ⇒  goal holds on every path.  No code is executed and no external solver is used.
"""
from fractions import Fraction

from . import mir, sym

INT_RANGE = {
    "u8": (0, 2 ** 8 - 1), "u16": (0, 2 ** 16 - 1), "u32": (0, 2 ** 32 - 1), "u64": (0, 2 ** 64 - 1), "u128": (0, 2 ** 128 - 1), "usize": (0, 2 ** 64 - 1),
    "i8": (-2 ** 7, 2 ** 7 - 1), "i16": (-2 ** 15, 2 ** 15 - 1), "i32": (-2 ** 31, 2 ** 31 - 1), "i64": (-2 ** 63, 2 ** 63 - 1), "i128": (-2 ** 127, 2 ** 127 - 1),
    "isize": (-2 ** 63, 2 ** 63 - 1), "bool": (0, 1), "char": (0, 0x10FFFF),
}
LEN_MAX = 2 ** 63 - 1     # allocation bound: no slice / Vec is longer than isize::MAX bytes
ALLOC_TOTAL = 2 ** 62     # assumption A2: the sizes of simultaneously live buffers sum to less than 2^62 (address space)


class Lin:
    __slots__ = ("c", "t")

    def __init__(self, c=0, t=None):
        self.c = c
        self.t = dict(t or {})

    def __add__(self, o):
        t = dict(self.t)
        for k, v in o.t.items():
            t[k] = t.get(k, 0) + v
            if t[k] == 0:
                del t[k]
        return Lin(self.c + o.c, t)

    def scale(self, k):
        return Lin(self.c * k, {a: v * k for a, v in self.t.items() if v * k != 0})

    def __sub__(self, o):
        return self + o.scale(-1)

    def is_const(self):
        return not self.t

    def __repr__(self):
        return " + ".join([str(self.c)] + ["%s*%s" % (v, _short(k)) for k, v in self.t.items()])


def _short(a):
    s = str(a)
    return s if len(s) < 60 else s[:57] + "..."


def fm_infeasible(cons, limit=400):
    """cons: list of Lin meaning  lin <= 0.  True iff the system has no rational solution."""
    cons = [c for c in cons]
    while True:
        for c in cons:
            if not c.t and c.c > 0:
                return True
        vars_ = set()
        for c in cons:
            vars_ |= set(c.t)
        if not vars_:
            return False
        # eliminate the variable with the fewest pos*neg combinations
        best, bestn = None, None
        for v in vars_:
            p = sum(1 for c in cons if c.t.get(v, 0) > 0)
            n = sum(1 for c in cons if c.t.get(v, 0) < 0)
            if bestn is None or p * n < bestn:
                best, bestn = v, p * n
        v = best
        pos = [c for c in cons if c.t.get(v, 0) > 0]
        neg = [c for c in cons if c.t.get(v, 0) < 0]
        rest = [c for c in cons if c.t.get(v, 0) == 0]
        new = []
        for p in pos:
            for n in neg:
                a, b = Fraction(p.t[v]), Fraction(-n.t[v])
                comb = p.scale(b) + n.scale(a)
                comb.t.pop(v, None)
                new.append(comb)
        cons = rest + new
        if len(cons) > limit:
            return False      # give up (sound: "not proven")


FACT_HOOKS = []      # lemma-provided facts about opaque expressions: f(cx, expr, atom)
USED_LEMMAS = {}


class Ctx:
    """per-body analysis context"""

    def __init__(self, body, unit=None, stores=None):
        self.b = body
        self.u = unit
        self.dom = mir.dominators(body)
        self.preds = mir.preds(body)
        self.atoms = {}        # atom key -> (lo, hi)
        self.extra = []        # unconditional facts about atoms (Lin <= 0)
        self.defs = mir.defs(body)
        self.pdefs = mir.partial_defs(body)
        self.store_blocks = None
        self.stores = stores
        self._hyp = {}
        self._reach = {}
        self._pf_done = False

    # ---- types ---------------------------------------------------------------------------
    def ty_of(self, e):
        try:
            t = self.b.get("_ety", {}).get(e)
        except TypeError:
            t = None
        if t:
            return t
        h = e[0]
        if h in ("arg", "var"):
            return self.b["locals"][e[1]]["ty"]
        if h == "const":
            return e[2]
        if h == "load":
            return e[2] if len(e) > 2 else None
        if h == "cast":
            return e[3]
        if h == "bin":
            if e[1] in ("Eq", "Ne", "Lt", "Le", "Gt", "Ge"):
                return "bool"
            return self.ty_of(e[2])
        if h == "proj":
            if e[1][0] == "bin":
                return self.ty_of(e[1])
            return None
        if h == "un":
            if e[1] == "PtrMetadata":
                return "usize"
            return self.ty_of(e[2])
        if h == "call":
            n = e[1]
            if n.endswith("::len") or n.endswith("::count"):
                return "usize"
            if n.startswith("core::num::") and e[2]:
                return self.ty_of(e[2][0])
            if n.endswith("Ord::min") or n.endswith("Ord::max"):
                return self.ty_of(e[2][0]) if e[2] else None
        return None

    def rng(self, ty):
        ty = (ty or "").lstrip("&")
        return INT_RANGE.get(ty)

    # ---- linearisation ---------------------------------------------------------------------
    def atom(self, key, lo, hi):
        cur = self.atoms.get(key)
        if cur is None:
            self.atoms[key] = (lo, hi)
        else:
            nlo = cur[0] if lo is None else (lo if cur[0] is None else max(cur[0], lo))
            nhi = cur[1] if hi is None else (hi if cur[1] is None else min(cur[1], hi))
            self.atoms[key] = (nlo, nhi)
        return Lin(0, {key: 1})

    def len_key(self, x):
        """canonical key of the slice/Vec/str whose length is taken"""
        while isinstance(x, tuple) and x and x[0] in ("ref", "cast"):
            x = x[1] if x[0] == "ref" else x[4]
        if x[0] in ("refplace", "load"):
            return ("len", x[1])
        if x[0] == "arg":
            return ("len", "arg%d" % x[1])
        if x[0] == "var":
            return ("len", "_%d" % x[1])
        if x[0] == "call" and x[1].split("::")[-1] in ("deref", "as_slice", "as_bytes", "as_ref", "as_str", "borrow", "deref_mut") and x[2]:
            return self.len_key(x[2][0])
        return ("len", L_freeze(x))

    def lin(self, e, depth=0):
        h = e[0]
        if depth > 40:
            return self.opaque(e)
        if h == "const":
            v = e[1]
            if isinstance(v, bool):
                return Lin(int(v))
            if isinstance(v, int):
                return Lin(v)
            return self.opaque(e)
        if h in ("arg", "var"):
            r = self.rng(self.ty_of(e))
            if r is None:
                return self.opaque(e)
            if h == "var":
                vb = self.var_bounds(e[1])
                if vb is not None:
                    r = vb
                self.counter_facts(e[1])
            return self.atom(("v", e[1]), r[0], r[1])
        if h == "load":
            r = self.rng(e[2] if len(e) > 2 else None)
            if r is None:
                return self.opaque(e)
            if isinstance(e[1], str) and e[1].startswith("arg1.") and e[1].endswith(".*") and e[1][5:-2].isdigit():
                self.apply_param_facts()
                hi_ = getattr(self, "_env_hi", {}).get(int(e[1][5:-2]))
                if hi_ is not None:
                    r = (r[0], min(r[1], hi_))
            if len(e) > 3:
                # an explicitly indexed element: a different index expression is a different value
                return self.atom(("m", e[1], e[3]), r[0], r[1])
            return self.atom(("m", e[1]), r[0], r[1])
        if h == "cast":
            kind, frm, to, inner = e[1], e[2], e[3], e[4]
            if kind == "IntToInt":
                rf, rt = self.rng(frm), self.rng(to)
                li = self.lin(inner, depth + 1)
                if rf and rt:
                    lo, hi = self.bounds(li)
                    if lo is not None and hi is not None and rt[0] <= lo and hi <= rt[1]:
                        return li          # value-preserving
                return self.opaque(e)
            return self.opaque(e)
        if h == "proj" and e[2] == "0" and e[1][0] == "bin" and e[1][1].endswith("WithOverflow"):
            op = e[1][1][:-len("WithOverflow")]
            return self.lin(("bin", op, e[1][2], e[1][3]), depth + 1)
        if h in ("proj", "call") and self.u is not None:
            rp = self.ret_path(e)
            if rp is not None and rp[1] == ():
                sm = accum_helper_summary(self.u, rp[0][3])
                if sm is not None and max(sm[:2]) < len(rp[0][2]):
                    # L-ALLOC through a helper: result = accumulator argument + sum of the lengths of the collection's payloads
                    acc, coll = rp[0][2][sm[0]], rp[0][2][sm[1]]
                    USED_LEMMAS["L-ALLOC"] = USED_LEMMAS.get("L-ALLOC", 0) + 1
                    return self.lin(acc, depth + 1) + self.atom(("len", ("sumlen", L_freeze(coll))), 0, ALLOC_TOTAL)
        if h == "bin":
            op = e[1]
            if op in ("Add", "Sub"):
                a, b = self.lin(e[2], depth + 1), self.lin(e[3], depth + 1)
                return a + b if op == "Add" else a - b
            if op == "Mul":
                a, b = self.lin(e[2], depth + 1), self.lin(e[3], depth + 1)
                if a.is_const():
                    return b.scale(a.c)
                if b.is_const():
                    return a.scale(b.c)
                return self.opaque(e)
            return self.opaque(e)
        if h == "un" and e[1] == "PtrMetadata":
            return self.atom(self.len_key(e[2]), 0, LEN_MAX)
        if h == "call":
            n = e[1]
            last = n.split("::")[-1]
            if last == "len" and e[2] and (n.startswith("core::slice") or n.startswith("std::vec::Vec") or n.startswith("core::str") or n.startswith("std::string::String")):
                k = self.len_key(e[2][0])
                li = self.atom(k, 0, LEN_MAX)
                self.len_facts(e[2][0], k)
                return li
            if n == "std::convert::num::from" and e[2]:
                return self.lin(e[2][0], depth + 1)
            if last == "sum" and e[2]:
                sl = self.sum_of_lengths(e[2][0])
                if sl is not None:
                    return self.atom(("len", ("sumlen", L_freeze(sl))), 0, ALLOC_TOTAL)
            return self.opaque(e)
        return self.opaque(e)

    def len_facts(self, x, key):
        """a slice produced by range-indexing: its length is determined by the range"""
        while isinstance(x, tuple) and x and x[0] in ("ref", "cast"):
            x = x[1] if x[0] == "ref" else x[4]
        if x[0] == "call" and x[1].split("::")[-1] == "index" and len(x[2]) == 2:
            base, rg = x[2]
            if rg[0] == "agg" and "Range" in str(rg[1]):
                me = Lin(0, {key: 1})
                nm = str(rg[1])
                if nm.endswith("ops::Range::Range") and len(rg[3]) == 2:
                    self.extra_eq(me, self.lin(rg[3][1]) - self.lin(rg[3][0]))
                elif "RangeFrom" in nm and len(rg[3]) == 1:
                    bk = self.len_key(base)
                    self.atom(bk, 0, LEN_MAX)
                    self.extra_eq(me, Lin(0, {bk: 1}) - self.lin(rg[3][0]))
                elif "RangeTo" in nm and len(rg[3]) == 1:
                    self.extra_eq(me, self.lin(rg[3][0]))

    def extra_eq(self, a, b):
        self.extra.append(a - b)
        self.extra.append(b - a)

    def ret_path(self, e):
        """if e is component `path` of the success payload of a call to a local function: (call expr, path tuple)"""
        path = []
        x = e
        while x[0] == "proj":
            k = x[2]
            if isinstance(k, str) and k.startswith("as "):
                # the payload field directly above a variant downcast is not a tuple component
                if path and path[-1] == "0":
                    path.pop()
                x = x[1]
                continue
            path.append(k)
            x = x[1]
        while x[0] == "call" and (x[1].endswith("Try>::branch") or x[1].split("::")[-1] in ("unwrap", "expect")) and x[2]:
            x = x[2][0]
        if x[0] == "call" and len(x) > 3 and self.u is not None and x[3] in self.u.bodies:
            return x, tuple(reversed(path))
        return None

    def opaque(self, e):
        ty = self.ty_of(e)
        r = self.rng(ty)
        lo, hi = (r if r else (None, None))
        # interval refinements for common bit operations
        iv = self.interval(e)
        if iv:
            lo = iv[0] if lo is None else max(lo, iv[0])
            hi = iv[1] if hi is None else min(hi, iv[1])
        rp = self.ret_path(e)
        key = ("x", ("retcomp", L_freeze(rp[0]), rp[1])) if rp is not None else ("x", L_freeze(e))
        self.__dict__.setdefault("_oexpr", {})[key] = e
        cur = self.atoms.get(key)
        if cur is None or cur == (None, None):
            self.atoms[key] = (lo, hi)
        li = Lin(0, {key: 1})
        fresh = self.__dict__.setdefault("_seen_opaque", set())
        if key not in fresh:
            fresh.add(key)
            self.opaque_facts(e, li)
        return li

    def enum_index(self, e):
        """if e is the index component of `Enumerate::next()`: (base collection expr | None, take bound | None)"""
        x = e
        if not (x[0] == "proj" and x[2] == "0"):
            return None
        x = x[1]
        # .. .0 of the (idx, elem) tuple, itself `.as Some.0` of next()
        while x[0] == "proj" and (x[2] in ("0", "as Some") or str(x[2]).startswith("as ")):
            x = x[1]
        if not (x[0] == "call" and "Enumerate" in x[1] and x[1].endswith("::next")):
            return None
        cur = x[2][0] if x[2] else None
        take = None
        base = None
        seen = 0
        while cur is not None and seen < 12:
            seen += 1
            if cur[0] in ("ref",):
                cur = cur[1]
                continue
            if cur[0] == "call":
                last = cur[1].split("::")[-1]
                if last == "take" and len(cur[2]) == 2 and cur[2][1][0] == "const":
                    take = cur[2][1][1]
                if last in ("into_iter", "enumerate", "iter", "take", "by_ref", "copied", "cloned", "iter_mut", "deref"):
                    cur = cur[2][0] if cur[2] else None
                    continue
                base = cur
                break
            base = cur
            break
        return base, take

    def opaque_facts(self, e, me):
        for hook in FACT_HOOKS:
            hook(self, e, me)
        rp = self.ret_path(e)
        if rp is not None:
            call, path = rp
            for pc in postconditions(self.u, call[3]):
                self.instantiate(pc, call, path, me)
        ei = self.enum_index(e)
        if ei is not None:
            base, take = ei
            if take is not None:
                self.extra.append(me - Lin(take - 1))
            if base is not None:
                k = self.len_key(base)
                ln = self.atom(k, 0, LEN_MAX)
                self.extra.append(me - ln + Lin(1))            # idx <= len - 1
        if e[0] == "call":
            n = e[1]
            if n.endswith("saturating_sub") and len(e[2]) == 2:
                a = self.lin(e[2][0])
                self.extra.append(me - a)                       # result <= a
            if (n.endswith("Ord::min") or n.endswith("::min")) and len(e[2]) == 2:
                self.extra.append(me - self.lin(e[2][0]))
                self.extra.append(me - self.lin(e[2][1]))
            if (n.endswith("Ord::max") or n.endswith("::max")) and len(e[2]) == 2:
                self.extra.append(self.lin(e[2][0]) - me)
                self.extra.append(self.lin(e[2][1]) - me)
        if e[0] == "bin" and e[1] in ("Div",) and e[3][0] == "const" and isinstance(e[3][1], int) and e[3][1] > 0:
            a = self.lin(e[2])
            lo, hi = self.bounds(a)
            if lo is not None and lo >= 0:
                self.extra.append(me - a)                       # x / c <= x for x >= 0

    def interval(self, e):
        """cheap interval of a non-linear expression (None if unknown)"""
        h = e[0]
        if h == "const" and isinstance(e[1], int):
            return (e[1], e[1])
        if h == "cast" and e[1] == "IntToInt":
            inner = self.interval(e[4]) or self.rng(e[2])
            rt = self.rng(e[3])
            if inner and rt and rt[0] <= inner[0] and inner[1] <= rt[1]:
                return inner
            return rt
        if h == "var":
            vb = self.var_bounds(e[1])
            at = self.__dict__.get("_at")
            if at is not None and vb is not None:
                ba = self.bound_at(e[1], at)
                if ba is not None:
                    vb = (vb[0], min(vb[1], ba))
            if vb is not None:
                return vb
            return self.rng(self.ty_of(e))
        if h in ("arg", "load"):
            return self.rng(self.ty_of(e))
        if h == "call" and e[1].split("::")[-1] in ("from", "into") and len(e[2]) == 1 and ("convert" in e[1]):
            # `u8::from(flag)` / lossless widening: the operand's interval (a bool is 0 or 1)
            a0 = e[2][0]
            ty0 = self.ty_of(a0)
            if ty0 == "bool" or (a0[0] == "const" and a0[2:3] == ("bool",)):
                return (0, 1)
            r0 = self.interval(a0)
            rt = self.rng(self.ty_of(e))
            if r0 and rt and rt[0] <= r0[0] and r0[1] <= rt[1]:
                return r0
        if h == "bin":
            op = e[1]
            a, b = self.interval(e[2]), self.interval(e[3])
            if op == "BitAnd":
                c = [x for x in (a, b) if x and x[0] == x[1] and x[0] >= 0]
                oth = [x for x in (a, b) if x]
                if c:
                    return (0, min(x[0] for x in c))
                if oth and all(x[0] >= 0 for x in oth):
                    return (0, min(x[1] for x in oth))
            if op == "Shr" and a and b and b[0] == b[1] and a[0] >= 0 and 0 <= b[0] < 128:
                return (a[0] >> b[0], a[1] >> b[0])
            if op == "Shl" and a and b and b[0] != b[1] and a[0] >= 0 and 0 <= b[0] and b[1] < 128:
                r = self.rng(self.ty_of(e))
                hi = a[1] << b[1]
                if r and hi <= r[1]:
                    return (0, hi)
            if op == "Shl" and a and b and b[0] == b[1] and a[0] >= 0 and 0 <= b[0] < 128:
                r = self.rng(self.ty_of(e))
                hi = a[1] << b[0]
                if r:
                    hi = min(hi, r[1]) if hi <= r[1] else r[1]
                return (0, hi)
            if op == "BitOr" and a and b and a[0] >= 0 and b[0] >= 0:
                return (0, (1 << max(a[1].bit_length(), b[1].bit_length())) - 1)
            if op == "Rem" and b and b[0] == b[1] and b[0] > 0 and a and a[0] >= 0:
                return (0, b[0] - 1)
            if op == "Div" and b and b[0] == b[1] and b[0] > 0 and a and a[0] >= 0:
                return (a[0] // b[0], a[1] // b[0])
            if op in ("Add", "AddWithOverflow") and a and b:
                return (a[0] + b[0], a[1] + b[1])
            if op in ("Mul", "MulWithOverflow") and a and b and a[0] >= 0 and b[0] >= 0:
                return (a[0] * b[0], a[1] * b[1])
            if op in ("Sub", "SubWithOverflow") and a and b:
                return (a[0] - b[1], a[1] - b[0])
            if op in ("Eq", "Ne", "Lt", "Le", "Gt", "Ge"):
                return (0, 1)
        if h == "proj" and e[2] == "0" and e[1][0] == "bin":
            iv = self.interval(e[1])
            r = self.rng(self.ty_of(e[1][2]))
            if iv and r:
                return (max(iv[0], r[0]), min(iv[1], r[1]))
            return iv
        if h == "proj":
            ei = self.enum_index(e)
            if ei is not None:
                return (0, (ei[1] - 1) if ei[1] is not None else LEN_MAX - 1)
            fi = self.field_interval(e)
            if fi is not None:
                return fi
        if h == "call" and len(e) > 3 and self.u is not None and e[3] in self.u.bodies:
            ri = ret_interval(self.u, e[3])
            if ri is not None:
                return ri
        if h == "proj" or h == "call":
            rp = self.ret_path(e)
            if rp is not None:
                lo = hi = None
                for (cps, terms, const) in postconditions(self.u, rp[0][3]):
                    if len(terms) == 1 and terms[0][0] == ("ret", rp[1]):
                        if terms[0][1] == 1:
                            hi = -const if hi is None else min(hi, -const)
                        elif terms[0][1] == -1:
                            lo = const if lo is None else max(lo, const)
                if lo is not None or hi is not None:
                    r = self.rng(self.ty_of(e)) or (None, None)
                    lo = r[0] if lo is None else lo
                    hi = r[1] if hi is None else hi
                    if lo is not None and hi is not None:
                        return (lo, hi)
            if rp is not None and rp[1] == ():
                k = bitacc_summary(self.u, rp[0][3])
                if k is not None and k < len(rp[0][2]):
                    n = self.interval(rp[0][2][k])
                    if n is not None and 0 <= n[1] <= 64:
                        return (0, 2 ** n[1] - 1)
        if h == "call":
            n = e[1]
            if n.split("::")[-1] == "len" and e[2]:
                w = self.const_width(e[2][0])
                if w is None and self.__dict__.get("_at") is not None:
                    w = self.vec_len(e[2][0], self._at)
                if w is not None:
                    return (w, w)
            if n.split("::")[-1] == "unwrap_or" and len(e[2]) == 2 and e[2][0][0] == "call" and e[2][0][1].split("::")[-1] == "map" and len(e[2][0][2]) == 2:
                clo = e[2][0][2][1]
                dflt = self.interval(e[2][1])
                if clo[0] == "agg" and str(clo[1]).startswith("closure ") and dflt is not None and self.u is not None:
                    names = [k for k in self.u.bodies if mir.norm(k) == mir.norm(str(clo[1])[len("closure "):])]
                    if len(names) == 1:
                        ri = ret_interval(self.u, names[0])
                        if ri is not None:
                            return (min(ri[0], dflt[0]), max(ri[1], dflt[1]))
            if n.split("::")[-1] in ("len", "count"):
                return (0, LEN_MAX)
            if n == "std::convert::num::from" and e[2]:
                return self.interval(e[2][0])
            if n.endswith("::min") and len(e[2]) == 2:
                a, b = self.interval(e[2][0]), self.interval(e[2][1])
                if a and b:
                    return (min(a[0], b[0]), min(a[1], b[1]))
            if n.endswith("saturating_sub") and len(e[2]) == 2:
                a = self.interval(e[2][0])
                if a:
                    return (0, a[1])
            if n.endswith("leading_zeros") or n.endswith("trailing_zeros") or n.endswith("count_ones"):
                return (0, 128)
        if h == "un" and e[1] == "PtrMetadata":
            return (0, LEN_MAX)
        return None

    def var_bounds(self, l, _stack=()):
        """(lo, hi) of a multi-definition local from its definitions: constants / bounded expressions, and self-increments
        `v + c` (c >= 0: keeps the lower bound) / `v - c` (keeps the upper bound)"""
        cache = self.__dict__.setdefault("_vb", {})
        if l in cache:
            return cache[l]
        if l in _stack:
            return None
        r = self.rng(self.b["locals"][l]["ty"])
        if r is None:
            return None
        cache[l] = r      # recursion guard / fallback
        ds = self.defs.get(l, [])
        if not ds or self.pdefs.get(l):
            return r
        lo, hi = None, None
        inc = dec = False
        lensum = False
        for d in ds:
            if d[0] != "stmt":
                name, info = mir.callee(d[2])
                iv = ret_interval(self.u, name) if (self.u is not None and name in self.u.bodies) else None
                if iv is None:
                    iv = self.interval(sym.expr_def(self.b, d, stop=(l,)))
                iv = iv or r
            else:
                e = sym.expr_rv(self.b, d[3]["rv"], stop=(l,))
                if e[0] == "proj" and e[2] == "0" and e[1][0] == "bin" and e[1][1] in ("AddWithOverflow", "SubWithOverflow") and e[1][2][0] == "var" and e[1][2][1] == l:
                    c = self.interval(e[1][3])
                    if c is not None and c[0] >= 0:
                        if e[1][1].startswith("Add"):
                            inc = True
                        else:
                            dec = True
                        continue
                    return r
                if self.length_accumulation(e, l, d[1]):
                    lensum = True
                    continue
                saved_at = self.__dict__.get("_at")
                self._at = d[1]
                try:
                    if e[0] == "bin" and e[1] == "BitOr" and e[2][:2] == ("var", l):
                        # or-accumulation `v |= x`: never sets a bit above the highest bit of any x (or of the other definitions)
                        x = self.interval(e[3])
                        iv = (0, (1 << x[1].bit_length()) - 1) if (x is not None and x[0] >= 0) else r
                        if iv[1] > r[1]:
                            iv = r
                    else:
                        iv = self.interval(e) or r
                finally:
                    self._at = saved_at
            lo = iv[0] if lo is None else min(lo, iv[0])
            hi = iv[1] if hi is None else max(hi, iv[1])
        if lo is None:
            return r
        out = (r[0] if dec else max(lo, r[0]), r[1] if inc else min(hi, r[1]))
        if lensum and not inc and not dec and hi == 0 and lo == 0:
            # L-ALLOC: starts at 0 and only ever grows by the length of one element of a live collection per iteration of
            # a loop over that collection, through a checked add: bounded by the total size of live buffers (assumption A2)
            out = (0, min(r[1], ALLOC_TOTAL))
            USED_LEMMAS["L-ALLOC"] = USED_LEMMAS.get("L-ALLOC", 0) + 1
        elif lensum:
            out = r
        cache[l] = out
        if inc and not dec and LEN_MAX < out[1]:
            # candidate inductive bound v <= LEN_MAX: every definition keeps it, assuming it for the previous value
            K = LEN_MAX
            key = ("v", l)
            saved = self.atoms.get(key)
            cache[l] = (out[0], K)
            self.atoms[key] = (out[0], K)
            good = True
            for d in ds:
                e = sym.expr_def(self.b, d, stop=(l,))
                okk, _h = self.prove_le0(self.lin(e) - Lin(K), d[1], 2, entry=(d[0] == "stmt"))
                if not okk:
                    good = False
                    break
            if good:
                out = (out[0], K)
                self.__dict__.setdefault("_ind", {})[l] = K
            else:
                if saved is None:
                    self.atoms.pop(key, None)
                else:
                    self.atoms[key] = saved
            cache[l] = out
        if inc and not dec and out[1] >= r[1]:
            tb = self.trip_bounded(l, ds, lo, hi)
            if tb is not None:
                out = (out[0], min(out[1], tb))
                cache[l] = out
        return out

    def trip_count(self, blocks):
        """upper bound on the number of iterations of the loop with these blocks when it is driven by a std iterator chain
        containing `.take(N)` with constant N, or by a range with constant ends"""
        for bb in sorted(blocks):
            t = self.b["blocks"][bb]["term"]
            if t["k"] != "call":
                continue
            name, info = mir.callee(t)
            if not (name or "").endswith("::next") or not t["args"]:
                continue
            if any(bb in bl and len(bl) < len(blocks) for (_h, _l, bl) in self.natural_loops()):
                continue          # belongs to a nested loop
            # the None arm must leave the loop: approximated by the iterator being a std adaptor chain (checked by the loop rule)
            cur = sym.expr(self.b, t["args"][0])
            seen = 0
            while cur is not None and seen < 12:
                seen += 1
                if cur[0] == "ref":
                    cur = cur[1]
                    continue
                if cur[0] == "call":
                    last = cur[1].split("::")[-1]
                    if last == "take" and len(cur[2]) == 2 and cur[2][1][0] == "const" and isinstance(cur[2][1][1], int):
                        return cur[2][1][1]
                    if last in ("into_iter", "enumerate", "iter", "by_ref", "copied", "cloned", "iter_mut", "rev") and cur[2]:
                        cur = cur[2][0]
                        continue
                if cur[0] == "agg" and str(cur[1]).endswith("ops::Range::Range") and len(cur[3]) == 2:
                    a, b_ = self.interval(cur[3][0]), self.interval(cur[3][1])
                    if a and b_ and b_[1] - a[0] < 2 ** 32:
                        return max(0, b_[1] - a[0])
                break
        return None

    def sum_of_lengths(self, it):
        """it = map(iter(&C), closure) where the closure returns the length of a buffer held by its argument: C (L-ALLOC)"""
        if not (it[0] == "call" and it[1].split("::")[-1] == "map" and len(it[2]) == 2):
            return None
        src, clo = it[2]
        if not (src[0] == "call" and src[1].split("::")[-1] in ("iter", "into_iter") and src[2]):
            return None
        if not (clo[0] == "agg" and str(clo[1]).startswith("closure ")):
            return None
        name = [k for k in (self.u.bodies if self.u else {}) if mir.norm(k) == mir.norm(str(clo[1])[len("closure "):])]
        if len(name) != 1:
            return None
        cb = self.u.bodies[name[0]]
        r = sym.expr_local(cb, 0)
        while r[0] == "cast":
            r = r[4]
        if r[0] == "call" and r[1].split("::")[-1] == "len" and r[2] and any(isinstance(y, tuple) and y[:2] == ("arg", 2) or (isinstance(y, tuple) and y and y[0] in ("load", "refplace") and str(y[1]).startswith("arg2")) for y in sym.walk(r[2][0])):
            return src[2][0]
        return None

    def const_width(self, x):
        """L-WIDTH: the buffer is the result of a local zero-argument byte producer whose symbolic production (layout
        interpreter, HIR) has a constant width"""
        while x[0] == "ref":
            x = x[1]
        while x[0] == "call" and x[1].split("::")[-1] in ("deref", "as_slice", "as_ref") and x[2]:
            x = x[2][0]
            while x[0] == "ref":
                x = x[1]
        if not (x[0] == "call" and len(x) > 3 and self.u is not None and x[3] in self.u.bodies):
            return None
        key = x[3]
        if key in _WIDTH:
            return _WIDTH[key]
        _WIDTH[key] = None
        try:
            from . import layout as LY
            hn = mir.norm(key)
            cands = [k for k in self.u.hir if k == hn or mir.norm(k) == hn]
            if len(cands) == 1:
                cb = self.u.bodies[key]
                params = [("param", mir.debug_name(cb, i) or ("p%d" % i)) for i in range(1, cb["argc"] + 1)]
                w = LY.width(LY.Interp(self.u).production(cands[0], params))
                if w.is_const():
                    _WIDTH[key] = int(w.const)
                    USED_LEMMAS["L-WIDTH"] = USED_LEMMAS.get("L-WIDTH", 0) + 1
        except Exception:
            _WIDTH[key] = None
        return _WIDTH[key]

    def vec_len(self, x, at, depth=0):
        """L-VECLEN: exact length at block `at` of a Vec created empty in this body and filled only by straight-line
        push / extend_from_slice calls (constant-size operands) that all dominate `at`; None otherwise"""
        import re
        if depth > 6:
            return None
        while x[0] == "ref" or (x[0] == "call" and x[1].split("::")[-1] in ("deref", "as_slice") and x[2]) or (x[0] == "cast" and x[1].startswith("PointerCoercion")):
            x = x[1] if x[0] == "ref" else (x[2][0] if x[0] == "call" else x[4])
        while x[0] == "promoted" or x[0] == "ref":
            x = x[1]
        w = self.const_width(x)
        if w is not None:
            return w
        if x[0] == "repeat" and isinstance(x[2], int):
            return x[2]
        if x[0] == "repeat" and str(x[2]).isdigit():
            return int(x[2])
        ty = self.ty_of(x) or ""
        m = re.match(r"^&?\[u8; (\d+)\]$", ty.strip())
        if m:
            return int(m.group(1))
        if x[0] == "call" and x[1].split("::")[-1] in ("to_be_bytes", "to_le_bytes", "to_ne_bytes"):
            r = self.rng(self.ty_of(x[2][0])) if x[2] else None
            if r:
                return (r[1] - r[0] + 1).bit_length() // 8
        if x[0] == "agg" and x[1] == "array":
            return len(x[3])
        if x[0] == "const" and isinstance(x[2], str):
            m = re.match(r"^&?\[u8; (\d+)\]$", x[2].strip())
            if m:
                return int(m.group(1))
        if not (x[0] == "call" and x[1].split("::")[-1] in ("new", "with_capacity") and "Vec" in x[1] and len(x) > 4):
            return None
        total = 0
        loops = self.natural_loops()
        for bb, t, name, info in mir.calls(self.b):
            muts = [a for a in t["args"] if a.get("k") in ("copy", "move") and mir._mut_ptr_arg(a["place"]["ty"])]
            if not muts:
                continue
            recv = sym.expr(self.b, t["args"][0])
            while recv[0] == "ref":
                recv = recv[1]
            if recv != x:
                if any(x == y for a in muts for y in sym.walk(sym.expr(self.b, a))):
                    return None
                continue
            last = mir.norm(name or "").split("::")[-1]
            if last in ("deref_mut",):
                continue
            if bb not in self.dom.get(at, ()) and bb != at:
                if at in self.reach_avoid(bb, None):
                    return None           # a mutation that may or may not have happened
                continue
            if bb == at:
                continue                  # the call terminator comes after the statements of `at`
            if any(bb in bl for (_h, _l, bl) in loops):
                return None
            if last == "push" and len(t["args"]) == 2:
                total += 1
            elif last == "extend_from_slice" and len(t["args"]) == 2:
                n = self.vec_len(sym.expr(self.b, t["args"][1]), bb, depth + 1)
                if n is None:
                    return None
                total += n
            else:
                return None
        USED_LEMMAS["L-VECLEN"] = USED_LEMMAS.get("L-VECLEN", 0) + 1
        return total

    def length_accumulation(self, e, l, bb):
        """e = unwrap/`?` of checked_add(l, len(<element of collection P>) as T), in a loop driven by iter(&P)"""
        x = e
        while True:
            if x[0] == "proj":
                x = x[1]
            elif x[0] == "call" and (x[1].endswith("Try>::branch") or x[1].split("::")[-1] in ("unwrap", "expect", "ok_or_else", "ok_or")) and x[2]:
                x = x[2][0]
            else:
                break
        if not (x[0] == "call" and x[1].split("::")[-1] == "checked_add" and len(x[2]) == 2 and x[2][0][:2] == ("var", l)):
            return False
        y = x[2][1]
        while y[0] == "cast":
            y = y[4]
        if not (y[0] == "call" and y[1].split("::")[-1] == "len" and y[2]):
            return False
        key = self.len_key(y[2][0])
        if not (isinstance(key[1], str) and ".[]." in key[1]):
            return False
        coll = key[1].split(".[].")[0]
        inner = None
        for (h, latches, blocks) in self.natural_loops():
            if bb in blocks and (inner is None or len(blocks) < len(inner)):
                inner = blocks
        if inner is None:
            return False
        for b2 in sorted(inner):
            t = self.b["blocks"][b2]["term"]
            if t["k"] == "call":
                name, info = mir.callee(t)
                if (name or "").endswith("::next") and t["args"]:
                    cur = sym.expr(self.b, t["args"][0])
                    txt = sym.show(cur)
                    if ("[%s]" % coll) in txt and ("iter" in txt):
                        return True
                    # the collection is a parameter iterated directly (`for x in xs`)
                    if coll.startswith("arg") and coll[3:].isdigit() and "iter" in txt and any(
                            isinstance(y, tuple) and len(y) > 1 and ((y[0] == "arg" and y[1] == int(coll[3:])) or (y[0] in ("load", "refplace") and y[1] == coll)) for y in sym.walk(cur)):
                        return True
        return False

    def bound_at(self, l, bb):
        """upper bound of an increment-only counter at block bb when bb precedes the step inside the iteration: at most
        N-1 steps have happened (N = trip count of the loop holding the steps)"""
        cache = self.__dict__.setdefault("_bat", {})
        if (l, bb) in cache:
            return cache[(l, bb)]
        cache[(l, bb)] = None
        ds = self.defs.get(l, [])
        if self.pdefs.get(l) or len(ds) < 2:
            return None
        init_hi = None
        steps = []
        for d in ds:
            if d[0] != "stmt":
                return None
            e = sym.expr_rv(self.b, d[3]["rv"], stop=(l,))
            if e[0] == "proj" and e[2] == "0" and e[1][0] == "bin" and e[1][1] == "AddWithOverflow" and e[1][2][:2] == ("var", l):
                iv = self.interval(e[1][3])
                if iv is None or iv[0] < 0:
                    return None
                steps.append((d[1], iv[1]))
            else:
                iv = self.interval(e)
                if iv is None:
                    return None
                init_hi = iv[1] if init_hi is None else max(init_hi, iv[1])
        if not steps or init_hi is None:
            return None
        loop = None
        for (h, latches, blocks) in self.natural_loops():
            if all(sb in blocks for sb, _ in steps) and bb in blocks and (loop is None or len(blocks) < len(loop[2])):
                loop = (h, latches, blocks)
        if loop is None:
            return None
        h, latches, blocks = loop
        if any(sb in bl and len(bl) < len(blocks) for sb, _ in steps for (_h, _l, bl) in self.natural_loops()):
            return None                       # a step inside a nested loop can run many times per iteration
        n = self.trip_count(blocks)
        if n is None or n < 1:
            return None
        for sb, _ in steps:
            for s_ in mir.succs(self.b, sb):
                if s_ != h and bb in self.reach_avoid(s_, h):
                    return None               # bb can follow the step within one iteration
            if sb == bb:
                return None
        out = init_hi + sum(k for _, k in steps) * (n - 1)
        cache[(l, bb)] = out
        return out

    def trip_bounded(self, l, ds, init_lo, init_hi):
        steps = []
        for d in ds:
            if d[0] != "stmt":
                continue
            e = sym.expr_rv(self.b, d[3]["rv"], stop=(l,))
            if e[0] == "proj" and e[2] == "0" and e[1][0] == "bin" and e[1][1] == "AddWithOverflow" and e[1][2][0] == "var" and e[1][2][1] == l:
                steps.append((d[1], self.interval(e[1][3])))
        if not steps or init_hi is None:
            return None
        total = init_hi
        for (sbb, iv) in steps:
            inner = None
            for (h, latches, blocks) in self.natural_loops():
                if sbb in blocks and (inner is None or len(blocks) < len(inner)):
                    inner = blocks
            if iv is None:
                return None
            n = 1 if inner is None else self.trip_count(inner)     # outside every loop: executed at most once
            if n is None:
                return None
            total += n * iv[1]
        return total

    def counter_facts(self, l):
        """v >= init (resp. <=) for a local whose only non-initial definitions are self-increments (decrements)"""
        done = self.__dict__.setdefault("_cf", set())
        if l in done:
            return
        done.add(l)
        ds = self.defs.get(l, [])
        if len(ds) < 2 or self.pdefs.get(l):
            return
        inits, inc, dec = [], 0, 0
        for d in ds:
            if d[0] != "stmt":
                return
            e = sym.expr_rv(self.b, d[3]["rv"], stop=(l,))
            if e[0] == "proj" and e[2] == "0" and e[1][0] == "bin" and e[1][1] in ("AddWithOverflow", "SubWithOverflow") and e[1][2][0] == "var" and e[1][2][1] == l:
                c = self.interval(e[1][3])
                if c is None or c[0] < 0:
                    return
                if e[1][1].startswith("Add"):
                    inc += 1
                else:
                    dec += 1
            else:
                inits.append((d, e))
        if len(inits) != 1 or (inc and dec):
            return
        d, e = inits[0]
        # the initial value must be expressed in atoms that never change (parameters / single-definition temps / constants)
        li = self.lin(e)
        for a in li.t:
            if self._locals_of(a) or self._mem_of(a):
                return
        me = Lin(0, {("v", l): 1})
        # valid wherever the init dominates; we only use it for obligations dominated by the init block (checked by caller via dom)
        self.__dict__.setdefault("_cfacts", []).append((d[1], (li - me) if inc else (me - li)))

    def instantiate(self, pc, call, path, me):
        """add the caller-side instance of postcondition pc that involves return component `path`"""
        comps, terms, const = pc        # sum(coef * term) + const <= 0 ; terms: ('ret', path) | ('param', k) | ('lenparam', k)
        if ("ret", path) not in [t for t, c in terms]:
            return
        li = Lin(const)
        for (t, c) in terms:
            if t[0] == "ret":
                if t[1] == path:
                    li = li + me.scale(c)
                else:
                    # a sibling component of the same call: build its atom expression
                    return self._inst_multi(pc, call)
            elif t[0] == "param":
                li = li + self.lin(call[2][t[1]]).scale(c)
            elif t[0] == "lenparam":
                k = self.len_key(call[2][t[1]])
                li = li + self.atom(k, 0, LEN_MAX).scale(c)
        self.extra.append(li)

    def _inst_multi(self, pc, call):
        key = ("pcm", L_freeze(call), L_freeze(pc))
        done = self.__dict__.setdefault("_pcm", set())
        if key in done:
            return
        done.add(key)
        comps, terms, const = pc
        li = Lin(const)
        for (t, c) in terms:
            if t[0] == "ret":
                a = ("x", ("retcomp", L_freeze(call), t[1]))
                self.atoms.setdefault(a, (None, None))
                li = li + Lin(0, {a: c})
            elif t[0] == "param":
                li = li + self.lin(call[2][t[1]]).scale(c)
            elif t[0] == "lenparam":
                k = self.len_key(call[2][t[1]])
                li = li + self.atom(k, 0, LEN_MAX).scale(c)
        self.extra.append(li)

    def field_interval(self, e):
        """interval of `<value produced by a local function>.field` from all constructions of the struct in the crate"""
        if self.u is None or not (e[0] == "proj" and isinstance(e[2], str) and not e[2].startswith("as ") and not e[2].isdigit()):
            return None
        root = e[1]
        while root[0] == "proj" or (root[0] == "call" and (root[1].endswith("Try>::branch") or root[1].split("::")[-1] in ("unwrap", "expect")) and root[2]):
            root = root[1] if root[0] == "proj" else root[2][0]
        if not (root[0] == "call" and len(root) > 3 and root[3] in self.u.bodies):
            return None
        return struct_field_interval(self.u, e[2], self.ty_of_field(e))

    def ty_of_field(self, e):
        return None

    def bounds(self, li):
        lo = hi = li.c
        for k, v in li.t.items():
            a = self.atoms.get(k, (None, None))
            if v > 0:
                lo = None if (lo is None or a[0] is None) else lo + v * a[0]
                hi = None if (hi is None or a[1] is None) else hi + v * a[1]
            else:
                lo = None if (lo is None or a[1] is None) else lo + v * a[1]
                hi = None if (hi is None or a[0] is None) else hi + v * a[0]
        return lo, hi

    # ---- guards -> constraints ---------------------------------------------------------------
    def cond_constraints(self, e, truth):
        """constraints (list of Lin <= 0) implied by boolean expression e having the given truth value"""
        h = e[0]
        if h == "un" and e[1] == "Not":
            return self.cond_constraints(e[2], not truth)
        if h == "const" and isinstance(e[1], (int, bool)):
            return []
        if h == "proj" and e[2] == "1" and e[1][0] == "bin" and e[1][1].endswith("WithOverflow"):
            # overflow flag
            if truth:
                return []
            op = e[1][1][:-len("WithOverflow")]
            r = self.rng(self.ty_of(e[1][2]))
            if not r:
                return []
            a, b = self.lin(e[1][2]), self.lin(e[1][3])
            if op == "Add":
                v = a + b
            elif op == "Sub":
                v = a - b
            elif op == "Mul" and (a.is_const() or b.is_const()):
                v = b.scale(a.c) if a.is_const() else a.scale(b.c)
            else:
                return []
            return [v - Lin(r[1]), Lin(r[0]) - v]
        if h == "bin" and e[1] in ("Eq", "Ne", "Lt", "Le", "Gt", "Ge"):
            op = e[1]
            if not truth:
                op = {"Eq": "Ne", "Ne": "Eq", "Lt": "Ge", "Le": "Gt", "Gt": "Le", "Ge": "Lt"}[op]
            ta = self.ty_of(e[2])
            if ta is not None and self.rng(ta) is None:
                return []
            a, b = self.lin(e[2]), self.lin(e[3])
            d = a - b
            if op == "Lt":
                return [d + Lin(1)]
            if op == "Le":
                return [d]
            if op == "Gt":
                return [d.scale(-1) + Lin(1)]
            if op == "Ge":
                return [d.scale(-1)]
            if op == "Eq":
                return [d, d.scale(-1)]
            if op == "Ne":
                # x != c at the boundary of x's range becomes an inequality
                lo, hi = self.bounds(d)
                if lo is not None and lo >= 0:
                    return [d.scale(-1) + Lin(1)]
                if hi is not None and hi <= 0:
                    return [d + Lin(1)]
                return []
        if h == "call":
            n = e[1].split("::")[-1]
            if n == "is_empty" and e[2]:
                k = self.len_key(e[2][0])
                me = self.atom(k, 0, LEN_MAX)
                return [me, me.scale(-1)] if truth else [Lin(1) - me]
        if h == "bin" and e[1] in ("BitAnd",) and truth:
            ta = self.ty_of(e[2])
            if ta == "bool":
                return self.cond_constraints(e[2], True) + self.cond_constraints(e[3], True)
        if h == "bin" and e[1] in ("BitOr",) and not truth:
            if self.ty_of(e[2]) == "bool":
                return self.cond_constraints(e[2], False) + self.cond_constraints(e[3], False)
        return []

    def reach_avoid(self, frm, avoid):
        key = (frm, avoid)
        if key not in self._reach:
            self._reach[key] = mir.reachable(self.b, [frm], avoid=(avoid,) if avoid is not None else ())
        return self._reach[key]

    def killed(self, cons, tgt, use_bb, entry=False):
        """is a fact established on the edge into `tgt` possibly stale at `use_bb` (an atom was redefined in between)?"""
        atoms = set()
        for c in cons:
            atoms |= set(c.t)
        from_tgt = self.reach_avoid(tgt, None)
        for a in atoms:
            def_blocks = set()
            for loc in self._locals_of(a):
                for d in self.defs.get(loc, []):
                    def_blocks.add(d[1])
                for (bb, i, st) in self.pdefs.get(loc, []):
                    def_blocks.add(bb)
            if self._mem_of(a):
                def_blocks |= self._mem_writers(self._mem_of(a))
            for d in def_blocks:
                if d not in from_tgt:
                    continue
                if d == use_bb and not entry:
                    return True
                # from the (end of) the defining block to the use without re-entering tgt (i.e. without re-taking the guard)
                for s in mir.succs(self.b, d):
                    if s == tgt:
                        continue
                    if use_bb in self.reach_avoid(s, tgt):
                        return True
        return False

    def _locals_of(self, a):
        out = set()
        if a[0] == "v":
            out.add(a[1])
        elif a[0] in ("x", "len"):
            def rec(x):
                if isinstance(x, tuple):
                    if len(x) >= 2 and x[0] in ("var",) and isinstance(x[1], int):
                        out.add(x[1])
                    for y in x:
                        rec(y)
                elif isinstance(x, str) and x.startswith("_") and x[1:].split(".")[0].isdigit():
                    out.add(int(x[1:].split(".")[0]))
            rec(a[1])
        # only multi-definition locals can go stale
        return {l for l in out if len(self.defs.get(l, [])) + len(self.pdefs.get(l, [])) > 1}

    def _mem_of(self, a):
        if a[0] == "m":
            return a[1]
        if a[0] == "len" and isinstance(a[1], str) and "." in a[1]:
            return a[1]
        if a[0] in ("x", "len"):
            found = []

            def rec(x):
                if isinstance(x, tuple):
                    if len(x) >= 2 and x[0] in ("load", "refplace") and isinstance(x[1], str) and "." in x[1]:
                        found.append(x[1])
                    for y in x:
                        rec(y)
            rec(a[1])
            return found[0] if found else None
        return None

    def _mem_writers(self, path):
        if self.store_blocks is None:
            self.store_blocks = []
            if self.stores is not None:
                for (bb, i, (root, pa), why, node) in self.stores:
                    self.store_blocks.append((bb, mir.path_str(root, pa)))
        out = set()
        for (bb, p) in self.store_blocks:
            if p == path or path.startswith(p) or p.startswith(path):
                out.add(bb)
        return out

    def hyps(self, bb, entry=False):
        """hypotheses valid at the end (entry=True: at the start) of block bb: list of Lin <= 0"""
        if entry:
            if ("entry", bb) in self._hyp:
                return self._hyp[("entry", bb)]
        elif bb in self._hyp:
            return self._hyp[bb]
        out = []
        for s in sorted(self.dom.get(bb, ())):
            t = self.b["blocks"][s]["term"]
            if t["k"] == "switch":
                succs = [(("eq", v), tgt) for v, tgt in t["arms"]] + [(("ne", [v for v, _ in t["arms"]]), t["otherwise"])]
                for taken, tgt in succs:
                    if tgt == s or not ((tgt in self.dom[bb]) or tgt == bb):
                        continue
                    if set(self.preds[tgt]) != {s} or sum(1 for _, t2 in succs if t2 == tgt) != 1:
                        continue
                    d = sym.expr(self.b, t["discr"])
                    cons = []
                    dty = t.get("discr_ty")
                    if dty == "bool":
                        tr = (taken[1] != "0") if taken[0] == "eq" else (True if taken[1] == ["0"] else None)
                        if tr is not None:
                            cons = self.cond_constraints(d, tr)
                    elif self.rng(dty):
                        li = self.lin(d)
                        if taken[0] == "eq":
                            v = int(taken[1])
                            r = self.rng(dty)
                            if r[0] < 0 and v > r[1]:
                                v -= (r[1] - r[0] + 1)
                            cons = [li - Lin(v), Lin(v) - li]
                    if cons and not self.killed(cons, tgt, bb, entry):
                        out += cons
            elif t["k"] == "assert" and s != bb:
                tgt = t["target"]
                if (tgt in self.dom[bb] or tgt == bb) and set(self.preds[tgt]) == {s}:
                    c = sym.expr(self.b, t["cond"])
                    cons = self.cond_constraints(c, bool(t["expected"]))
                    if cons and not self.killed(cons, tgt, bb, entry):
                        out += cons
        self._hyp[("entry", bb) if entry else bb] = out
        return out

    # ---- caller-established parameter facts ---------------------------------------------------------
    def apply_param_facts(self):
        if self._pf_done or self.u is None:
            return
        self._pf_done = True
        fn = self.b.get("path")
        if fn is None:
            return
        for (kind, k, val) in param_facts(self.u, fn):
            if kind not in ("env_len_ge1", "env_hi") and (self.defs.get(k) or self.pdefs.get(k)):
                continue                  # the parameter is reassigned in the body
            if kind == "hi":
                r = self.rng(self.b["locals"][k]["ty"])
                if r:
                    self.atom(("v", k), r[0], val)
            elif kind == "lo":
                r = self.rng(self.b["locals"][k]["ty"])
                if r:
                    self.atom(("v", k), val, r[1])
            elif kind == "len_ge1":
                self.extra.append(Lin(1) - self.atom(("len", val), 0, LEN_MAX))
            elif kind == "env_hi":
                # by-reference capture read through `*env.k` (load `arg1.k.*`), by-value capture read as `env.k`: see lin()
                self._env_hi = getattr(self, "_env_hi", {})
                self._env_hi[k] = val
            elif kind == "env_len_ge1":
                env = sym.expr_local(self.b, 1)
                for key in (self.len_key(("proj", env, str(k))), ("len", "arg1.%d" % k)):
                    self.extra.append(Lin(1) - self.atom(key, 0, LEN_MAX))
            elif kind == "le_param":
                if not (self.defs.get(val) or self.pdefs.get(val)):
                    r1, r2 = self.rng(self.b["locals"][k]["ty"]), self.rng(self.b["locals"][val]["ty"])
                    if r1 and r2:
                        self.extra.append(self.atom(("v", k), r1[0], r1[1]) - self.atom(("v", val), r2[0], r2[1]))
            elif kind == "lt_len":
                self.extra.append(self.atom(("v", k), 0, None) - self.atom(("len", val), 0, LEN_MAX) + Lin(1))
            elif kind == "le_len":
                self.extra.append(self.atom(("v", k), 0, None) - self.atom(("len", val), 0, LEN_MAX))

    # ---- loop-header invariants -------------------------------------------------------------------
    def natural_loops(self):
        if "_loops" in self.__dict__:
            return self._loops
        by_h = {}
        for blk in self.b["blocks"]:
            i = blk["i"]
            if blk["cleanup"] or i not in self.dom:
                continue
            for s_ in mir.succs(self.b, i):
                if s_ in self.dom[i]:
                    by_h.setdefault(s_, []).append(i)
        out = []
        for h, latches in by_h.items():
            blocks = {h}
            work = list(latches)
            while work:
                x = work.pop()
                if x in blocks:
                    continue
                blocks.add(x)
                work.extend(self.preds[x])
            out.append((h, latches, blocks))
        self._loops = out
        return out

    def header_facts(self, bb):
        """single-variable bounds that hold at the header of a loop containing bb: provable at the end of every latch from
        the guards dominating the latch, and satisfied by every definition of the variable outside the loop; returned only
        if the variable is not redefined between the header and bb"""
        out = []
        cache = self.__dict__.setdefault("_hf", {})
        for (h, latches, blocks) in self.natural_loops():
            if bb not in blocks:
                continue
            if h not in cache:
                cache[h] = None
                facts = []
                cands = {}
                for la in latches:
                    for c in self.hyps(la):
                        if len(c.t) == 1:
                            (a, coef), = c.t.items()
                            if a[0] == "v" and any(d[1] in blocks for d in self.defs.get(a[1], [])):
                                cands.setdefault((a, coef > 0), []).append(c)
                for (a, upper), cs in cands.items():
                    # weakest bound over the latches; every latch must give one
                    per_latch = []
                    for la in latches:
                        bs = [c for c in self.hyps(la) if set(c.t) == {a} and (c.t[a] > 0) == upper]
                        if not bs:
                            per_latch = None
                            break
                        # bound value: coef*v + const <= 0  =>  v <= -const/coef (upper) or v >= -const/coef (lower)
                        per_latch.append(min(bs, key=lambda c: Fraction(-c.c, c.t[a]) if upper else -Fraction(-c.c, c.t[a])))
                    if not per_latch:
                        continue
                    weakest = max(per_latch, key=lambda c: Fraction(-c.c, c.t[a]) if upper else -Fraction(-c.c, c.t[a]))
                    fact = Lin(weakest.c, {a: weakest.t[a]})
                    l = a[1]
                    ok = True
                    for d in self.defs.get(l, []):
                        if d[1] in blocks:
                            continue
                        e = sym.expr_def(self.b, d, stop=(l,))
                        g = self.lin(e).scale(weakest.t[a]) + Lin(weakest.c)
                        okk, _h = self.prove_le0(g, d[1], 2, entry=(d[0] == "stmt"))
                        if not okk:
                            ok = False
                            break
                    if ok and not self.pdefs.get(l) and not (1 <= l <= self.b["argc"]):
                        facts.append(fact)
                cache[h] = facts
            for f in (cache[h] or []):
                if not self.killed([f], h, bb, entry=True):
                    out.append(f)
        return out

    # ---- proving -------------------------------------------------------------------------------
    def prove_le0(self, goal, bb, _depth=0, entry=False):
        """goal: Lin; prove goal <= 0 at the end (entry=True: start) of block bb"""
        lo, hi = self.bounds(goal)
        if hi is not None and hi <= 0:
            return True, "interval"
        self.apply_param_facts()
        cons = list(self.hyps(bb, entry)) + list(self.extra)
        if _depth < 2:
            cons += self.header_facts(bb)
        for (ibb, fact) in self.__dict__.get("_cfacts", []):
            if ibb in self.dom.get(bb, ()) :
                cons.append(fact)
        neg = goal.scale(-1) + Lin(1)        # goal >= 1
        atoms = set(neg.t)
        # relevant constraints: transitive closure over shared atoms
        rel, changed = [], True
        pool = list(cons)
        while changed:
            changed = False
            for c in list(pool):
                if set(c.t) & atoms or not c.t:
                    rel.append(c)
                    pool.remove(c)
                    new = set(c.t) - atoms
                    if new:
                        atoms |= new
                        changed = True
        sysm = [neg] + rel
        for a in atoms:
            lo_, hi_ = self.atoms.get(a, (None, None))
            if lo_ is not None:
                sysm.append(Lin(lo_, {a: -1}))
            if hi_ is not None:
                sysm.append(Lin(-hi_, {a: 1}))
        if fm_infeasible(sysm):
            # guard against vacuous proofs: the hypotheses themselves must be satisfiable (an inconsistent hypothesis set would
            # "prove" anything; it indicates conflated values or an unreachable site - neither is accepted as a discharge)
            if rel and fm_infeasible(sysm[1:]):
                return False, "inconsistent hypotheses"
            return True, "guards(%d)" % len(rel)
        if _depth < 2:
            ok = self.case_split(goal, bb, _depth)
            if ok:
                return True, "case split over the definitions of a local"
        return False, "open"

    def case_split(self, goal, bb, _depth):
        """a multi-definition local (a `phi`): prove the goal for each of its definitions separately, using the facts that
        hold where that definition is made (restricted to atoms that never change) in addition to the facts at bb"""
        for a in list(goal.t):
            if a[0] == "x" and a in self.__dict__.get("_oexpr", {}):
                e = self._oexpr[a]
                if e[0] == "call" and len(e[2]) == 2 and e[1].split("::")[-1] in ("min", "max") and ("Ord" in e[1] or "core::cmp" in e[1] or "std::cmp" in e[1]):
                    allok = True
                    for alt in e[2]:
                        li = self.lin(alt)
                        if a in li.t:
                            allok = False
                            break
                        g2 = Lin(goal.c, {k: v for k, v in goal.t.items() if k != a}) + li.scale(goal.t[a])
                        # in this case the other operand is on the far side of the chosen one
                        oth = self.lin(e[2][1] if alt is e[2][0] else e[2][0])
                        fact = (li - oth) if e[1].split("::")[-1] == "min" else (oth - li)
                        self.extra.append(fact)
                        try:
                            ok, _h = self.prove_le0(g2, bb, _depth + 1)
                        finally:
                            self.extra.pop()
                        if not ok:
                            allok = False
                            break
                    if allok:
                        return True
                continue
            if a[0] != "v":
                continue
            l = a[1]
            ds = self.defs.get(l, [])
            if not (2 <= len(ds) <= 5) or self.pdefs.get(l) or 1 <= l <= self.b["argc"]:
                continue
            if any(d[0] not in ("stmt", "call") for d in ds):
                continue
            exprs = [(d, sym.expr_def(self.b, d, stop=(l,))) for d in ds]
            if any(any(isinstance(t, tuple) and t[:2] == ("var", l) for t in sym.walk(e)) for _, e in exprs):
                continue       # self-referential (a counter): handled by counter facts
            if not all(d[1] in self.dom.get(bb, ()) or True for d, _ in exprs):
                continue
            allok = True
            for d, e in exprs:
                li = self.lin(e)
                g2 = Lin(goal.c, {k: v for k, v in goal.t.items() if k != a}) + li.scale(goal.t[a])
                extra_h = [c for c in self.hyps(d[1]) if not any(self._locals_of(x) or self._mem_of(x) for x in c.t)]
                saved = self._hyp.get(bb)
                self._hyp[bb] = list(self.hyps(bb)) + extra_h
                try:
                    ok, _h = self.prove_le0(g2, bb, _depth + 1)
                finally:
                    self._hyp[bb] = saved if saved is not None else self._hyp[bb]
                    if saved is None:
                        self._hyp.pop(bb, None)
                if not ok:
                    allok = False
                    break
            if allok:
                return True
        return False


_RET = {}
_FLD = {}
_PC = {}


def postconditions(u, fn):
    """relational facts that hold at every success exit of local function fn, as (components, [(term, coef)], const)
    meaning sum(coef*term) + const <= 0 with terms ('ret', path) / ('param', k) / ('lenparam', k) (k = 0-based argument index)"""
    if fn in _PC:
        return _PC[fn]
    _PC[fn] = []
    from . import flow
    b = u.bodies[fn]
    cx = Ctx(b, u)
    exits = [e for e in flow.exits(b) if e["kind"] in ("ok",)]
    rty = b["locals"][0]["ty"]
    comps_per_exit = []
    if exits:
        for ex in exits:
            v = sym.expr_rv(b, ex["node"]["rv"])
            if v[0] != "agg" or not v[3]:
                return []
            payload = v[3][0]
            comps = {}
            if payload[0] == "agg" and payload[1] == "tuple":
                for i, c in enumerate(payload[3]):
                    comps[(str(i),)] = c
            else:
                comps[()] = payload
            comps_per_exit.append((ex["bb"], comps))
    elif rty in INT_RANGE:
        for d in mir.defs(b).get(0, []):
            if d[0] != "stmt":
                return []
            comps_per_exit.append((d[1], {(): sym.expr_rv(b, d[3]["rv"])}))
    else:
        return []
    if not comps_per_exit:
        return []
    paths = set(comps_per_exit[0][1])
    if any(set(c) != paths for _, c in comps_per_exit):
        return []
    # integer components only
    ints = []
    for pth in sorted(paths):
        if all(cx.rng(cx.ty_of(c[pth])) is not None for _, c in comps_per_exit):
            ints.append(pth)
    int_params = [k for k in range(b["argc"]) if b["locals"][k + 1]["ty"] in INT_RANGE]
    slice_params = [k for k in range(b["argc"]) if b["locals"][k + 1]["ty"].replace("'_ ", "") in ("&[u8]", "&str", "&std::vec::Vec<u8>") or b["locals"][k + 1]["ty"].endswith("[u8]")]
    cands = []
    for pth in ints:
        for k in int_params:
            cands.append(((pth,), [(("param", k), 1), (("ret", pth), -1)], 0))     # ret >= param
            cands.append(((pth,), [(("ret", pth), 1), (("param", k), -1)], 0))     # ret <= param
        for k in slice_params:
            cands.append(((pth,), [(("ret", pth), 1), (("lenparam", k), -1)], 0))  # ret <= len
            cands.append(((pth,), [(("ret", pth), 1), (("lenparam", k), -1)], 1))  # ret < len
        cands.append(((pth,), [(("ret", pth), -1)], 1))                            # ret >= 1
    for i, p1 in enumerate(ints):
        for p2 in ints[i + 1:]:
            for k in slice_params:
                cands.append(((p1, p2), [(("ret", p1), 1), (("ret", p2), 1), (("lenparam", k), -1)], 0))   # r1 + r2 <= len
    out = []
    for (cps, terms, const) in cands:
        ok = True
        for (bb, comps) in comps_per_exit:
            li = Lin(const)
            for (t, c) in terms:
                if t[0] == "ret":
                    li = li + cx.lin(comps[t[1]]).scale(c)
                elif t[0] == "param":
                    li = li + cx.lin(("arg", t[1] + 1, "p")).scale(c)
                else:
                    li = li + cx.atom(("len", "arg%d" % (t[1] + 1)), 0, LEN_MAX).scale(c)
            good, _h = cx.prove_le0(li, bb)
            if not good:
                ok = False
                break
        if ok:
            out.append((cps, terms, const))
    # constant intervals of components
    for pth in ints:
        lo = hi = None
        for (bb, comps) in comps_per_exit:
            iv = cx.interval(comps[pth]) or cx.rng(cx.ty_of(comps[pth]))
            lo = iv[0] if lo is None else min(lo, iv[0])
            hi = iv[1] if hi is None else max(hi, iv[1])
        r = cx.rng(cx.ty_of(comps_per_exit[0][1][pth]))
        if r and (lo > r[0] or hi < r[1]):
            if hi < r[1]:
                out.append(((pth,), [(("ret", pth), 1)], -hi))
            if lo > r[0]:
                out.append(((pth,), [(("ret", pth), -1)], lo))
    _PC[fn] = out
    return out


_PF = {}
_WIDTH = {}


def _call_sites(u, fn):
    """direct calls of local function/closure fn: [(caller key, caller body, bb, [arg exprs by callee local index - 1])], or
    None if fn escapes as a value somewhere other than a call's callee or (for closures) its construction"""
    sites = []
    isclo = u.bodies[fn].get("kind") == "Closure"
    for p, b in u.bodies.items():
        if b["in_test_cfg"]:
            continue
        for bb, t, name, info in mir.calls(b):
            if name != fn:
                # fn used as a value argument (fn item passed to map etc.) / closure handed to someone else
                for a in t["args"]:
                    if a.get("k") == "const" and (a.get("callee") or {}).get("resolved") == fn:
                        return None
                    if isclo and b["path"] == u.bodies[fn].get("parent"):
                        for x in sym.walk(sym.expr(b, a)):
                            if isinstance(x, tuple) and x and x[0] == "agg" and str(x[1]) == "closure " + mir.norm(fn):
                                return None
                continue
            args = [sym.expr(b, a) for a in t["args"]]
            if isclo:
                if len(args) != 2 or not (args[1][0] == "agg" and args[1][1] == "tuple"):
                    return None
                args = [args[0]] + list(args[1][3])
            sites.append((p, b, bb, args))
    return sites


def _closure_env_facts(u, fn, cxs):
    """captured slices/Vecs that are non-empty where the closure is created (captures are borrowed or moved at that point,
    so their length is what the closure sees whenever it runs): [('env_len_ge1', capture index, None)]"""
    b = u.bodies[fn]
    parent = b.get("parent")
    pb = u.bodies.get(parent)
    if pb is None:
        for k2, v2 in u.bodies.items():
            if mir.norm(k2) == mir.norm(parent or ""):
                parent, pb = k2, v2
    if pb is None:
        return []
    made = []
    for blk in pb["blocks"]:
        for st in blk["stmts"]:
            if st["k"] == "assign" and st["rv"]["k"] == "aggregate" and st["rv"].get("agg") == "closure" and st["rv"].get("closure") == fn:
                made.append((blk["i"], st["rv"]["ops"]))
    if len(made) != 1:
        return []
    bb, ops = made[0]
    cx = cxs.setdefault(parent, Ctx(pb, u))
    exprs = []
    for op in ops:
        e = sym.expr(pb, op)
        while e[0] == "ref":
            e = e[1]
        exprs.append(e)
    for e in exprs:
        if cx.rng(cx.ty_of(e)):
            cx.lin(e)                 # introduces the facts known about captured integers (e.g. an enumerate index)
    out = []
    for k, (op, e) in enumerate(zip(ops, exprs)):
        ty = (op.get("place") or {}).get("ty", "") if op.get("k") in ("copy", "move") else ""
        ity = ty.replace("&mut ", "").replace("&", "").strip()
        if ity in INT_RANGE and not ty.startswith("&mut"):
            # a captured integer whose value is bounded where the closure is created (shared borrow / copy: it cannot change afterwards)
            li = cx.lin(e)
            for bound in (LEN_MAX,):
                good, _h = cx.prove_le0(li - Lin(bound), bb)
                if good:
                    out.append(("env_hi", k, bound))
                    break
        if "[" in ty or "Vec<" in ty or ty.endswith("str"):
            key = cx.len_key(e)
            good, _h = cx.prove_le0(Lin(1) - cx.atom(key, 0, LEN_MAX), bb)
            if good:
                out.append(("env_len_ge1", k, None))
    return out


ITEM_CONSUMERS = {"any", "all", "map", "for_each", "find", "position", "filter_map", "find_map", "take_while", "skip_while", "inspect", "flat_map", "filter"}


def _adaptor_item_facts(u, fn):
    """a closure handed to an iterator method whose receiver is `it.filter(|x| !x.is_empty())` only ever sees non-empty items
    (std: Filter yields exactly the items for which the predicate returned true): [('len_ge1', 2, 'arg2')]"""
    b = u.bodies[fn]
    if b["argc"] != 2:
        return []
    parent = b.get("parent")
    pb = u.bodies.get(parent)
    if pb is None:
        for k2, v2 in u.bodies.items():
            if mir.norm(k2) == mir.norm(parent or ""):
                parent, pb = k2, v2
    if pb is None:
        return []
    me = "closure " + fn
    uses = []
    for bb, t, name, info in mir.calls(pb):
        if not name:
            continue
        args = [sym.expr(pb, a) for a in t["args"]]
        if any(a[0] == "agg" and mir.norm(str(a[1])) == mir.norm(me) for a in args):
            uses.append((name, args))
    if len(uses) != 1:
        return []
    name, args = uses[0]
    nn = mir.norm(name)
    if nn in ("std::option::Option::map", "std::option::Option::and_then", "std::option::Option::is_some_and", "std::option::Option::filter", "std::option::Option::map_or") \
            and b["locals"][2]["ty"] in INT_RANGE and args[0][0] in ("call", "proj"):
        # the closure sees exactly the `Some` payload of the receiver (std contract of these Option adaptors)
        payload = ("proj", ("proj", args[0], "as Some"), "0")
        try:
            iv = Ctx(pb, u).interval(payload)
        except Exception:
            iv = None
        if iv is not None and iv[0] is not None and iv[1] is not None:
            return [("lo", 2, iv[0]), ("hi", 2, iv[1])]
        return []
    if not (mir.norm(name).startswith("std::iter::Iterator::") and mir.norm(name).split("::")[-1] in ITEM_CONSUMERS and len(args) == 2):
        return []
    recv = args[0]
    while recv[0] == "ref" or (recv[0] == "call" and recv[1].split("::")[-1] in ("into_iter", "by_ref") and recv[2]):
        recv = recv[1] if recv[0] == "ref" else recv[2][0]
    if not (recv[0] == "call" and recv[1] == "std::iter::Iterator::filter" and len(recv[2]) == 2 and recv[2][1][0] == "agg" and str(recv[2][1][1]).startswith("closure ")):
        return []
    pn = str(recv[2][1][1])[len("closure "):]
    cands = [k for k in u.bodies if mir.norm(k) == mir.norm(pn)]
    if len(cands) != 1:
        return []
    r = sym.expr_local(u.bodies[cands[0]], 0)
    if r[0] == "un" and r[1] == "Not" and r[2][0] == "call" and r[2][1] in ("core::slice::is_empty", "std::vec::Vec::is_empty") and len(r[2][2]) == 1:
        a = r[2][2][0]
        while a[0] in ("ref",):
            a = a[1]
        if a[0] in ("load", "arg", "refplace") and str(a[1] if a[0] != "arg" else "arg%d" % a[1]).startswith("arg2"):
            # the consumer's closure receives the item itself (`any`, `map`, ..) or a reference to it (`filter`, `inspect`, ..): same length
            return [("len_ge1", 2, "arg2")]
    return []


def param_facts(u, fn):
    """facts about the parameters of a non-public function or closure that hold at every direct call site (L-PRE): list of
    ('hi'|'lo', local, bound) | ('len_ge1', local, callee-side length key) | ('le_len', local, callee-side length key)"""
    if fn in _PF:
        return _PF[fn]
    _PF[fn] = []
    b = u.bodies[fn]
    if b.get("reachable_pub"):
        return []
    isclo = b.get("kind") == "Closure"
    sites = _call_sites(u, fn)
    if sites is None and isclo:
        _PF[fn] = _closure_env_facts(u, fn, {}) + _adaptor_item_facts(u, fn)
        return _PF[fn]
    if sites is None or (not sites and not isclo):
        return []
    out = []
    cxs = {}
    if isclo:
        out += _closure_env_facts(u, fn, cxs)
        if not sites:
            _PF[fn] = out
            return out
    for k in range(1, b["argc"] + 1):
        ty = b["locals"][k]["ty"]
        if ty in INT_RANGE:
            lo = hi = None
            for (p, cb, bb, args) in sites:
                if k - 1 >= len(args):
                    lo = hi = None
                    break
                cx = cxs.setdefault(p, Ctx(cb, u))
                li = cx.lin(args[k - 1])
                l_, h_ = cx.bounds(li)
                iv = cx.interval(args[k - 1])
                if iv:
                    l_ = iv[0] if l_ is None else max(l_, iv[0])
                    h_ = iv[1] if h_ is None else min(h_, iv[1])
                if l_ is None or h_ is None:
                    lo = hi = None
                    break
                lo = l_ if lo is None else min(lo, l_)
                hi = h_ if hi is None else max(hi, h_)
            if hi is not None:
                out.append(("hi", k, hi))
                out.append(("lo", k, lo))
            # integer parameters ordered at every call site: param_j <= param_k
            for j in range(1, b["argc"] + 1):
                if j == k or b["locals"][j]["ty"] != ty:
                    continue
                ok = True
                for (p, cb, bb, args) in sites:
                    if max(j, k) - 1 >= len(args):
                        ok = False
                        break
                    cx = cxs.setdefault(p, Ctx(cb, u))
                    good, _h = cx.prove_le0(cx.lin(args[j - 1]) - cx.lin(args[k - 1]), bb)
                    if not good:
                        ok = False
                        break
                if ok:
                    out.append(("le_param", j, k))
        elif ty.startswith("&") and not ty.startswith("&mut") and (ty.replace("'_ ", "").lstrip("&").startswith("[") or ty.replace("'_ ", "").lstrip("&").startswith("std::vec::Vec<") or ty.replace("'_ ", "").lstrip("&") == "str"):
            ok = True
            for (p, cb, bb, args) in sites:
                cx = cxs.setdefault(p, Ctx(cb, u))
                key = cx.len_key(args[k - 1])
                cx.len_facts(args[k - 1], key)
                good, _h = cx.prove_le0(Lin(1) - cx.atom(key, 0, LEN_MAX), bb)
                if not good:
                    ok = False
                    break
            if ok:
                out.append(("len_ge1", k, "arg%d" % k))
            # integer parameters bounded by this slice's length
            for j in range(1, b["argc"] + 1):
                if b["locals"][j]["ty"] != "usize":
                    continue
                ok = True
                for (p, cb, bb, args) in sites:
                    cx = cxs.setdefault(p, Ctx(cb, u))
                    key = cx.len_key(args[k - 1])
                    cx.len_facts(args[k - 1], key)
                    good, _h = cx.prove_le0(cx.lin(args[j - 1]) - cx.atom(key, 0, LEN_MAX), bb)
                    if not good:
                        ok = False
                        break
                if ok:
                    out.append(("le_len", j, "arg%d" % k))
                    # strictly inside: a valid element index at every call site
                    ok2 = True
                    for (p, cb, bb, args) in sites:
                        cx = cxs.setdefault(p, Ctx(cb, u))
                        key = cx.len_key(args[k - 1])
                        good, _h = cx.prove_le0(cx.lin(args[j - 1]) - cx.atom(key, 0, LEN_MAX) + Lin(1), bb)
                        if not good:
                            ok2 = False
                            break
                    if ok2:
                        out.append(("lt_len", j, "arg%d" % k))
    _PF[fn] = out
    return out


_ACCUM = {}


def accum_helper_summary(u, fn):
    """(accumulator param index, collection param index) if fn(acc, &[T]) returns Ok(acc + sum of len(x.<buf>) over the
    collection) through checked additions; None otherwise"""
    if fn in _ACCUM:
        return _ACCUM[fn]
    _ACCUM[fn] = None
    from . import flow
    b = u.bodies[fn]
    if b["argc"] != 2:
        return None
    cx = Ctx(b, u)
    exits = [e for e in flow.exits(b) if e["kind"] == "ok"]
    if not exits:
        return None
    vals = set()
    for ex in exits:
        v = sym.expr_rv(b, ex["node"]["rv"])
        if v[0] != "agg" or len(v[3]) != 1 or v[3][0][0] != "var":
            return None
        vals.add(v[3][0][1])
    if len(vals) != 1:
        return None
    l = vals.pop()
    ds = cx.defs.get(l, [])
    if cx.pdefs.get(l) or len(ds) < 2:
        return None
    acc = coll = fld = None
    for d in ds:
        if d[0] != "stmt":
            return None
        e = sym.expr_rv(b, d[3]["rv"], stop=(l,))
        if e[0] == "arg" and b["locals"][e[1]]["ty"] in INT_RANGE:
            acc = e[1] - 1
            continue
        if cx.length_accumulation(e, l, d[1]):
            for y in sym.walk(e):
                if isinstance(y, tuple) and len(y) > 1 and y[0] in ("load", "refplace") and isinstance(y[1], str) and ".[]." in y[1] and y[1].startswith("arg"):
                    k = y[1].split(".")[0][3:]
                    if k.isdigit():
                        coll = int(k) - 1
                        fld = y[1].split(".[].")[1]
            continue
        return None
    if acc is None or coll is None or acc == coll:
        return None
    _ACCUM[fn] = (acc, coll, fld)
    return _ACCUM[fn]


_BITACC = {}


def bitacc_summary(u, fn):
    """L-READBITS: if fn returns Some(v)/Ok(v)/v where v starts at 0 and is only ever updated by `v = (v << 1) | bit` (bit in
    {0,1}) once per iteration of a `for _ in 0..<param k>` loop, the result is < 2^(param k): returns k (0-based), else None"""
    if fn in _BITACC:
        return _BITACC[fn]
    _BITACC[fn] = None
    from . import flow
    b = u.bodies[fn]
    cx = Ctx(b, u)
    exits = [e for e in flow.exits(b) if e["kind"] == "ok"]
    vals = set()
    for ex in exits:
        v = sym.expr_rv(b, ex["node"]["rv"])
        if v[0] != "agg" or len(v[3]) != 1 or v[3][0][0] != "var":
            return None
        vals.add(v[3][0][1])
    if len(vals) != 1:
        return None
    l = vals.pop()
    ds = cx.defs.get(l, [])
    if cx.pdefs.get(l) or len(ds) != 2:
        return None
    step = None
    for d in ds:
        if d[0] != "stmt":
            return None
        e = sym.expr_rv(b, d[3]["rv"], stop=(l,))
        if e[0] == "const" and e[1] == 0:
            continue
        if e[0] == "bin" and e[1] == "BitOr" and e[2][0] == "bin" and e[2][1] == "Shl" and e[2][2][:2] == ("var", l) and e[2][3][0] == "const" and e[2][3][1] == 1:
            iv = cx.interval(e[3])
            if iv is not None and iv[0] >= 0 and iv[1] <= 1:
                step = d
                continue
        return None
    if step is None:
        return None
    inner = None
    for (h, latches, blocks) in cx.natural_loops():
        if step[1] in blocks and (inner is None or len(blocks) < len(inner)):
            inner = blocks
    if inner is None:
        return None
    for bb in sorted(inner):
        t = b["blocks"][bb]["term"]
        if t["k"] != "call":
            continue
        name, info = mir.callee(t)
        if not (name or "").endswith("::next") or not t["args"]:
            continue
        if any(bb in bl and len(bl) < len(inner) for (_h, _l, bl) in cx.natural_loops()):
            continue
        cur = sym.expr(b, t["args"][0])
        while cur[0] == "ref" or (cur[0] == "call" and cur[1].split("::")[-1] == "into_iter" and cur[2]):
            cur = cur[1] if cur[0] == "ref" else cur[2][0]
        if cur[0] == "agg" and str(cur[1]).endswith("ops::Range::Range") and len(cur[3]) == 2 and cur[3][0][0] == "const" and cur[3][0][1] == 0 and cur[3][1][0] == "arg":
            _BITACC[fn] = cur[3][1][1] - 1
            return _BITACC[fn]
    return None


def ret_interval(u, fn, depth=0):
    """interval of the integer value returned by local function fn (union over all definitions of _0)"""
    if fn in _RET:
        return _RET[fn]
    _RET[fn] = None        # recursion guard
    b = u.bodies[fn]
    ty = b["locals"][0]["ty"]
    r = INT_RANGE.get(ty)
    if r is None or depth > 4:
        return None
    cx = Ctx(b, u)
    lo, hi = None, None
    ds = mir.defs(b).get(0, [])
    if not ds:
        return None
    for d in ds:
        if d[0] == "stmt":
            iv = cx.interval(sym.expr_rv(b, d[3]["rv"]))
        else:
            name, info = mir.callee(d[2])
            iv = ret_interval(u, name, depth + 1) if name in u.bodies else cx.interval(sym.expr_def(b, d))
        if iv is None:
            iv = r
        lo = iv[0] if lo is None else min(lo, iv[0])
        hi = iv[1] if hi is None else max(hi, iv[1])
    out = (max(lo, r[0]), min(hi, r[1]))
    _RET[fn] = out
    return out


def struct_field_interval(u, field, ty=None):
    """union of the intervals of `field` over every aggregate construction of a struct having that field in non-test bodies;
    None if some construction gives no interval or the field is stored to directly somewhere"""
    if field in _FLD:
        return _FLD[field]
    _FLD[field] = None
    lo = hi = None
    n = 0
    for p, b in u.bodies.items():
        if b["in_test_cfg"]:
            continue
        cx = None
        for blk in b["blocks"]:
            for st in blk["stmts"]:
                if st["k"] != "assign":
                    continue
                rv = st["rv"]
                if rv["k"] == "aggregate" and rv.get("agg") == "adt" and field in rv.get("fields", []):
                    if cx is None:
                        cx = Ctx(b, u)
                    e = sym.expr(b, dict(zip(rv["fields"], rv["ops"]))[field])
                    if _same_field_copy(e, field):
                        continue          # copies the same field of another instance (Clone, struct update): inductive
                    iv = cx.interval(e)
                    if iv is None:
                        return None
                    n += 1
                    lo = iv[0] if lo is None else min(lo, iv[0])
                    hi = iv[1] if hi is None else max(hi, iv[1])
                # direct stores to a field of that name anywhere: give up
                pl = st["place"]
                if pl["p"] and pl["p"][-1]["k"] == "field" and pl["p"][-1].get("name") == field:
                    return None
    if n == 0:
        return None
    _FLD[field] = (lo, hi)
    return (lo, hi)


def _same_field_copy(e, field):
    x = e
    while True:
        if x[0] == "ref":
            x = x[1]
        elif x[0] == "call" and x[1].split("::")[-1] in ("clone", "deref", "borrow", "as_ref") and len(x[2]) == 1:
            x = x[2][0]
        else:
            break
    if x[0] in ("load", "refplace") and isinstance(x[1], str):
        return x[1].split(".")[-1] == field
    if x[0] == "proj":
        return x[2] == field
    return False


class NoEval(Exception):
    pass


def wrap_int(v, ty):
    r = INT_RANGE.get((ty or "").lstrip("&"))
    if r is None:
        raise NoEval("type " + str(ty))
    span = r[1] - r[0] + 1
    return (v - r[0]) % span + r[0]


def eval_expr(e, env):
    """exact integer value of a sym expression; env maps frozen sub-expressions to values"""
    k = L_freeze(e)
    if k in env:
        return env[k]
    h = e[0]
    if h == "const" and isinstance(e[1], (int, bool)):
        return int(e[1])
    if h == "cast" and e[1] == "IntToInt":
        return wrap_int(eval_expr(e[4], env), e[3])
    if h == "proj" and e[2] == "0" and e[1][0] == "bin" and e[1][1].endswith("WithOverflow"):
        return eval_expr(("bin", e[1][1][:-len("WithOverflow")], e[1][2], e[1][3]), env)
    if h == "call" and e[1] == "std::convert::num::from" and e[2]:
        return eval_expr(e[2][0], env)
    if h == "bin":
        a, b = eval_expr(e[2], env), eval_expr(e[3], env)
        op = e[1]
        if op == "Add":
            return a + b
        if op == "Sub":
            return a - b
        if op == "Mul":
            return a * b
        if op in ("Div", "Rem"):
            if b == 0:
                raise NoEval("division by zero")
            q = abs(a) // abs(b) * (1 if (a >= 0) == (b >= 0) else -1)
            return q if op == "Div" else a - q * b
        if op == "BitAnd":
            return a & b
        if op == "BitOr":
            return a | b
        if op == "BitXor":
            return a ^ b
        if op == "Shl":
            return a << b
        if op == "Shr":
            return a >> b
        if op in ("Eq", "Ne", "Lt", "Le", "Gt", "Ge"):
            return int({"Eq": a == b, "Ne": a != b, "Lt": a < b, "Le": a <= b, "Gt": a > b, "Ge": a >= b}[op])
    raise NoEval(str(h))


def compile_expr(e, leaves):
    """python function f(v0, v1, ..) computing the exact integer value of sym expression e; leaves: list of frozen
    sub-expressions bound to the arguments.  Shared sub-expressions are computed once."""
    lines = []
    names = {}
    idx = {k: i for i, k in enumerate(leaves)}

    def rec(x):
        k = L_freeze(x)
        if k in names:
            return names[k]
        if k in idx:
            names[k] = "v%d" % idx[k]
            return names[k]
        h = x[0]
        if h == "const" and isinstance(x[1], (int, bool)):
            src = repr(int(x[1]))
        elif h == "cast" and x[1] == "IntToInt":
            r = INT_RANGE.get((x[3] or "").lstrip("&"))
            if r is None:
                raise NoEval("cast to " + str(x[3]))
            src = "((%s - %d) %% %d + %d)" % (rec(x[4]), r[0], r[1] - r[0] + 1, r[0])
        elif h == "proj" and x[2] == "0" and x[1][0] == "bin" and x[1][1].endswith("WithOverflow"):
            return rec(("bin", x[1][1][:-len("WithOverflow")], x[1][2], x[1][3]))
        elif h == "call" and x[1] == "std::convert::num::from" and x[2]:
            return rec(x[2][0])
        elif h == "ite":
            src = "(%s if %s else %s)" % (rec(x[2]), rec(x[1]), rec(x[3]))
        elif h == "bin":
            a, b = rec(x[2]), rec(x[3])
            op = x[1]
            py = {"Add": "+", "Sub": "-", "Mul": "*", "BitAnd": "&", "BitOr": "|", "BitXor": "^", "Shl": "<<", "Shr": ">>"}.get(op)
            if py:
                src = "(%s %s %s)" % (a, py, b)
            elif op == "Div":
                src = "_div(%s, %s)" % (a, b)
            elif op == "Rem":
                src = "_rem(%s, %s)" % (a, b)
            elif op in ("Eq", "Ne", "Lt", "Le", "Gt", "Ge"):
                src = "int(%s %s %s)" % (a, {"Eq": "==", "Ne": "!=", "Lt": "<", "Le": "<=", "Gt": ">", "Ge": ">="}[op], b)
            else:
                raise NoEval(op)
        else:
            raise NoEval(str(h))
        n = "t%d" % len(lines)
        lines.append("    %s = %s" % (n, src))
        names[k] = n
        return n
    res = rec(e)
    code = "def f(%s):\n%s\n    return %s\n" % (", ".join("v%d" % i for i in range(len(leaves))), "\n".join(lines) or "    pass", res)

    def _div(a, b):
        if b == 0:
            raise NoEval("division by zero")
        q = abs(a) // abs(b)
        return q if (a >= 0) == (b >= 0) else -q

    def _rem(a, b):
        return a - _div(a, b) * b
    ns = {"_div": _div, "_rem": _rem}
    exec(code, ns)
    return ns["f"]


def resolve_ites(cx, e, depth=0):
    """replace two-definition locals (if/else joins) by ('ite', cond, then, else) using the switch that separates the definitions"""
    from . import guards as G
    if depth > 30 or not isinstance(e, tuple):
        return e
    if e[:1] == ("var",) and isinstance(e[1], int):
        ds = cx.defs.get(e[1], [])
        if len(ds) == 2 and all(d[0] == "stmt" for d in ds) and not cx.pdefs.get(e[1]):
            g1, g2 = G.guards_of(cx.b, ds[0][1]), G.guards_of(cx.b, ds[1][1])
            if g1 and g2 and g1[-1][0] == g2[-1][0]:
                t1, t2 = G.truth(g1[-1][2]), G.truth(g2[-1][2])
                if t1 is not None and t2 is not None and t1 != t2:
                    a = resolve_ites(cx, sym.expr_rv(cx.b, ds[0][3]["rv"], stop=(e[1],)), depth + 1)
                    b_ = resolve_ites(cx, sym.expr_rv(cx.b, ds[1][3]["rv"], stop=(e[1],)), depth + 1)
                    c = resolve_ites(cx, g1[-1][1], depth + 1)
                    return ("ite", c, a, b_) if t1 else ("ite", c, b_, a)
        return e
    return tuple(resolve_ites(cx, x, depth + 1) if isinstance(x, tuple) else x for x in e)


def finite_leaves(e, cx, limit=1 << 20):
    """maximal sub-expressions of e of the form `x % c` (c <= limit, x >= 0): (frozen key -> c), or None if e has any other
    non-constant leaf"""
    out = {}

    def rec(x):
        h = x[0]
        if h == "const":
            return isinstance(x[1], (int, bool))
        if h == "bin" and x[1] == "Rem" and x[3][0] == "const" and isinstance(x[3][1], int) and 0 < x[3][1] <= limit:
            iv = cx.interval(x[2])
            if iv is not None and iv[0] >= 0:
                out[L_freeze(x)] = x[3][1]
                return True
            return False
        if h == "cast" and x[1] == "IntToInt":
            return rec(x[4])
        if h == "proj" and x[2] == "0" and x[1][0] == "bin":
            return rec(x[1][2]) and rec(x[1][3])
        if h == "bin":
            return rec(x[2]) and rec(x[3])
        if h == "call" and x[1] == "std::convert::num::from" and x[2]:
            return rec(x[2][0])
        return False
    if not rec(e):
        return None
    return out


def L_freeze(x):
    if isinstance(x, list):
        return tuple(L_freeze(i) for i in x)
    if isinstance(x, tuple):
        return tuple(L_freeze(i) for i in x)
    if isinstance(x, dict):
        return tuple(sorted((k, L_freeze(v)) for k, v in x.items()))
    return x
