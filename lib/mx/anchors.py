"""Semantic anchor discovery: the entities rules talk about are located by type, trait, effect and
call-graph position — not by (private) name.  Public API names (api::Muxer::write_video, …) are part
of the observable contract and may be used directly.  A missing anchor raises AnchorMissing, which
the rule turns into a fail-closed violation."""
import re

from . import mir, sym


class AnchorMissing(Exception):
    pass


def is_type_param(ty):
    return bool(re.fullmatch(r"[A-Z][A-Za-z0-9_]*", ty)) and ty not in ("Self",)


def strip_ref(ty):
    while ty.startswith("&"):
        ty = ty[1:].lstrip()
        if ty.startswith("mut "):
            ty = ty[4:]
        if ty.startswith("'"):
            ty = ty.split(" ", 1)[1] if " " in ty else ty
    return ty


class Anchors:
    def __init__(self, unit, graph=None, stores=None):
        self.u = unit
        self.g = graph or mir.Graph(unit)
        self.st = stores or mir.Stores(self.g)
        self.live = {p: b for p, b in unit.bodies.items() if not b["in_test_cfg"]}
        self._sink()
        self._flag()

    # ---- the sink ---------------------------------------------------------------------
    def _sink(self):
        u = self.u
        # ADTs with a field whose type is one of the ADT's own type parameters
        cands = []
        for a in u.adts.values():
            for v in a["variants"]:
                for f in v["fields"]:
                    if f["ty"] in a["generics"]:
                        cands.append((a["path"], f["name"], f["ty"]))
        self.param_holders = cands
        # functions that invoke a std::io::Write method on a non-concrete self type
        self.sink_calls = []     # (fn path, bb, method, term)
        for p, b in self.live.items():
            for bb, t, name, info in mir.calls(b):
                if info and info.get("trait") == "std::io::Write":
                    st = strip_ref(info.get("self_ty", ""))
                    if is_type_param(st) or st.startswith("dyn ") or info.get("resolved") is None:
                        self.sink_calls.append((p, bb, info["decl"].split("::")[-1], t))
        fns = sorted({p for p, _, _, _ in self.sink_calls})
        self.sink_fns = fns
        if not fns:
            raise AnchorMissing("no function invokes std::io::Write on the generic sink")
        self.F = fns[0] if len(fns) == 1 else None
        # the ADT that owns the sink: the param-holder whose field is passed (by &mut) to F
        self.sink_adt = self.sink_field = self.counter_field = None
        self.F_callsites = []
        if self.F:
            for p in self.g.callers(self.F):
                b = self.u.bodies[p]
                for bb, t, name, info in mir.calls(b):
                    if name == self.F:
                        tg = [sorted(mir.path_str(r, pa) for (r, pa) in mir.place_value_origins(b, a["place"]))
                              if a["k"] in ("copy", "move") else [] for a in t["args"]]
                        self.F_callsites.append((p, bb, t, tg))
            sink_paths = {tuple(x[3][0]) for x in self.F_callsites if x[3]}
            ctr_paths = {tuple(x[3][1]) for x in self.F_callsites if len(x[3]) > 1}
            self.sink_paths, self.ctr_paths = sink_paths, ctr_paths
            if len(sink_paths) == 1 and len(next(iter(sink_paths))) == 1:
                self.sink_field = next(iter(sink_paths))[0].split(".")[-1]
            if len(ctr_paths) == 1 and len(next(iter(ctr_paths))) == 1:
                self.counter_field = next(iter(ctr_paths))[0].split(".")[-1]
            for (adt, fld, ty) in cands:
                if fld == self.sink_field and any(self.u.bodies[p].get("impl_self", "").startswith(adt)
                                                  for p, _, _, _ in self.F_callsites):
                    self.sink_adt = adt

    # ---- the finalized flag --------------------------------------------------------------
    def _flag(self):
        self.flag_field = None
        self.G = None
        if not self.sink_adt:
            return
        adt = self.u.adts[self.sink_adt]
        bools = [f["name"] for v in adt["variants"] for f in v["fields"] if f["ty"] == "bool"]
        setters = {}
        for p, b in self.live.items():
            for (bb, i, (root, path), why, node) in self.st.sites[p]:
                if why.startswith("assign") and path and path[-1] in bools and node["k"] == "assign":
                    pl = node["place"]
                    last = [e for e in pl["p"] if e["k"] == "field"][-1]
                    if last.get("adt") != self.sink_adt:
                        continue
                    rv = node["rv"]
                    val = rv["op"].get("v") if rv["k"] == "use" and rv["op"]["k"] == "const" else None
                    setters.setdefault(path[-1], []).append((p, bb, i, val, node))
        self.flag_setters = setters
        trues = {f: [s for s in ss if s[3] == 1] for f, ss in setters.items()}
        trues = {f: ss for f, ss in trues.items() if ss}
        if len(trues) == 1:
            self.flag_field = next(iter(trues))
            gs = sorted({s[0] for s in trues[self.flag_field]})
            if len(gs) == 1:
                self.G = gs[0]

    # ---- helpers ---------------------------------------------------------------------
    def field_loads_in_switch(self, body, bb):
        """if block bb ends in a switch whose discriminant is (a copy of) a load of a field, return the
        load expression"""
        t = body["blocks"][bb]["term"]
        if t["k"] != "switch":
            return None
        return sym.expr(body, t["discr"])
