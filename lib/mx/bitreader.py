"""Bit-reader programs: extraction from the typed HIR of a bitstream parser and comparison with a specification transcription.

A *read program* is a tree of
    ('rd', width_expr, id)            one read of `width` bits; its value is referred to as ('r', id)
    ('opq', tag)                      an opaque variable-length element read by a helper (uvlc)
    ('if', cond, [then], [else])
    ('for', count_expr, loopid, [body], [(var, update_expr)])      `for i in 0..count`; ('i', loopid) is the index
    ('set', var, expr)                assignment to a mutable local declared outside the current construct
    ('ret',)                          early `return None` (rejection)
    ('out', {name: expr})             the successful result
with expressions over ('r', id), ('lit', n), ('v', var), ('i', loopid), ('param', name), ('bin', op, a, b), ('not', a),
('phi', cond, a, b), ('tup', [..]).

`extract` builds the program of a local function from its HIR (calls to other local parsers that take the reader are inlined);
`run` evaluates a program against a feed of values, logging (width, value) per read.  Nothing of the analysed crate is executed:
the program is a syntax-directed transcription of the parser, evaluated like any other extracted expression."""

READER_READS = {"read_bit": 1, "read_bits": None, "skip_bits": None}


class Unsupported(Exception):
    pass


class Extractor:
    def __init__(self, unit, reader_ty_marker="BitReader", opaque_helpers=("skip_uvlc",)):
        self.u = unit
        self.hir = unit.hir
        self.marker = reader_ty_marker
        self.opaque = opaque_helpers
        self.nread = 0
        self.nloop = 0
        self.depth = 0

    # ---- public ------------------------------------------------------------------------------------------
    def extract(self, path, args=None):
        h = self.hir[path]
        env = {}
        for i, p in enumerate(h["params"]):
            name = p["pat"].get("name", "_%d" % i)
            env[p["pat"].get("id", name)] = (args[i] if args and i < len(args) and args[i] is not None else ("param", name))
        out = []
        v = self.block(h["body"], env, out)
        if v is not None:
            out.append(("out", v))
        return out

    # ---- statements ---------------------------------------------------------------------------------------
    def block(self, e, env, out):
        """returns the value of the block's tail expression (or None)"""
        if e.get("k") == "block":
            e = e["b"]
        for st in e.get("stmts", []):
            if self.terminated(out):
                return None
            s = st.get("s")
            if s == "let":
                v = self.ev(st["init"], env, out) if st.get("init") is not None else None
                self.bind(st["pat"], v, env)
            elif s in ("semi", "expr"):
                self.ev(st["e"], env, out)
        if self.terminated(out):
            return None
        if e.get("expr") is not None:
            return self.ev(e["expr"], env, out)
        return None

    @staticmethod
    def terminated(out):
        return bool(out) and out[-1][0] == "ret"

    def bind(self, pat, v, env):
        k = pat.get("k")
        if k == "bind":
            env[pat["id"]] = v
        elif k in ("tuple", "tup"):
            subs = pat.get("ps") or pat.get("es") or pat.get("pats") or []
            for i, sp in enumerate(subs):
                self.bind(sp, comp(v, i), env)
        elif k == "wild" or k is None:
            pass
        else:
            # reference / struct patterns are not used by the parsers handled here
            for sp in pat.get("ps", []):
                self.bind(sp, None, env)

    # ---- expressions -----------------------------------------------------------------------------------------
    def ev(self, e, env, out):
        k = e.get("k")
        if k == "lit":
            if e.get("lit") == "bool":
                return ("lit", int(bool(e["v"])))
            if e.get("lit") == "int":
                return ("lit", int(e["v"]))
            return ("opaque", "lit")
        if k == "path":
            if e.get("res") == "local":
                return env.get(e["id"], ("v", e["id"]))
            if str(e.get("def", "")).endswith("::None"):
                return ("none",)
            return ("opaque", e.get("def", "path"))
        if k in ("cast", "droptemps", "addrof"):
            inner = e.get("e") or e.get("a") or e.get("x")
            if inner is None:
                inner = next((v for kk, v in e.items() if isinstance(v, dict) and kk not in ("sp",)), None)
            return self.ev(inner, env, out)
        if k == "unary":
            a = self.ev(e.get("e") or e.get("a"), env, out)
            if e.get("op") == "Not":
                return ("not", a)
            return ("opaque", "unary")
        if k == "binary":
            a = self.ev(e["a"], env, out)
            b = self.ev(e["b"], env, out)
            return ("bin", e["op"], a, b)
        if k in ("tup", "tuple"):
            return ("tup", [self.ev(x, env, out) for x in e.get("es", [])])
        if k == "block":
            return self.block(e, dict_view(env), out) if False else self.block(e, env, out)
        if k == "if":
            return self.ev_if(e, env, out)
        if k == "ret":
            # `return None` / `return Some(..)`
            v = e.get("v")
            val = self.ev(v, env, out) if v is not None else None
            if val is None or val == ("none",):
                out.append(("ret",))
            else:
                out.append(("out", val))
                out.append(("ret",))
            return None
        if k == "match":
            src = str(e.get("src", ""))
            if src.startswith("TryDesugar"):
                inner = e["scrut"]["args"][0]
                return self.ev(inner, env, out)
            if src.startswith("ForLoopDesugar"):
                return self.ev_for(e, env, out)
            raise Unsupported("match at %s" % (e.get("sp"),))
        if k == "assign":
            l = e["l"]
            v = self.ev(e["r"], env, out)
            if l.get("k") == "path" and l.get("res") == "local":
                env[l["id"]] = v
                out.append(("set", l["id"], v))
                return None
            raise Unsupported("assignment to a non-local")
        if k == "assignop":
            l = e["l"]
            r = self.ev(e["r"], env, out)
            if l.get("k") == "path" and l.get("res") == "local":
                v = ("bin", e["op"].replace("Assign", ""), env.get(l["id"], ("v", l["id"])), r)
                env[l["id"]] = v
                out.append(("set", l["id"], v))
                return None
            raise Unsupported("compound assignment to a non-local")
        if k == "mcall":
            return self.ev_mcall(e, env, out)
        if k == "call":
            return self.ev_call(e, env, out)
        if k == "struct":
            # the result record: field name -> value
            d = {}
            for f in e.get("fields", []):
                d[f["name"]] = self.ev(f["e"], env, out)
            return ("struct", e.get("def"), d)
        if k in ("index", "loop", "break"):
            return ("opaque", k)
        raise Unsupported("expression kind %s" % k)

    def ev_if(self, e, env, out):
        c = self.ev(e["c"], env, out)
        env_t, env_e = dict(env), dict(env)
        nt, ne = [], []
        vt = self.ev(e["t"], env_t, nt)
        ve = self.ev(e["e"], env_e, ne) if e.get("e") is not None else None
        out.append(("if", c, nt, ne))
        # merge assignments to outer locals
        for key in set(env_t) | set(env_e):
            a, b = env_t.get(key), env_e.get(key)
            if key in env and (a != env[key] or b != env[key]):
                ta, tb = self.terminated(nt), self.terminated(ne)
                env[key] = b if ta else (a if tb else (a if a == b else ("phi", c, a, b)))
        ta, tb = self.terminated(nt), self.terminated(ne)
        if ta and tb:
            out.append(("ret",))
            return None
        if ta:
            return ve
        if tb:
            return vt
        if vt is None and ve is None:
            return None
        return vt if vt == ve else ("phi", c, vt, ve)

    def ev_for(self, e, env, out):
        it = e["scrut"]["args"][0]
        if not (it.get("k") == "struct" and str(it.get("def", "")).endswith("ops::Range")):
            raise Unsupported("for loop over something other than a range")
        fl = {f["name"]: self.ev(f["e"], env, out) for f in it["fields"]}
        count = fl["end"] if fl["start"] == ("lit", 0) else ("bin", "Sub", fl["end"], fl["start"])
        self.nloop += 1
        lid = self.nloop
        # the Some(pattern) arm of the inner match holds the body
        loop = e["arms"][0]["body"]
        inner = loop["b"]["stmts"][0]["e"]
        some = [a for a in inner["arms"] if str(a["pat"].get("def", "")).endswith("Some")][0]
        pat = some["pat"]["fields"][0]["pat"] if some["pat"].get("fields") else None
        # first pass: which locals of the enclosing scope does the body assign? (their value is carried between iterations)
        saved = (self.nread, self.nloop)
        probe = dict(env)
        if pat is not None:
            self.bind(pat, ("i", lid), probe)
        self.ev(some["body"], probe, [])
        carried = [key for key, v in probe.items() if key in env and env[key] != v]
        self.nread, self.nloop = saved
        env_b = dict(env)
        for key in carried:
            env_b[key] = ("after", lid, key, env[key], None)
        if pat is not None:
            self.bind(pat, ("i", lid), env_b)
        body = []
        self.ev(some["body"], env_b, body)
        # locals of the enclosing scope that the body assigns: their value after the loop is the value of the last iteration
        updates = []
        for key in carried:
            updates.append((key, env_b[key]))
            env[key] = ("after", lid, key, env[key], None)
        out.append(("for", count, lid, body, updates))
        return None

    def ev_mcall(self, e, env, out):
        m = e.get("method")
        recv_ty = (e.get("recv") or {}).get("ty", "")
        if m in READER_READS and self.marker in recv_ty:
            self.nread += 1
            rid = self.nread
            w = ("lit", 1) if READER_READS[m] == 1 else self.ev(e["args"][0], env, out)
            out.append(("rd", w, rid, m))
            return ("r", rid) if m != "skip_bits" else None
        # pure helpers on slices used before the reader exists
        for a in e.get("args", []):
            self.ev(a, env, out)
        return ("opaque", m)

    def ev_call(self, e, env, out):
        f = e.get("f", {})
        d = f.get("def") or ""
        if d.endswith("Try::branch") and e.get("args"):
            return self.ev(e["args"][0], env, out)
        if d.endswith("__assert_invariant_impl"):
            return None
        if d.endswith("prelude::v1::Some") or d.endswith("Option::Some"):
            return self.ev(e["args"][0], env, out)
        if d.endswith("prelude::v1::None"):
            return ("none",)
        callee = f.get("callee") or d
        args = e.get("args", [])
        takes_reader = any(self.marker in (a.get("ty") or "") for a in args)
        short = callee.split("::")[-1]
        if takes_reader and callee in self.hir and (short in self.opaque or _has_open_loop(self.hir[callee]["body"])):
            # a helper that reads a variable-length code in a `loop`/`while`: one opaque element (uvlc, leb128, ..)
            out.append(("opq", "vlc"))
            return None
        if takes_reader and callee in self.hir:
            if self.depth > 6:
                raise Unsupported("inlining too deep")
            self.depth += 1
            try:
                vals = [None if self.marker in (a.get("ty") or "") else self.ev(a, env, out) for a in args]
                sub = Extractor.extract(self, callee, vals)
            finally:
                self.depth -= 1
            res = None
            for n in sub:
                if n[0] == "out":
                    res = n[1]
                else:
                    out.append(n)
            # an inlined early `return None` ends the caller too (the call is under `?`)
            return res
        for a in args:
            self.ev(a, env, out)
        return ("opaque", short)


def _has_open_loop(e):
    if isinstance(e, dict):
        if e.get("k") == "loop" and not str(e.get("src", "")).startswith("ForLoop"):
            return True
        return any(_has_open_loop(v) for v in e.values())
    if isinstance(e, list):
        return any(_has_open_loop(v) for v in e)
    return False


def dict_view(d):
    return d


def comp(v, i):
    if v is None:
        return None
    if v[0] == "tup":
        return v[1][i] if i < len(v[1]) else None
    if v[0] == "phi":
        return ("phi", v[1], comp(v[2], i), comp(v[3], i))
    return ("comp", v, i)


# ==================================================================================================================
# evaluation
# ==================================================================================================================
class Desync(Exception):
    pass


class Feed:
    """supplies read values in order; records (width, value) per read"""

    def __init__(self, values):
        self.values = list(values)
        self.pos = 0
        self.log = []

    def take(self, width, ident=None):
        v = self.values[self.pos] if self.pos < len(self.values) else 0
        self.pos += 1
        if width < 64:
            v &= (1 << width) - 1
        self.log.append((width, v))
        return v


def evx(x, st):
    if x is None:
        return None
    h = x[0]
    if h == "lit":
        return x[1]
    if h == "r":
        return st["r"].get(x[1], 0)
    if h == "i":
        return st["i"].get(x[1], 0)
    if h == "v":
        return st["v"].get(x[1], 0)
    if h == "param":
        return st["param"].get(x[1], 0)
    if h == "not":
        return int(not evx(x[1], st))
    if h == "bin":
        a, b = evx(x[2], st), evx(x[3], st)
        a = 0 if a is None else a
        b = 0 if b is None else b
        op = x[1]
        return {"Add": a + b, "Sub": a - b, "Mul": a * b, "And": int(bool(a) and bool(b)), "Or": int(bool(a) or bool(b)),
                "Eq": int(a == b), "Ne": int(a != b), "Lt": int(a < b), "Le": int(a <= b), "Gt": int(a > b), "Ge": int(a >= b),
                "BitAnd": a & b, "BitOr": a | b, "Shl": a << b, "Shr": a >> b}[op]
    if h == "phi":
        return evx(x[2], st) if evx(x[1], st) else evx(x[3], st)
    if h == "after":
        return st["v"].get(("after", x[1], x[2]), evx(x[3], st))
    if h == "tup":
        return tuple(evx(y, st) for y in x[1])
    if h == "comp":
        t = evx(x[1], st)
        return t[x[2]] if isinstance(t, tuple) and x[2] < len(t) else 0
    if h == "struct":
        return {k: evx(v, st) for k, v in x[2].items()}
    if h == "none":
        return None
    if h == "opaque":
        return 0
    raise Unsupported("evaluate %s" % (h,))


def run(prog, feed, params=None):
    """returns ('ok', result) | ('rejected', None); feed.log holds the reads"""
    st = {"r": {}, "i": {}, "v": {}, "param": dict(params or {})}
    res = {"out": None}

    def seq(nodes):
        for n in nodes:
            k = n[0]
            if k == "rd":
                w = evx(n[1], st)
                if not isinstance(w, int) or w < 0 or w > 64:
                    raise Desync("width %r" % (w,))
                st["r"][n[2]] = feed.take(w, n[2])
            elif k == "opq":
                feed.log.append((n[1], None))
            elif k == "if":
                r = seq(n[2] if evx(n[1], st) else n[3])
                if r:
                    return True
            elif k == "for":
                cnt = evx(n[1], st) or 0
                if cnt > 64:
                    raise Desync("loop count %d" % cnt)
                for i in range(cnt):
                    st["i"][n[2]] = i
                    if seq(n[3]):
                        return True
                    for (var, upd) in n[4]:
                        st["v"][("after", n[2], var)] = evx(upd, st)
            elif k == "set":
                st["v"][n[1]] = evx(n[2], st)
            elif k == "out":
                res["out"] = evx(n[1], st)
            elif k == "ret":
                return True
        return False
    seq(prog)
    return ("ok", res["out"]) if res["out"] is not None else ("rejected", None)


# ==================================================================================================================
# specification transcriptions and comparison
# ==================================================================================================================
def R(n):
    return ("r", n)


def L_(n):
    return ("lit", n)


def B(op, a, b):
    return ("bin", op, a, b)


def rd(w, name):
    return ("rd", w if isinstance(w, tuple) else ("lit", w), name, "spec")


def If(c, t, e=()):
    return ("if", c, list(t), list(e))


def av1_sequence_header_spec():
    """AV1 Bitstream & Decoding Process Specification, 5.5.1 sequence_header_obu, 5.5.2 color_config, 5.5.3 timing_info,
    5.5.4 decoder_model_info, 5.5.5 operating_parameters_info (names as in the specification)"""
    dm = ("phi", R("timing_info_present_flag"), R("decoder_model_info_present_flag"), L_(0))
    bdl = B("Add", R("buffer_delay_length_minus_1"), L_(1))
    ops = [
        rd(12, "operating_point_idc"),
        rd(5, "seq_level_idx"),
        If(B("Gt", R("seq_level_idx"), L_(7)), [rd(1, "seq_tier")]),
        ("set", "lvl0", ("phi", B("Eq", ("i", "op"), L_(0)), R("seq_level_idx"), ("v", "lvl0"))),
        ("set", "tier0", ("phi", B("Eq", ("i", "op"), L_(0)), ("phi", B("Gt", R("seq_level_idx"), L_(7)), R("seq_tier"), L_(0)), ("v", "tier0"))),
        If(dm, [rd(1, "decoder_model_present_for_this_op"),
                If(R("decoder_model_present_for_this_op"), [rd(bdl, "decoder_buffer_delay"), rd(bdl, "encoder_buffer_delay"), rd(1, "low_delay_mode_flag")])]),
        If(R("initial_display_delay_present_flag"), [rd(1, "initial_display_delay_present_for_this_op"),
                                                     If(R("initial_display_delay_present_for_this_op"), [rd(4, "initial_display_delay_minus_1")])]),
    ]
    full = [
        rd(1, "timing_info_present_flag"),
        If(R("timing_info_present_flag"), [
            rd(32, "num_units_in_display_tick"), rd(32, "time_scale"), rd(1, "equal_picture_interval"),
            If(R("equal_picture_interval"), [("opq", "vlc")]),
            rd(1, "decoder_model_info_present_flag"),
            If(R("decoder_model_info_present_flag"), [rd(5, "buffer_delay_length_minus_1"), rd(32, "num_units_in_decoding_tick"),
                                                      rd(5, "buffer_removal_time_length_minus_1"), rd(5, "frame_presentation_time_length_minus_1")]),
        ]),
        rd(1, "initial_display_delay_present_flag"),
        rd(5, "operating_points_cnt_minus_1"),
        ("for", B("Add", R("operating_points_cnt_minus_1"), L_(1)), "op", ops, []),
    ]
    bit_depth = ("phi", B("And", B("Eq", R("seq_profile"), L_(2)), R("high_bitdepth")), ("phi", R("twelve_bit"), L_(12), L_(10)), ("phi", R("high_bitdepth"), L_(10), L_(8)))
    mono = ("phi", B("Eq", R("seq_profile"), L_(1)), L_(0), R("mono_chrome"))
    cp = ("phi", R("color_description_present_flag"), R("color_primaries"), L_(2))
    tc = ("phi", R("color_description_present_flag"), R("transfer_characteristics"), L_(2))
    mc = ("phi", R("color_description_present_flag"), R("matrix_coefficients"), L_(2))
    srgb = B("And", B("And", B("Eq", cp, L_(1)), B("Eq", tc, L_(13))), B("Eq", mc, L_(0)))
    color = [
        rd(1, "high_bitdepth"),
        If(B("And", B("Eq", R("seq_profile"), L_(2)), R("high_bitdepth")), [rd(1, "twelve_bit")]),
        If(B("Eq", R("seq_profile"), L_(1)), [], [rd(1, "mono_chrome")]),
        rd(1, "color_description_present_flag"),
        If(R("color_description_present_flag"), [rd(8, "color_primaries"), rd(8, "transfer_characteristics"), rd(8, "matrix_coefficients")]),
        If(mono, [rd(1, "color_range"), ("set", "ssx", L_(1)), ("set", "ssy", L_(1)), ("set", "csp", L_(0))], [
            If(srgb, [("set", "ssx", L_(0)), ("set", "ssy", L_(0)), ("set", "csp", L_(0))], [
                rd(1, "color_range"),
                If(B("Eq", R("seq_profile"), L_(0)), [("set", "ssx", L_(1)), ("set", "ssy", L_(1))], [
                    If(B("Eq", R("seq_profile"), L_(1)), [("set", "ssx", L_(0)), ("set", "ssy", L_(0))], [
                        If(B("Eq", bit_depth, L_(12)), [rd(1, "subsampling_x"), ("set", "ssx", R("subsampling_x")),
                                                        If(R("subsampling_x"), [rd(1, "subsampling_y"), ("set", "ssy", R("subsampling_y"))], [("set", "ssy", L_(0))])],
                           [("set", "ssx", L_(1)), ("set", "ssy", L_(0))])])]),
                ("set", "csp", L_(0)),
                If(B("And", ("v", "ssx"), ("v", "ssy")), [rd(2, "chroma_sample_position"), ("set", "csp", R("chroma_sample_position"))]),
            ]),
            rd(1, "separate_uv_delta_q"),
        ]),
    ]
    prog = [
        rd(3, "seq_profile"), rd(1, "still_picture"), rd(1, "reduced_still_picture_header"),
        ("set", "lvl0", L_(0)), ("set", "tier0", L_(0)),
        If(R("reduced_still_picture_header"), [rd(5, "seq_level_idx_reduced"), ("set", "lvl0", R("seq_level_idx_reduced"))], full),
        rd(4, "frame_width_bits_minus_1"), rd(4, "frame_height_bits_minus_1"),
        rd(B("Add", R("frame_width_bits_minus_1"), L_(1)), "max_frame_width_minus_1"),
        rd(B("Add", R("frame_height_bits_minus_1"), L_(1)), "max_frame_height_minus_1"),
        If(("not", R("reduced_still_picture_header")), [rd(1, "frame_id_numbers_present_flag"),
                                                        If(R("frame_id_numbers_present_flag"), [rd(4, "delta_frame_id_length_minus_2"), rd(3, "additional_frame_id_length_minus_1")])]),
        rd(1, "use_128x128_superblock"), rd(1, "enable_filter_intra"), rd(1, "enable_intra_edge_filter"),
        If(("not", R("reduced_still_picture_header")), [
            rd(1, "enable_interintra_compound"), rd(1, "enable_masked_compound"), rd(1, "enable_warped_motion"), rd(1, "enable_dual_filter"),
            rd(1, "enable_order_hint"),
            If(R("enable_order_hint"), [rd(1, "enable_jnt_comp"), rd(1, "enable_ref_frame_mvs")]),
            rd(1, "seq_choose_screen_content_tools"),
            If(R("seq_choose_screen_content_tools"), [("set", "sct", L_(2))], [rd(1, "seq_force_screen_content_tools"), ("set", "sct", R("seq_force_screen_content_tools"))]),
            If(B("Gt", ("v", "sct"), L_(0)), [rd(1, "seq_choose_integer_mv"), If(("not", R("seq_choose_integer_mv")), [rd(1, "seq_force_integer_mv")])]),
            If(R("enable_order_hint"), [rd(3, "order_hint_bits_minus_1")]),
        ]),
        rd(1, "enable_superres"), rd(1, "enable_cdef"), rd(1, "enable_restoration"),
    ] + color + [
        rd(1, "film_grain_params_present"),
        ("out", ("struct", "spec", {
            "seq_profile": R("seq_profile"), "seq_level_idx": ("v", "lvl0"), "seq_tier": ("v", "tier0"),
            "high_bitdepth": R("high_bitdepth"), "twelve_bit": ("phi", B("And", B("Eq", R("seq_profile"), L_(2)), R("high_bitdepth")), R("twelve_bit"), L_(0)),
            "monochrome": mono, "chroma_subsampling_x": ("v", "ssx"), "chroma_subsampling_y": ("v", "ssy"), "chroma_sample_position": ("v", "csp")})),
    ]
    cands = {
        "seq_profile": ("H", [0, 1, 2]), "reduced_still_picture_header": ("H", [0, 1]),
        "timing_info_present_flag": ("T", [0, 1]), "equal_picture_interval": ("T", [0, 1]), "decoder_model_info_present_flag": ("T", [0, 1]),
        "buffer_delay_length_minus_1": ("T", [0, 4]), "initial_display_delay_present_flag": ("T", [0, 1]), "operating_points_cnt_minus_1": ("T", [0, 1]),
        "seq_level_idx": ("T", [0, 7, 8]), "seq_level_idx_reduced": ("T", [5]), "seq_tier": ("T", [1]), "decoder_model_present_for_this_op": ("T", [0, 1]),
        "initial_display_delay_present_for_this_op": ("T", [0, 1]),
        "frame_width_bits_minus_1": ("F", [0, 15]), "frame_height_bits_minus_1": ("F", [3, 9]), "frame_id_numbers_present_flag": ("F", [0, 1]),
        "enable_order_hint": ("D", [0, 1]), "seq_choose_screen_content_tools": ("D", [0, 1]), "seq_force_screen_content_tools": ("D", [0, 1]),
        "seq_choose_integer_mv": ("D", [0, 1]),
        "high_bitdepth": ("C", [0, 1]), "twelve_bit": ("C", [0, 1]), "mono_chrome": ("C", [0, 1]), "color_description_present_flag": ("C", [0, 1]),
        "color_primaries": ("C", [1, 2]), "transfer_characteristics": ("C", [13, 2]), "matrix_coefficients": ("C", [0, 2]),
        "subsampling_x": ("C", [0, 1]), "subsampling_y": ("C", [0, 1]), "chroma_sample_position": ("C", [2]),
    }
    return prog, cands


class ScenarioFeed(Feed):
    """drives the specification program: control reads take the value selected by the current choice vector"""

    def __init__(self, cands, active, default_last, choices):
        Feed.__init__(self, [])
        self.cands, self.active, self.default_last, self.choices = cands, active, default_last, choices
        self.k = 0
        self.arity = []
        self.names = []

    def take(self, width, ident=None):
        v = 0
        if ident in self.cands:
            sec, vals = self.cands[ident]
            if sec in self.active and len(vals) > 1:
                idx = self.choices[self.k] if self.k < len(self.choices) else 0
                self.arity.append(len(vals))
                self.k += 1
                v = vals[idx]
            else:
                v = vals[-1] if self.default_last else vals[0]
        if width < 64:
            v &= (1 << width) - 1
        self.log.append((width, v))
        self.names.append(ident)
        return v


def compare(code_prog, spec_prog, cands, fields, sections=("T", "F", "D", "C"), always=("H",), limit=200000, keep=None):
    """enumerate scenarios on the specification program and replay each on the extracted program; returns (n, mismatch|None)"""
    n = 0
    for sec in sections:
        for default_last in (False, True):
            choices = []
            while True:
                sf = ScenarioFeed(cands, set(always) | {sec}, default_last, choices)
                sres = run(spec_prog, sf)
                vals = [v for (w, v) in sf.log if isinstance(w, int)]
                cf = Feed(vals)
                try:
                    cres = run(code_prog, cf)
                except Desync as e:
                    cres = ("desync", str(e))
                n += 1
                scen = {nm: v for nm, (w, v) in zip(sf.names, [x for x in sf.log if isinstance(x[0], int)]) if nm in cands}
                skip = keep is not None and not keep(scen)
                if skip:
                    n -= 1
                sw = [w for (w, v) in sf.log]
                cw = [w for (w, v) in cf.log]
                if not skip and (cres[0] != "rejected" or sres[0] == "rejected"):
                    if sw != cw:
                        k = next((i for i in range(min(len(sw), len(cw))) if sw[i] != cw[i]), min(len(sw), len(cw)))
                        nm = sf.names[sum(1 for w in sw[:k] if isinstance(w, int))] if sum(1 for w in sw[:k] if isinstance(w, int)) < len(sf.names) else "<end>"
                        return n, {"scenario": scen, "what": "the specification reads %s bit(s) (%s) where the parser reads %s" % (sw[k] if k < len(sw) else "nothing", nm, cw[k] if k < len(cw) else "nothing"), "read_index": k + 1}
                    if sres[0] == "ok" and cres[0] == "ok":
                        for f in fields:
                            a, b = sres[1].get(f), cres[1].get(f)
                            if int(a or 0) != int(b or 0):
                                return n, {"scenario": scen, "what": "field %s: the specification gives %s, the parser %s" % (f, a, b)}
                    elif sres[0] != cres[0]:
                        return n, {"scenario": scen, "what": "outcome: specification %s, parser %s" % (sres[0], cres)}
                # next choice vector (odometer over the reads actually encountered)
                ch = list(choices) + [0] * (len(sf.arity) - len(choices))
                i = len(sf.arity) - 1
                while i >= 0 and ch[i] + 1 >= sf.arity[i]:
                    i -= 1
                if i < 0 or n >= limit:
                    break
                choices = ch[:i] + [ch[i] + 1]
    return n, None
