"""Compare derived box layouts (layout.py productions) with the spec transcriptions (spec.py)."""
from . import layout as L
from . import spec as S


def byte_view(segs):
    """per-byte view of the leading fixed-width part: list of ('c', byte) | ('e', seg, index_in_seg, width)"""
    atoms, end, rest = L.flat_atoms(segs)
    out = []
    for (off, w, s) in atoms:
        if s[0] == "c":
            out.extend(("c", b) for b in s[1])
        else:
            out.extend(("e", s, i, w) for i in range(w))
    return out, rest


def field_value(view, off, w):
    """('const', bytes) | ('expr', seg) | ('misaligned', why) | ('short', n)"""
    if off + w > len(view):
        return ("short", len(view) - off)
    chunk = view[off:off + w]
    if all(c[0] == "c" for c in chunk):
        return ("const", bytes(c[1] for c in chunk))
    first = chunk[0]
    if first[0] == "e" and first[2] == 0 and first[3] == w and all(c[0] == "e" and c[1] is first[1] for c in chunk):
        return ("expr", first[1])
    return ("misaligned", "field covers parts of several emitted values")


def only_boxes(segs):
    """True iff the segments are child boxes only (possibly under alt/match/rep)"""
    for s in segs:
        k = s[0]
        if k == "box":
            continue
        if k == "alt":
            if not (only_boxes(s[2]) and only_boxes(s[3])):
                return False
        elif k == "match":
            if not all(only_boxes(sg) for _, sg in s[2]):
                return False
        elif k == "rep":
            if not only_boxes(s[3]):
                return False
        else:
            return False
    return True


def child_boxes(segs, cond=()):
    """[(fourcc, box_seg, conditions)] of direct children, descending through alt/match/rep"""
    out = []
    for s in segs:
        k = s[0]
        if k == "box":
            out.append((L.fourcc(s), s, cond))
        elif k == "alt":
            out += child_boxes(s[2], cond + (("if", s[1]),))
            out += child_boxes(s[3], cond + (("ifnot", s[1]),))
        elif k == "match":
            for p, sg in s[2]:
                out += child_boxes(sg, cond + (("arm", s[1], p),))
        elif k == "rep":
            out += child_boxes(s[3], cond + (("rep", s[1]),))
    return out


def walk_boxes(segs, path=(), cond=()):
    """all boxes, depth first: yields (path of fourccs, box_seg, conditions)"""
    for (fc, b, c) in child_boxes(segs, cond):
        p = path + (fc,)
        yield p, b, c
        # children live after the fixed prefix, if any
        yield from walk_boxes(b[2], p, c)


def fc_str(fc):
    if fc is None:
        return "????"
    return "".join(chr(c) if 32 <= c < 127 else "\\x%02x" % c for c in fc)


def path_str(p):
    return "/".join(fc_str(x) for x in p)


def option_fact(c):
    """normalise an Option test to (subject, is_some) or None"""
    if isinstance(c, tuple) and c:
        if c[0] == "mcall" and c[1].endswith("Option::is_some"):
            return (c[2], True)
        if c[0] == "mcall" and c[1].endswith("Option::is_none"):
            return (c[2], False)
        if c[0] == "is" and str(c[2]).endswith("Some"):
            return (c[1], True)
        if c[0] == "is" and str(c[2]).endswith("None"):
            return (c[1], False)
    return None


def facts_of(cond):
    out = {}
    for c in cond:
        if c[0] in ("if", "ifnot"):
            f = option_fact(c[1])
            if f is not None:
                out[L.freeze(f[0])] = f[1] if c[0] == "if" else (not f[1])
    return out


def alternatives(segs, facts, limit=64):
    """expand top-level alt/match into flat alternatives, pruning branches that contradict `facts`
    (a dict frozen-subject -> is_some)"""
    outs = [[]]
    for s in segs:
        if s[0] == "alt":
            f = option_fact(s[1])
            branches = [(True, s[2]), (False, s[3])]
            if f is not None and L.freeze(f[0]) in facts:
                known = facts[L.freeze(f[0])] == f[1]
                branches = [(known, s[2] if known else s[3])]
            new = []
            for o in outs:
                for _, br in branches:
                    for a in alternatives(br, facts, limit):
                        new.append(o + a)
            outs = new
        elif s[0] == "match":
            new = []
            for o in outs:
                for p, br in s[2]:
                    for a in alternatives(br, facts, limit):
                        new.append(o + a)
            outs = new
        else:
            outs = [o + [s] for o in outs]
        if len(outs) > limit:
            raise L.Unanalysable("too many alternatives")
    return [L.norm_segs(o) for o in outs]
