"""Frozen classification of external (std / dependency) callees, by normalised def path
(`mir.norm`: generic arguments stripped).  Anything not listed is treated conservatively:
it may write through every `&mut` argument, its reference result may alias every pointer argument,
it may panic, and (for effect rules) it is reported as `unclassified`.

Confirmed by reading the std documentation for each entry; one line of reason where not obvious."""

# reference result points to the same object as argument 0 (or a view of all of it)
ALIAS_SAME = {
    "<std::vec::Vec<T, A> as std::ops::Deref>::deref",
    "<std::vec::Vec<T, A> as std::ops::DerefMut>::deref_mut",
    "<std::string::String as std::ops::Deref>::deref",
    "<std::cell::Ref<'_, T> as std::ops::Deref>::deref",
    "<std::cell::RefMut<'_, T> as std::ops::DerefMut>::deref_mut",
    "<std::path::PathBuf as std::ops::Deref>::deref",
    "std::option::Option::as_ref", "std::option::Option::as_deref", "std::option::Option::as_mut",
    "std::string::String::as_str", "core::str::as_bytes",
    "std::option::Option::unwrap", "std::option::Option::expect", "std::option::Option::unwrap_or",
    "std::option::Option::ok_or", "std::option::Option::ok_or_else", "std::option::Option::copied",
    "std::result::Result::unwrap", "std::result::Result::expect", "std::result::Result::map_err",
    "<std::option::Option<T> as std::ops::Try>::branch", "<std::result::Result<T, E> as std::ops::Try>::branch",
    "std::option::Option::get_or_insert_with",
    "std::cell::RefCell::borrow", "std::cell::RefCell::borrow_mut",
    "core::slice::iter", "core::slice::iter::into_iter", "<I as std::iter::IntoIterator>::into_iter",
    "<&'a std::vec::Vec<T, A> as std::iter::IntoIterator>::into_iter",
    "std::iter::Iterator::enumerate", "std::iter::Iterator::take", "std::iter::Iterator::cloned",
    "std::iter::Iterator::map", "std::iter::Iterator::filter", "std::iter::Iterator::filter_map",
    "core::str::chars", "std::collections::HashSet::iter",
}
# reference result points to an element / sub-slice of argument 0's pointee
ALIAS_ELEM = {
    "core::slice::last_mut", "core::slice::last", "core::slice::first", "core::slice::get",
    "<std::vec::Vec<T, A> as std::ops::Index<I>>::index", "core::slice::index::index",
    "<std::slice::Iter<'a, T> as std::iter::Iterator>::next",
    "<std::iter::Enumerate<I> as std::iter::Iterator>::next",
    "<std::string::String as std::ops::Index<I>>::index",
}
# takes `&mut T` (or is otherwise suspicious) but does not modify the pointee's observable content
NO_WRITE = ALIAS_SAME | ALIAS_ELEM | {
    "std::vec::Vec::len", "std::vec::Vec::is_empty", "core::slice::len", "core::slice::is_empty",
    "std::option::Option::is_some", "std::option::Option::is_none",
    # iterator stepping mutates the iterator temporary only (a local), never the collection
    "<std::vec::IntoIter<T, A> as std::iter::Iterator>::next", "std::iter::range::next",
    "<std::array::IntoIter<T, N> as std::iter::Iterator>::next",
    "<std::iter::StepBy<I> as std::iter::Iterator>::next", "<std::str::Chars<'a> as std::iter::Iterator>::next",
    "std::iter::Iterator::any", "std::iter::Iterator::count", "std::iter::Iterator::sum", "std::iter::Iterator::collect",
    "<std::slice::Iter<'a, T> as std::iter::Iterator>::any",
    "<std::iter::Filter<I, P> as std::iter::Iterator>::count",
}
NO_WRITE -= {"std::option::Option::get_or_insert_with"}   # writes *and* aliases

# ambient effects (C17 / C20)
EFFECTS = {
    "std::time::SystemTime::now": "clock",
    "std::time::Instant::now": "clock",
    "std::thread::LocalKey::with": "tls",
    "std::thread::local_impl::LazyStorage::get_or_init": "tls",
    "std::fs::File::create": "fs", "std::fs::File::open": "fs", "std::fs::write": "fs", "std::fs::read": "fs",
    "std::path::Path::exists": "fs", "std::path::Path::is_file": "fs", "std::path::Path::metadata": "fs",
    "<std::io::BufReader<R> as std::io::Read>::read_to_end": "fs",
    "<std::io::BufReader<R> as std::io::Read>::read_to_string": "fs",
    "std::io::_print": "stdio", "std::io::_eprint": "stdio",
    "std::env::var": "env", "std::env::args": "env", "std::env::vars": "env",
    "std::process::exit": "process", "std::process::abort": "process",
    "std::thread::spawn": "thread", "std::thread::sleep": "thread",
    "clap::Parser::parse": "env",
}
EFFECT_PREFIXES = {
    "std::time::": "clock", "std::fs::": "fs", "std::env::": "env", "std::process::": "process",
    "std::thread::": "thread", "std::net::": "net", "std::os::": "os", "std::sync::atomic::": "atomic",
    "std::sync::": "sync", "rand::": "rng", "std::hash::RandomState": "rng", "std::any::": "typeid",
    "std::io::stdin": "stdio", "std::io::stdout": "stdio", "std::io::stderr": "stdio",
}
# effect-free although under an effect prefix
EFFECT_FREE = {"std::time::Duration::as_secs", "std::time::SystemTime::duration_since"}


def effect_of(name):
    if name in EFFECT_FREE:
        return None
    if name in EFFECTS:
        return EFFECTS[name]
    for pre, eff in EFFECT_PREFIXES.items():
        if name.startswith(pre):
            return eff
    return None
