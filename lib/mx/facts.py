"""Run the mxlint driver over a source tree and load the fact files.

The driver is injected with RUSTC_WORKSPACE_WRAPPER under `cargo +nightly check`, so what is
analysed is the real, type-checked build of the *current working tree* of the repository.
Fail-closed: a missing / stale fact file is an error, never a pass.
"""
import fcntl
import glob
import hashlib
import json
import os
import shutil
import subprocess
import sys
import time
import uuid

VERIF = os.path.dirname(os.path.dirname(os.path.dirname(os.path.abspath(__file__))))
CACHE = os.path.join(VERIF, ".cache")
DRIVER_DIR = os.path.join(VERIF, "engine", "mxlint")
DRIVER = os.path.join(DRIVER_DIR, "target", "debug", "mxlint")


class CheckerBroken(Exception):
    pass


def _sysroot():
    return subprocess.check_output(["rustc", "+nightly", "--print", "sysroot"], text=True).strip()


def ensure_driver():
    srcs = glob.glob(os.path.join(DRIVER_DIR, "src", "*.rs")) + [os.path.join(DRIVER_DIR, "Cargo.toml")]
    newest = max(os.path.getmtime(s) for s in srcs)
    if os.path.exists(DRIVER) and os.path.getmtime(DRIVER) >= newest:
        return
    env = dict(os.environ, CARGO_NET_OFFLINE="true")
    r = subprocess.run(["cargo", "build", "--offline"], cwd=DRIVER_DIR, env=env,
                       stdout=subprocess.PIPE, stderr=subprocess.STDOUT, text=True)
    if r.returncode != 0 or not os.path.exists(DRIVER):
        raise CheckerBroken("cannot build mxlint driver:\n" + r.stdout[-4000:])


def tree_hash(repo):
    """sha256 over the source files cargo would compile (src/, Cargo.toml, Cargo.lock)."""
    h = hashlib.sha256()
    files = [os.path.join(repo, "Cargo.toml"), os.path.join(repo, "Cargo.lock")]
    for root, dirs, fs in os.walk(os.path.join(repo, "src")):
        dirs.sort()
        for f in sorted(fs):
            files.append(os.path.join(root, f))
    for f in files:
        if os.path.exists(f):
            h.update(f.encode())
            with open(f, "rb") as fh:
                h.update(fh.read())
    return h.hexdigest()


def run_driver(repo="/repo", all_targets=False, overflow_checks=True, crates="muxide", extra_cfg=None):
    """Returns (facts_dir, nonce, wall_s, cargo_output). Caller removes facts_dir when done."""
    ensure_driver()
    os.makedirs(CACHE, exist_ok=True)
    nonce = uuid.uuid4().hex
    out = os.path.join(CACHE, "facts-" + nonce)
    os.makedirs(out)
    target = os.path.join(CACHE, "target")
    os.makedirs(target, exist_ok=True)
    rustflags = "-Zmir-opt-level=0 -Awarnings -Cdebug-assertions=on -Coverflow-checks=" + ("on" if overflow_checks else "off")
    if extra_cfg:
        rustflags += " " + extra_cfg
    env = dict(os.environ)
    env.update({
        "RUSTC_ICE": "0",
        "CARGO_NET_OFFLINE": "true",
        "LD_LIBRARY_PATH": _sysroot() + "/lib" + (":" + env["LD_LIBRARY_PATH"] if env.get("LD_LIBRARY_PATH") else ""),
        "RUSTFLAGS": rustflags,
        "RUSTC_WORKSPACE_WRAPPER": DRIVER,
        "MXLINT_OUT": out,
        "MXLINT_NONCE": nonce,
        "MXLINT_CRATES": crates,
        "CARGO_TARGET_DIR": target,
        "CARGO_INCREMENTAL": "0",
    })
    env.pop("RUSTC_WRAPPER", None)
    cmd = ["cargo", "+nightly", "check", "--offline", "--manifest-path", os.path.join(repo, "Cargo.toml")]
    cmd += ["--all-targets"] if all_targets else ["--lib", "--bins"]
    t0 = time.time()
    lock = open(os.path.join(CACHE, "driver.lock"), "w")
    fcntl.flock(lock, fcntl.LOCK_EX)
    try:
        # cargo's freshness cache would skip the wrapper: drop the workspace members' fingerprints.
        for prof in glob.glob(os.path.join(target, "*", ".fingerprint")):
            for d in glob.glob(os.path.join(prof, "*")):
                base = os.path.basename(d)
                if any(base.startswith(c + "-") for c in crates.split(",")):
                    shutil.rmtree(d, ignore_errors=True)
        r = subprocess.run(cmd, env=env, cwd=repo, stdout=subprocess.PIPE, stderr=subprocess.STDOUT, text=True)
    finally:
        fcntl.flock(lock, fcntl.LOCK_UN)
        lock.close()
    wall = time.time() - t0
    if r.returncode != 0:
        shutil.rmtree(out, ignore_errors=True)
        raise CheckerBroken("cargo check with mxlint failed (the tree does not build?):\n" + r.stdout[-6000:])
    return out, nonce, wall, r.stdout


class Program:
    """All facts of one driver run."""

    def __init__(self, facts_dir, nonce):
        self.units = []
        for f in sorted(glob.glob(os.path.join(facts_dir, "*.facts.json"))):
            with open(f) as fh:
                raw = fh.read()
            d = json.loads(raw)
            if d.get("nonce") != nonce:
                raise CheckerBroken("stale fact file " + f)
            d["_file"] = os.path.basename(f)
            d["_sha"] = hashlib.sha256(raw.encode()).hexdigest()[:16]
            self.units.append(d)
        self.lib = self._unit(lambda u: "rlib" in u["crate_types"] or "lib" in u["crate_types"], test=False)
        self.bin = self._unit(lambda u: "executable" in u["crate_types"] or "bin" in u["crate_types"], test=False)
        if self.lib is None:
            raise CheckerBroken("no fact file for the library crate (driver skipped?)")

    def _unit(self, pred, test):
        for u in self.units:
            if pred(u) and bool(u.get("test")) == test:
                return Unit(u)
        return None


class Unit:
    def __init__(self, d):
        self.d = d
        self.name = d["_file"]
        self.bodies = {}
        for b in d["bodies"]:
            self.bodies[b["path"]] = b
        self.hir = {h["path"]: h for h in d["hir"]}
        self.items = d["items"]
        self.auto = {a["adt"]: a for a in d["auto_traits"]}
        self.adts = {a["path"]: a for a in d["items"]["adts"]}
        self.consts = {c["path"]: c for c in d["items"]["consts"]}

    def body(self, suffix):
        """unique body whose path ends with `suffix`"""
        m = [b for p, b in self.bodies.items() if p == suffix or p.endswith("::" + suffix)]
        if len(m) != 1:
            raise KeyError("body %r: %d matches" % (suffix, len(m)))
        return m[0]

    def find_bodies(self, pred):
        return [b for b in self.bodies.values() if pred(b)]


# memo tables of the analyses that are keyed by item path only: valid for one program.  A process that analyses several trees in
# turn (bin/seedall, bin/mutsweep, bin/mutretest, the thorough self-test) must not carry them over - a summary computed for a function
# of the previous tree would be used for the function of the same name in the next one.
_PROGRAM_CACHES = {"mx.absint": ("_RET", "_FLD", "_PC", "_PF", "_WIDTH", "_ACCUM", "_BITACC", "USED_LEMMAS"), "mx.rules.lemmas": ("_ITEM",), "mx.rules.c16": ("_SS",)}


def reset_program_caches():
    import sys
    for modname, names in _PROGRAM_CACHES.items():
        m = sys.modules.get(modname)
        for n in names:
            d = getattr(m, n, None) if m is not None else None
            if isinstance(d, dict):
                d.clear()


def load(repo="/repo", all_targets=False, overflow_checks=True, keep=False):
    reset_program_caches()
    out, nonce, wall, log = run_driver(repo, all_targets=all_targets, overflow_checks=overflow_checks)
    try:
        prog = Program(out, nonce)
    finally:
        if not keep:
            shutil.rmtree(out, ignore_errors=True)
    prog.wall = wall
    prog.repo = repo
    prog.tree_hash = tree_hash(repo)
    return prog
