"""File productions of the finalize functions (what is handed to the sink, in order, per successful exit and
configuration) and the analyses shared by C01 / C02 / C08 / C15."""
from . import boxcheck as B
from . import layout as L
from . import mir, sym


class FileLeaf:
    def __init__(self, fn, conds, segs, interp):
        self.fn, self.conds, self.segs, self.it = fn, conds, segs, interp

    def cond_str(self):
        return " & ".join(("" if c[0] == "if" else "!") + L.show(c[1])[:60] for c in self.conds)


def writer_functions(cx):
    """local functions that call the sink helper directly"""
    F = cx.an.F
    return sorted(p for p in cx.g.callers(F) if not cx.u.bodies[p]["in_test_cfg"])


def interp_for(cx):
    it = L.Interp(cx.u, sink_helper=cx.an.F)
    # local helper functions of the modules that hold the writers may be inlined (fallback: opaque)
    mods = {p.rsplit("::", 1)[0].split("::<")[0] for p in writer_functions(cx)}
    roots = {m.rsplit("::", 1)[0] if m.count("::") > 1 else m for m in mods}
    for p in cx.u.hir:
        if any(p.startswith(r + "::") for r in roots) and not it.is_producer(p) and p != cx.an.F and not cx.u.bodies.get(p, {}).get("in_test_cfg"):
            h = cx.u.hir[p]
            if h["ret"].startswith("std::result::Result<") or h["ret"] == "()":
                continue
            it.struct_fns[p] = 1
    return it


def derive(cx):
    """[(FileLeaf)] for every writer function; raises L.Unanalysable"""
    it = interp_for(cx)
    out = []
    for fn in writer_functions(cx):
        for conds, segs, val in it.file_production(fn):
            out.append(FileLeaf(fn, conds, L.norm_segs(segs), it))
    return it, out


def cond_facts(conds):
    """facts usable for specialisation: frozen cond expr -> bool (also for the negated form)"""
    facts = {}
    for c in conds:
        e, val = c[1], c[0] == "if"
        while isinstance(e, tuple) and e and e[0] == "un" and e[1] == "Not":
            e, val = e[2], not val
        facts[L.freeze(e)] = val
    return facts


def specialise(segs, facts):
    """resolve every alt segment / if-expression whose condition is decided by `facts`, everywhere (segments, values,
    conditions, repetition bases, frozen sub-structures), re-folding boolean operators on the way"""
    def cval(c):
        if isinstance(c, tuple) and c and c[0] == "bool":
            return c[1]
        if isinstance(c, tuple) and c and c[0] == "is" and isinstance(c[1], tuple) and c[1] and c[1][0] in ("some", "none"):
            return (c[1][0] == "some") == str(c[2]).endswith("Some")
        e, neg = c, False
        while isinstance(e, tuple) and e and e[0] == "un" and e[1] == "Not":
            e, neg = e[2], not neg
        if isinstance(e, tuple) and e and e[0] == "bool":
            return e[1] != neg
        k = L.freeze(e)
        if k in facts:
            return facts[k] != neg
        if not isinstance(e, tuple) or not e:
            return None
        of = B.option_fact(e)
        if of is not None:
            for fk, fv in facts.items():
                of2 = B.option_fact(fk)
                if of2 is not None and L.freeze(of2[0]) == L.freeze(of[0]):
                    return ((fv == of2[1]) == of[1]) != neg
        if e[0] == "bin" and e[1] in ("Or", "And"):
            a, b = cval(e[2]), cval(e[3])
            if e[1] == "Or":
                if a is True or b is True:
                    return True != neg
                if a is False and b is False:
                    return False != neg
            else:
                if a is False or b is False:
                    return False != neg
                if a is True and b is True:
                    return True != neg
            return None
        if e[0] == "bin" and e[1] in ("Eq", "Ne") and e[3] == ("lit", 0):
            x = e[2]
            while x[0] == "cast":
                x = x[2]
            if x[0] == "len":
                for fk, fv in facts.items():
                    if isinstance(fk, tuple) and fk and fk[0] == "mcall" and str(fk[1]).endswith("is_empty") and fk[2] == L.freeze(x[1]):
                        return (fv == (e[1] == "Eq")) != neg
        return None

    def is_alt(y):
        return isinstance(y, tuple) and len(y) == 4 and y[0] == "alt" and isinstance(y[2], (list, tuple)) and isinstance(y[3], (list, tuple))

    def deep(x):
        if isinstance(x, (list, tuple)):
            if isinstance(x, tuple) and len(x) == 4 and x[0] == "if":
                c = deep(x[1])
                v = cval(c)
                if v is True:
                    return deep(x[2])
                if v is False:
                    return deep(x[3])
                return ("if", c, deep(x[2]), deep(x[3]))
            out = []
            for y in x:
                if is_alt(y):
                    c = deep(y[1])
                    v = cval(c)
                    if v is True:
                        out.extend(deep(y[2]))
                        continue
                    if v is False:
                        out.extend(deep(y[3]))
                        continue
                    out.append(("alt", c, deep(y[2]), deep(y[3])))
                else:
                    out.append(deep(y))
            if isinstance(x, tuple):
                t = tuple(out)
                if len(t) == 4 and t[0] == "bin" and isinstance(t[1], str):
                    return L.fold_bin(t[1], t[2], t[3])
                if len(t) == 3 and t[0] == "cast" and isinstance(t[2], tuple) and t[2] and t[2][0] == "lit" and t[1] in L.INT_W and isinstance(t[2][1], int):
                    w = L.INT_W[t[1]] * 8
                    v = t[2][1] & ((1 << w) - 1)
                    if t[1].startswith("i") and v >= 1 << (w - 1):
                        v -= 1 << w
                    return ("lit", v)
                if len(t) == 2 and t[0] == "len" and isinstance(t[1], tuple) and len(t[1]) == 2 and t[1][0] in ("listval", "bufval"):
                    try:
                        w = L.width(_relist(list(t[1][1])))
                        if w.is_const():
                            return ("lit", w.const)
                    except Exception:
                        pass
                if len(t) == 2 and t[0] == "empty" and isinstance(t[1], tuple) and len(t[1]) == 2 and t[1][0] == "bufval":
                    try:
                        w = L.width(_relist(list(t[1][1])))
                        if w.is_const():
                            return ("bool", w.const == 0)
                    except Exception:
                        pass
                return t
            return out
        return x
    res = deep(list(segs))
    return L.norm_segs(_relist(res))


def _relist(segs):
    """segment containers must be lists again after the generic rewrite (frozen sub-structures stay tuples)"""
    out = []
    for s in segs:
        k = s[0]
        if k == "box":
            out.append(("box", _relist(s[1]), _relist(s[2])))
        elif k == "alt":
            out.append(("alt", s[1], _relist(s[2]), _relist(s[3])))
        elif k == "match":
            out.append(("match", s[1], [(p, _relist(sg)) for p, sg in s[2]]))
        elif k == "rep":
            out.append(("rep", s[1], s[2], _relist(s[3])))
        elif k == "perm":
            out.append(("perm", s[1], _relist(s[2])))
        elif k == "ploop":
            out.append(("ploop", s[1], s[2], [("part", _relist(p[1])) if p[0] == "part" else ("rep", p[1], p[2], _relist(p[3])) for p in s[3]]))
        else:
            out.append(s)
    return out


def top_structure(segs):
    """classify the top-level segments of a file production: list of (kind, payload)
    kinds: box(fourcc), mdat_hdr(expr), mdat_tag, body(segs)"""
    out = []
    i = 0
    while i < len(segs):
        s = segs[i]
        if s[0] == "box":
            out.append(("box", L.fourcc(s), s))
            i += 1
        elif s[0] == "be" and s[2] == 4 and i + 1 < len(segs) and segs[i + 1][0] == "c" and segs[i + 1][1][:4] == b"mdat":
            out.append(("mdat_hdr", s[1], s))
            rest = segs[i + 1][1][4:]
            out.append(("mdat_tag", None, None))
            body = []
            if rest:
                body.append(("c", rest))
            j = i + 2
            while j < len(segs) and segs[j][0] != "box":
                body.append(segs[j])
                j += 1
            out.append(("body", body, None))
            i = j
        else:
            out.append(("stray", s, None))
            i += 1
    return out


# ----------------------------------------------------------------------------------------
# Σ-normal form: total payload widths as multisets of (queue, field) sums


def sigma_segs(segs):
    """(const, {(base, fieldpath): count}) for a body made of repetitions of blobs; None if not of that form"""
    const, terms = 0, {}

    def add(t, n=1):
        terms[t] = terms.get(t, 0) + n

    def rec(sg):
        nonlocal const
        for s in sg:
            k = s[0]
            if k == "c":
                const += len(s[1])
            elif k == "rep":
                if len(s[3]) == 1 and s[3][0][0] == "blob":
                    e = s[3][0][1]
                    if e[0] == "field" and e[1] == ("elem", s[1], s[2]):
                        add((L.freeze(L.strip_ids(s[1])), e[2]))
                        continue
                return False
            elif k == "perm":
                if rec(s[2]) is False:
                    return False
            elif k == "ploop":
                for p in s[3]:
                    if rec([p] if p[0] == "rep" else p[1]) is False:
                        return False
            else:
                return False
        return True
    if rec(segs) is False:
        return None
    return const, terms


ACCUM_HELPERS = {}     # HIR path -> (accumulator arg, collection arg, payload field); filled by register_accum_helpers


def register_accum_helpers(unit):
    from . import absint as _A
    from . import mir as _mir
    ACCUM_HELPERS.clear()
    for fn, b in unit.bodies.items():
        if b["in_test_cfg"] or b.get("kind") == "Closure" or b["argc"] != 2:
            continue
        if not b["locals"][0]["ty"].startswith("std::result::Result<"):
            continue
        try:
            sm = _A.accum_helper_summary(unit, fn)
        except Exception:
            sm = None
        if sm is not None and sm[2]:
            for hp in unit.hir:
                if _mir.norm(hp) == _mir.norm(fn):
                    ACCUM_HELPERS[hp] = sm


def sigma_expr(e):
    """same normal form for a scalar size expression built from literals, Add, casts and sums of len(elem.field)"""
    const, terms = 0, {}

    def rec(x):
        nonlocal const
        while x[0] == "cast":
            x = x[2]
        if x[0] == "lit":
            const += x[1]
            return True
        if x[0] == "bin" and x[1] == "Add":
            return rec(x[2]) and rec(x[3])
        if x[0] == "sum":
            if not rec(x[1]):
                return False
            g = x[4]
            while g[0] == "cast":
                g = g[2]
            if g[0] == "len" and g[1][0] == "field" and g[1][1] == ("elem", x[2], x[3]):
                t = (L.freeze(L.strip_ids(x[2])), g[1][2])
                terms[t] = terms.get(t, 0) + 1
                return True
            return False
        if x[0] in ("okval", "unwrapped") and x[1][0] == "call" and x[1][1] in ACCUM_HELPERS and len(x[1][2]) == 2:
            # a local helper recognised on MIR as `acc + sum of len(elem.<field>)` through checked additions (absint.accum_helper_summary)
            acc_i, coll_i, fld = ACCUM_HELPERS[x[1][1]]
            if not rec(x[1][2][acc_i]):
                return False
            t = (L.freeze(L.strip_ids(x[1][2][coll_i])), fld)
            terms[t] = terms.get(t, 0) + 1
            return True
        if x[0] == "mcall" and x[1].endswith("Iterator::sum"):
            # samples.iter().map(|s| s.data.len()).sum()
            r = x[2]
            if r[0] == "mcall" and r[1].endswith("Iterator::map") and r[3] and r[3][0][0] == "lambda":
                lam = r[3][0]
                g = lam[2]
                while g[0] == "cast":
                    g = g[2]
                base = r[2]
                while base[0] == "mcall" and base[1].split("::")[-1] in ("iter", "into_iter"):
                    base = base[2]
                if g[0] == "len" and g[1][0] == "field" and g[1][1][0] == "elem" and g[1][1][1] == base:
                    t = (L.freeze(L.strip_ids(base)), g[1][2])
                    terms[t] = terms.get(t, 0) + 1
                    return True
            return False
        return False
    if not rec(e):
        return None
    return const, terms


# ----------------------------------------------------------------------------------------
# monotone timestamp field of a queue (MIR)


def monotone_fields(cx, queue_field):
    """fields of the queued sample struct that the writer enforces to be monotone in queue order:
    the struct fields fed from the parameter that is (i) compared against a `previous` state field on an error
    guard and (ii) stored into that state field.  Returns {field: 'strict'|'nonstrict'} and the writer fn."""
    u = cx.u
    res = {}
    writer = None
    for p, b in cx.live.items():
        pushes = []
        for bb, t, name, info in mir.calls(b):
            if name and mir.norm(name) == "std::vec::Vec::push" and t["args"]:
                tg = mir.place_value_origins(b, t["args"][0]["place"]) if t["args"][0]["k"] in ("copy", "move") else set()
                if any(r == ("arg", 1) and pa == (queue_field,) for (r, pa) in tg):
                    pushes.append((bb, t))
        if not pushes:
            continue
        writer = p
        for (bb, t) in pushes:
            e = sym.expr(b, t["args"][1])
            if e[0] != "agg":
                continue
            fields = dict(zip(e[2], e[3]))
            # parameters compared with and stored to a prev-state field
            mono_params = {}
            for blk in b["blocks"]:
                tt = blk["term"]
                if tt["k"] != "switch" or blk["cleanup"]:
                    continue
                ce = sym.expr(b, tt["discr"])
                if ce[0] == "bin" and ce[1] in ("Le", "Lt", "Ge", "Gt"):
                    a_, b_ = ce[2], ce[3]
                    par = a_ if a_[0] == "arg" else (b_ if b_[0] == "arg" else None)
                    oth = b_ if par is a_ else a_
                    if par is None:
                        continue
                    loads = {x[1] for x in sym.sources(oth) if x[0] == "load"} | \
                            {str(w) for w in sym.walk(oth) if isinstance(w, tuple) and w and w[0] == "proj"}
                    st_fields = set()
                    for w in sym.walk(oth):
                        if isinstance(w, tuple) and w and w[0] == "load":
                            st_fields.add(w[1])
                    # does a store `state = Some(par)` exist for a state field mentioned in the comparison?
                    for (sbb, si, (root, path), why, node) in cx.st.sites[p]:
                        if why.startswith("assign") and root == ("arg", 1) and node["k"] == "assign":
                            ve = sym.expr_rv(b, node["rv"])
                            if any(x == par for x in sym.walk(ve)) and any(("arg1." + ".".join(path)) in sf or sf.startswith("arg1." + path[0]) for sf in st_fields):
                                strict = ce[1] in ("Le", "Ge")
                                mono_params[par[1]] = "strict" if strict else "nonstrict"
            for fname, fe in fields.items():
                x = fe
                while x[0] == "cast":
                    x = x[4]
                if x[0] == "arg" and x[1] in mono_params:
                    res[fname] = mono_params[x[1]]
    return res, writer
