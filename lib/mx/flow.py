"""Result/Option control-flow idioms on MIR: `?` edges, error exits, ok exits."""
from . import mir, sym

TRY_BRANCH = ("<std::result::Result<T, E> as std::ops::Try>::branch", "<std::option::Option<T> as std::ops::Try>::branch")
FROM_RESIDUAL = "::from_residual"
PASS_THROUGH = ("anyhow::context::with_context", "anyhow::Context::with_context", "anyhow::context::context", "std::result::Result::map_err", "std::result::Result::map", "std::option::Option::ok_or",
                "std::option::Option::ok_or_else", "std::option::Option::map")


def strip_passthrough(e):
    """peel Result::map_err / map / ok_or wrappers off an expression; returns the inner expression"""
    while isinstance(e, tuple) and e and e[0] == "call" and e[1] in PASS_THROUGH and e[2]:
        e = e[2][0]
    return e


def try_sites(body):
    """list of dicts: {bb (block of the Try::branch call), src (expr of the operand, wrappers peeled),
    src_call_bb (block of the call that produced the Result, or None), cont, brk}"""
    if "_try" in body:
        return body["_try"]
    out = []
    for bb, t, name, info in mir.calls(body):
        if name and mir.norm(name) in TRY_BRANCH:
            e = sym.expr(body, t["args"][0])
            inner = strip_passthrough(e)
            src_bb = inner[4] if isinstance(inner, tuple) and inner and inner[0] == "call" and len(inner) > 4 else None
            cont = brk = None
            nb = t.get("target")
            if nb is not None:
                sw = body["blocks"][nb]["term"]
                if sw["k"] == "switch":
                    for v, tgt in sw["arms"]:
                        if v == "0":
                            cont = tgt
                        elif v == "1":
                            brk = tgt
            out.append({"bb": bb, "src": inner, "raw": e, "src_call_bb": src_bb, "cont": cont, "brk": brk,
                        "loc": mir.loc_of(t)})
    body["_try"] = out
    return out


def _ret_kind(body):
    ty = body["locals"][0]["ty"]
    if ty.startswith("std::result::Result<"):
        return "result"
    if ty.startswith("std::option::Option<"):
        return "option"
    return None


def exits(body):
    """classify the definitions of the return place: list of dicts {bb, kind, node}
    kind: 'err' (explicit Err/None aggregate), 'residual' (`?` propagation), 'ok' (Ok/Some aggregate),
          'deleg' (direct result of a call), 'other'"""
    if "_exits" in body:
        return body["_exits"]
    rk = _ret_kind(body)
    out = []
    live = mir.live_blocks(body)

    def classify_rv(rv, bb, node, depth=0):
        if rv["k"] == "aggregate" and rv.get("agg") == "adt":
            v = rv["variant"]
            if v in ("Err", "None"):
                return [{"bb": bb, "kind": "err", "node": node, "variant": v}]
            if v in ("Ok", "Some"):
                return [{"bb": bb, "kind": "ok", "node": node, "variant": v}]
        if rv["k"] == "use" and rv["op"]["k"] in ("copy", "move") and not rv["op"]["place"]["p"] and depth < 6:
            l = rv["op"]["place"]["l"]
            res = []
            for d in mir.defs(body).get(l, []):
                if d[0] == "stmt":
                    res += classify_rv(d[3]["rv"], d[1], d[3], depth + 1)
                else:
                    res += classify_call(d[2], d[1])
            # the value is *moved into* the return place in block bb; report the defining block for
            # reachability (the store to _0 happens later but on the same path)
            return res or [{"bb": bb, "kind": "other", "node": node}]
        if rv["k"] == "use" and rv["op"]["k"] == "const":
            return [{"bb": bb, "kind": "other", "node": node}]
        return [{"bb": bb, "kind": "other", "node": node}]

    def classify_call(t, bb):
        name, info = mir.callee(t)
        nm = mir.norm(name) if name else ""
        if nm.endswith(FROM_RESIDUAL):
            return [{"bb": bb, "kind": "residual", "node": t}]
        return [{"bb": bb, "kind": "deleg", "node": t, "callee": name}]

    for blk in body["blocks"]:
        if blk["cleanup"] or blk["i"] not in live:
            continue
        for st in blk["stmts"]:
            if st["k"] == "assign" and st["place"]["l"] == 0 and not st["place"]["p"]:
                out += classify_rv(st["rv"], blk["i"], st)
        t = blk["term"]
        if t["k"] == "call" and t["dest"]["l"] == 0 and not t["dest"]["p"]:
            out += classify_call(t, blk["i"])
    body["_exits"] = out
    body["_retkind"] = rk
    return out


def error_exits(body):
    return [e for e in exits(body) if e["kind"] in ("err", "residual")]


def ok_exits(body):
    return [e for e in exits(body) if e["kind"] == "ok"]
