"""A5 — guard extraction: the branch conditions that dominate a block."""
from . import mir, sym


def guards_of(body, bb):
    """[(switch_bb, discr_expr, taken)] for every switch whose taken successor dominates `bb` exclusively.
    taken = ('eq', value_str) for an explicit arm, ('ne', [values]) for the otherwise edge."""
    dom = mir.dominators(body)
    pr = mir.preds(body)
    out = []
    for s in sorted(dom.get(bb, ())):
        t = body["blocks"][s]["term"]
        if t["k"] != "switch":
            continue
        succs = [(("eq", v), tgt) for v, tgt in t["arms"]] + [(("ne", [v for v, _ in t["arms"]]), t["otherwise"])]
        for taken, tgt in succs:
            if tgt == s:
                continue
            if (tgt in dom[bb] or tgt == bb) and set(pr[tgt]) == {s} and sum(1 for _, t2 in succs if t2 == tgt) == 1:
                out.append((s, sym.expr(body, t["discr"]), taken))
    return out


def truth(taken):
    """for boolean discriminants: True / False / None"""
    if taken[0] == "eq":
        return taken[1] != "0"
    if taken[0] == "ne" and taken[1] == ["0"]:
        return True
    return None


def atoms(e, positive=True):
    """flatten a boolean expression into (predicate-kind, operands, polarity) atoms (conjunction under the given polarity
    is not tracked: each atom is a condition that *contributes* to the branch)"""
    out = []
    if not isinstance(e, tuple) or not e:
        return out
    if e[0] == "un" and e[1] == "Not":
        return atoms(e[2], not positive)
    if e[0] == "bin" and e[1] in ("Eq", "Ne", "Lt", "Le", "Gt", "Ge"):
        out.append(("cmp:" + e[1], (e[2], e[3]), positive))
    elif e[0] == "call":
        out.append(("call:" + e[1], e[2], positive))
    elif e[0] in ("load", "arg", "var", "proj", "discr"):
        out.append(("flag", (e,), positive))
    elif e[0] == "cast":
        return atoms(e[4], positive)
    return out
