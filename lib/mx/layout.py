"""A8 — layout interpreter over the typed HIR.

Abstractly interprets byte-producing functions and yields a *production*: a list of segments
  ('c', bytes)                 constant bytes
  ('be', expr, n)              n-byte big-endian integer field holding `expr`   (('le', ..) likewise)
  ('u8', expr)                 one byte holding `expr`
  ('blob', expr)               the bytes of a slice / Vec / str value, verbatim; width len(expr)
  ('box', typ_segs, segs)      result of the box constructor: be32(8+len(payload)) ++ typ ++ payload
  ('alt', cond, segsT, segsF)  if / if-let
  ('match', scrut, [(pat, segs), ..])
  ('rep', coll, loopid, segs)  for-loop over `coll`, in order
Scalar expressions are small tuple trees (see `ev`).  Anything that touches a tracked buffer in a way the
interpreter does not understand raises Unanalysable (callers fail closed)."""
import os
import re


class Unanalysable(Exception):
    pass


INT_W = {"u8": 1, "i8": 1, "u16": 2, "i16": 2, "u32": 4, "i32": 4, "u64": 8, "i64": 8, "u128": 16, "i128": 16, "usize": 8, "isize": 8}
BYTEVEC = ("std::vec::Vec<u8>",)


def is_bytes_ty(ty):
    ty = ty.lstrip("&").replace("mut ", "").strip()
    return ty in BYTEVEC or re.fullmatch(r"\[u8; \d+\]", ty) is not None or ty == "[u8]"


def strip_generics(p):
    out, depth = [], 0
    i = 0
    while i < len(p):
        c = p[i]
        if c == "<" and "".join(out).endswith("::"):
            depth += 1
            out = out[:-2]
        elif depth and c == "<":
            depth += 1
        elif depth and c == ">" and p[i - 1] != "-":
            depth -= 1
        elif not depth:
            out.append(c)
        i += 1
    return "".join(out)


SCALAR_RET = ("u8", "u16", "u32", "u64", "usize", "i8", "i16", "i32", "i64", "isize", "bool")


class Leaf:
    def __init__(self, status, value, env):
        self.status, self.value, self.env = status, value, env


class Split:
    def __init__(self, cond, t, f):
        self.cond, self.t, self.f = cond, t, f


UNIT = ("unit",)
SEQ = ("buf", "list")


def lit(v):
    return ("lit", v)


def fold_bin(op, a, b):
    if op == "Or":
        if a == ("bool", True) or b == ("bool", True):
            return ("bool", True)
        if a == ("bool", False):
            return b
        if b == ("bool", False):
            return a
    if op == "And":
        if a == ("bool", False) or b == ("bool", False):
            return ("bool", False)
        if a == ("bool", True):
            return b
        if b == ("bool", True):
            return a
    if a[0] == "lit" and b[0] == "lit" and isinstance(a[1], int) and isinstance(b[1], int):
        x, y = a[1], b[1]
        try:
            r = {"Add": x + y, "Sub": x - y, "Mul": x * y, "BitOr": x | y, "BitAnd": x & y, "BitXor": x ^ y,
                 "Shl": x << y if 0 <= y < 256 else None, "Shr": x >> y if 0 <= y < 256 else None,
                 "Div": x // y if y else None, "Rem": x % y if y else None}.get(op)
        except Exception:
            r = None
        if r is not None:
            return lit(r)
        cmp_ = {"Eq": x == y, "Ne": x != y, "Lt": x < y, "Le": x <= y, "Gt": x > y, "Ge": x >= y}.get(op)
        if cmp_ is not None:
            return ("bool", cmp_)
    # `buf.len() == 0` is `buf.is_empty()` (one canonical spelling of the emptiness test of a tracked buffer)
    for x_, y_ in ((a, b), (b, a)):
        if x_[0] == "len" and isinstance(x_[1], tuple) and x_[1][:1] == ("bufval",) and y_ == ("lit", 0):
            if op == "Eq":
                return ("empty", x_[1])
            if op in ("Ne",) or (op == "Gt" and x_ is a) or (op == "Lt" and x_ is b):
                return ("un", "Not", ("empty", x_[1]))
    return ("bin", op, a, b)


def common_prefix(a, b):
    n = 0
    while n < len(a) and n < len(b) and a[n] == b[n]:
        n += 1
    return n


class Interp:
    def __init__(self, unit, box_builders=None, sink_helper=None):
        self.u = unit
        self.hir = unit.hir
        self.loopn = 0
        self.depth = 0
        self.sink_helper = sink_helper     # def path of the counted sink writer (file productions)
        self.struct_fns = {}
        self.box_builders = box_builders if box_builders is not None else self.find_box_builders()
        self.trace = []

    # ------------------------------------------------------------------------------------
    def is_producer(self, path):
        h = self.hir.get(path)
        if not h:
            return False
        r = h["ret"]
        return r in BYTEVEC or re.fullmatch(r"\[u8; \d+\]", r) is not None

    def find_box_builders(self):
        """local functions (typ: &[u8;4], payload: &[u8]) -> Vec<u8> whose production is
        be32(8 + len(payload)) ++ typ ++ payload"""
        self.box_builders = set()
        out = {}
        for path, h in self.hir.items():
            if h["ret"] not in BYTEVEC or len(h["params"]) != 2:
                continue
            if h["params"][0]["ty"].replace("'_ ", "") not in ("&[u8; 4]",) or not h["params"][1]["ty"].endswith("[u8]"):
                continue
            try:
                segs = self.production(path)
            except Unanalysable:
                continue
            out[path] = segs
        return out

    def box_shape_ok(self, path):
        """check the box constructor's own production (C02.R1): size field = 8 + len(payload) = total width"""
        segs = self.box_builders.get(path)
        if not segs or len(segs) != 3:
            return False, "production has %d segments" % (len(segs) if segs else 0)
        s0, s1, s2 = segs
        pn = [p["pat"].get("name") for p in self.hir[path]["params"]]
        ok1 = s1 == ("blob", ("param", pn[0])) and s2 == ("blob", ("param", pn[1]))
        e = s0[1] if s0[0] == "be" else None
        while e and e[0] == "cast":
            e = e[2]
        ok0 = s0[0] == "be" and s0[2] == 4 and e in (("bin", "Add", lit(8), ("len", ("param", pn[1]))), ("bin", "Add", ("len", ("param", pn[1])), lit(8)))
        return (ok0 and ok1), "size=%s, then %s, %s" % (show(s0), show(s1), show(s2))

    # ------------------------------------------------------------------------------------
    def production(self, path, args=None):
        """segments produced by local function `path`; args: list of values (default: symbolic params)"""
        h = self.hir[path]
        env = {}
        for i, p in enumerate(h["params"]):
            v = args[i] if args is not None else ("param", p["pat"].get("name", "_%d" % i))
            self.bind(p["pat"], v, env)
        self.depth += 1
        if self.depth > 40:
            raise Unanalysable("inlining too deep at " + path)
        try:
            tree = self.exec_expr_tree(h["body"], env)
            val = self.collapse_value(tree)
        finally:
            self.depth -= 1
        if val[0] == "if" and val[3][0] == "buf" and val[2][0] != "buf":
            # `if let Some(cached) = self.cache { return cached.clone() }; build..` — the production is the
            # built branch; the cached branch is recorded for the rules that care (C11.R3)
            self.cache_returns = getattr(self, "cache_returns", {})
            self.cache_returns[path] = (val[1], val[2])
            return val[3][1]
        if val[0] == "matchv" and len(val) > 2:
            # `match self.cache { Some(cached) => cached.clone(), None => { build.. } }` - the same cache idiom spelled with match
            arms = dict(val[2]) if all(isinstance(a, tuple) and len(a) == 2 for a in val[2]) else {}
            some = [v for k_, v in arms.items() if str(k_).endswith("Some")]
            none = [v for k_, v in arms.items() if str(k_).endswith("None")]
            if len(some) == 1 and len(none) == 1 and none[0][0] == "buf" and some[0][0] == "payload" and some[0][1] == val[1]:
                self.cache_returns = getattr(self, "cache_returns", {})
                self.cache_returns[path] = (("is", val[1], "std::prelude::v1::Some"), some[0])
                return none[0][1]
        if val[0] != "buf":
            raise Unanalysable("%s does not evaluate to a byte buffer: %s" % (path, show(val)[:300]))
        return val[1]

    # ------------------------------------------------------------------------------------
    # outcome trees
    def map_fall(self, tree, f):
        if isinstance(tree, Leaf):
            if tree.status == "fall":
                return f(tree.env)
            return tree
        return Split(tree.cond, self.map_fall(tree.t, f), self.map_fall(tree.f, f))

    def collapse_value(self, tree):
        """value of a tree whose leaves all carry a value (function end)"""
        if isinstance(tree, Leaf):
            return tree.value
        a, b = self.collapse_value(tree.t), self.collapse_value(tree.f)
        return self.if_value(tree.cond, a, b)

    def if_value(self, c, a, b):
        if a == b:
            return a
        if c == ("bool", True):
            return a
        if c == ("bool", False):
            return b
        if a[0] in SEQ and b[0] == a[0]:
            n = common_prefix(a[1], b[1])
            return (a[0], a[1][:n] + [("alt", c, a[1][n:], b[1][n:])])
        if a[0] == "tuple" and b[0] == "tuple" and len(a[1]) == len(b[1]):
            return ("tuple", [self.if_value(c, x, y) for x, y in zip(a[1], b[1])])
        return ("if", c, a, b)

    def merge_env(self, c, e1, e2):
        out = {}
        for k in e1:
            if k in e2:
                out[k] = self.if_value(c, e1[k], e2[k])
        return out

    def is_err_leaf(self, tree):
        return isinstance(tree, Leaf) and tree.status == "ret" and tree.value[0] == "err"

    def collapse_env(self, tree, allowed=("fall", "cont")):
        if isinstance(tree, Leaf):
            if tree.status not in allowed:
                raise Unanalysable("loop body leaves with `%s`" % tree.status)
            return tree.env
        # error propagation out of a loop body / branch: production is stated for the successful run
        if self.is_err_leaf(tree.t):
            return self.collapse_env(tree.f, allowed)
        if self.is_err_leaf(tree.f):
            return self.collapse_env(tree.t, allowed)
        return self.merge_env(tree.cond, self.collapse_env(tree.t, allowed), self.collapse_env(tree.f, allowed))

    # ------------------------------------------------------------------------------------
    def bind(self, pat, v, env):
        k = pat["k"]
        if k == "bind":
            env[pat["id"]] = v
            if pat.get("sub"):
                self.bind(pat["sub"], v, env)
        elif k == "wild":
            pass
        elif k == "ref":
            self.bind(pat["p"], v, env)
        elif k == "tuple":
            if v[0] == "matchv" and all(x[1][0] == "tuple" for x in v[2]):
                v = self.match_value(v[1], list(v[2]))
            for i, p in enumerate(pat["ps"]):
                if v[0] == "tuple" and i < len(v[1]):
                    self.bind(p, v[1][i], env)
                else:
                    self.bind(p, ("tfield", v, i), env)
        elif k == "tuplestruct":
            if v[0] == "if" and v[2][0] == "some" and v[3][0] == "none" and pat.get("def", "").endswith("Some"):
                v = v[2]
            for i, p in enumerate(pat["ps"]):
                if v[0] == "some" and pat.get("def", "").endswith("Some"):
                    self.bind(p, v[1], env)
                elif v[0] == "ctor" and v[1] == pat.get("def") and i < len(v[2]):
                    self.bind(p, v[2][i], env)
                else:
                    self.bind(p, ("payload", v, pat.get("def", "?").split("::")[-1], i), env)
        elif k == "struct":
            if v[0] == "if" and v[2][0] == "some" and v[3][0] == "none" and pat.get("def", "").endswith("Some"):
                v = v[2]
            for f in pat["fields"]:
                if v[0] == "some" and pat.get("def", "").endswith("Some") and f["name"] == "0":
                    self.bind(f["pat"], v[1], env)
                else:
                    self.bind(f["pat"], ("field", v, f["name"]), env)
        elif k in ("expr", "range", "or", "slice"):
            pass
        else:
            raise Unanalysable("pattern kind " + k)

    def pat_desc(self, pat):
        k = pat["k"]
        if k == "bind":
            return pat["name"]
        if k == "wild":
            return "_"
        if k in ("tuplestruct", "struct"):
            return pat.get("def", "?")
        if k == "expr":
            if "lit" in pat:
                return str(pat.get("v"))
            return pat.get("def", "?")
        if k == "or":
            return "|".join(self.pat_desc(p) for p in pat["ps"])
        if k == "ref":
            return self.pat_desc(pat["p"])
        if k == "tuple":
            return "(" + ",".join(self.pat_desc(p) for p in pat["ps"]) + ")"
        return k

    # ------------------------------------------------------------------------------------
    def mentions_buf(self, e, env):
        """does HIR expression e mention a local currently bound to a tracked buffer?"""
        if isinstance(e, dict):
            if e.get("k") == "path" and e.get("res") == "local" and env.get(e.get("id"), ("x",))[0] == "buf":
                return True
            return any(self.mentions_buf(v, env) for v in e.values())
        if isinstance(e, list):
            return any(self.mentions_buf(v, env) for v in e)
        return False

    def exec_block_tree(self, blk, env):
        tree = Leaf("fall", UNIT, env)
        for s in blk["stmts"]:
            tree = self.map_fall(tree, lambda en, s=s: self.exec_stmt(s, en))
        if "expr" in blk:
            tree = self.map_fall(tree, lambda en: self.exec_expr_tree(blk["expr"], en))
        return tree

    def exec_stmt(self, s, env):
        kind = s["s"]
        if kind == "item":
            return Leaf("fall", UNIT, env)
        if kind == "let":
            if "init" not in s:
                self.bind(s["pat"], ("uninit",), env)
                return Leaf("fall", UNIT, env)
            tree = self.exec_expr_tree(s["init"], env)

            def after(t):
                if isinstance(t, Leaf):
                    if t.status == "fall":
                        self.bind(s["pat"], t.value, t.env)
                        return Leaf("fall", UNIT, t.env)
                    return t
                return Split(t.cond, after(t.t), after(t.f))
            return after(tree)
        tree = self.exec_expr_tree(s["e"], env)

        def drop(t):
            if isinstance(t, Leaf):
                return Leaf(t.status, UNIT if t.status == "fall" else t.value, t.env)
            return Split(t.cond, drop(t.t), drop(t.f))
        return drop(tree)

    def exec_expr_tree(self, e, env):
        """execute expression e (which may contain control flow / buffer mutation); returns outcome tree whose
        fall leaves carry the expression's value"""
        k = e["k"]
        if k == "block":
            child = env   # Rust scoping is by unique binding id, sharing the dict is safe
            return self.exec_block_tree(e["b"], child)
        if k in ("droptemps", "type"):
            return self.exec_expr_tree(e["a"], env)
        if k == "ret":
            if "v" in e:
                t = self.exec_expr_tree(e["v"], env)

                def mk(t):
                    if isinstance(t, Leaf):
                        return Leaf("ret", t.value, t.env) if t.status == "fall" else t
                    return Split(t.cond, mk(t.t), mk(t.f))
                return mk(t)
            return Leaf("ret", UNIT, env)
        if k == "continue":
            return Leaf("cont", UNIT, env)
        if k == "break":
            return Leaf("brk", UNIT, env)
        if k == "if":
            return self.exec_if(e, env)
        if k == "match":
            if e.get("src", "").startswith("ForLoopDesugar"):
                return self.exec_for(e, env)
            if e.get("src", "").startswith("TryDesugar"):
                inner = e["scrut"]["args"][0]
                t = self.exec_expr_tree(inner, env)

                def after(t):
                    if isinstance(t, Leaf):
                        if t.status == "fall":
                            return Leaf("fall", self.okval(t.value), t.env)
                        return t
                    return Split(t.cond, after(t.t), after(t.f))
                return after(t)
            return self.exec_match(e, env)
        if k == "call" and self.sink_helper and e["f"].get("k") == "path" and (e["f"].get("callee") or e["f"].get("def")) == self.sink_helper:
            arg = self.ev(e["args"][-1], env)
            cur = env.get("$file", ("buf", []))
            env["$file"] = ("buf", cur[1] + self.bytes_of(arg))
            return Leaf("fall", ("sinkok",), env)
        if k == "loop":
            raise Unanalysable("`loop`/`while` at line %s" % e["sp"][0])
        if k in ("call", "mcall"):
            ap = self.appender_call(e, env)
            if ap is not None:
                return ap
        if k == "mcall" and self.is_buf_mutation(e, env):
            return self.exec_mutation(e, env)
        if k == "assign":
            return self.exec_assign(e, env)
        if k == "assignop":
            l = e["l"]
            if l["k"] == "path" and l.get("res") == "local":
                cur = env.get(l["id"], ("var", l["id"]))
                if cur[0] == "buf":
                    raise Unanalysable("compound assignment to a buffer")
                env[l["id"]] = fold_bin(e["op"].replace("Assign", ""), cur, self.ev(e["r"], env))
                return Leaf("fall", UNIT, env)
            if self.mentions_buf(e, env):
                raise Unanalysable("compound assignment involving a buffer")
            return Leaf("fall", UNIT, env)
        # plain expression
        return Leaf("fall", self.ev(e, env), env)

    def tracked_mut_arg(self, a, env):
        """local id of the tracked sequence if HIR argument `a` is `&mut <tracked local>` (or a `&mut` alias of one)"""
        r = a
        while r["k"] in ("droptemps", "type"):
            r = r["a"]
        if r["k"] == "addrof" and r.get("mut"):
            r = r["a"]
            while r["k"] in ("droptemps", "type", "deref"):
                r = r["a"]
            if r["k"] == "path" and r.get("res") == "local":
                v = env.get(r["id"], ("x",))
                if v[0] in SEQ:
                    return r["id"]
                if v[0] == "alias" and env.get(v[1], ("x",))[0] in SEQ:
                    return v[1]
            return None
        if r["k"] == "path" and r.get("res") == "local" and env.get(r["id"], ("x",))[0] == "alias" and env.get(env[r["id"]][1], ("x",))[0] in SEQ \
                and str(r.get("ty", r.get("aty", ""))).startswith("&mut"):
            return env[r["id"]][1]
        return None

    def appender_call(self, e, env):
        """`helper(&mut out, ..)` where `out` is a tracked buffer/list and `helper` is a local function: the helper is interpreted with
        a fresh empty sequence for that parameter, and what it appended is appended to the caller's sequence.  None if not of that form."""
        if e["k"] == "call":
            f = e["f"]
            if f.get("k") != "path":
                return None
            name = f.get("callee") or f.get("def")
            hargs = list(e["args"])
        else:
            name = e.get("callee") or e.get("decl")
            hargs = [e["recv"]] + list(e["args"])
        if not name or name not in self.hir or (self.sink_helper and name == self.sink_helper):
            return None
        tracked = {i: self.tracked_mut_arg(a, env) for i, a in enumerate(hargs)}
        tracked = {i: v for i, v in tracked.items() if v is not None}
        if not tracked:
            return None
        h = self.hir[name]
        if len(h["params"]) != len(hargs) or self.depth > 12:
            return None
        cenv = {}
        pids = {}
        for i, p in enumerate(h["params"]):
            if i in tracked:
                pat = p["pat"]
                if pat["k"] != "bind":
                    raise Unanalysable("appender helper %s destructures its buffer parameter" % name)
                cenv[pat["id"]] = (env[tracked[i]][0], [])
                pids[i] = pat["id"]
            else:
                self.bind(p["pat"], self.ev(hargs[i], env), cenv)
        self.depth += 1
        try:
            tree = self.exec_expr_tree(h["body"], cenv)
            fin = self.collapse_env(tree, allowed=("fall", "ret"))
            try:
                val = self.collapse_value(tree)
            except Exception:
                val = UNIT
        finally:
            self.depth -= 1
        for i, vid in tracked.items():
            added = fin.get(pids[i])
            if added is None or added[0] != env[vid][0]:
                raise Unanalysable("appender helper %s replaces its buffer parameter" % name)
            env[vid] = (env[vid][0], env[vid][1] + list(added[1]))
        return Leaf("fall", val, env)

    def okval(self, v):
        """value of `v?` on the success path"""
        if v[0] == "sinkok":
            return UNIT
        x = v
        if x[0] == "mcall" and x[1].split("::")[-1] in ("ok_or_else", "ok_or", "map_err"):
            x = x[2]
        if x[0] == "mcall" and x[1].endswith("checked_add") and x[3]:
            return fold_bin("Add", x[2], x[3][0])
        if x[0] == "mcall" and x[1].endswith("checked_sub") and x[3]:
            return fold_bin("Sub", x[2], x[3][0])
        if x[0] == "mcall" and x[1].endswith("checked_mul") and x[3]:
            return fold_bin("Mul", x[2], x[3][0])
        if x is not v:
            return ("unwrapped", x)
        return ("okval", v)

    def exec_assign(self, e, env):
        l = e["l"]
        if l["k"] == "path" and l.get("res") == "local":
            t = self.exec_expr_tree(e["r"], env)

            def after(t):
                if isinstance(t, Leaf):
                    if t.status == "fall":
                        t.env[l["id"]] = t.value
                        return Leaf("fall", UNIT, t.env)
                    return t
                return Split(t.cond, after(t.t), after(t.f))
            return after(t)
        if l["k"] == "field" and l["base"].get("k") == "path" and l["base"].get("res") == "local":
            # `s.field = v` on a local holding a struct value (builder-style setters): the struct value is updated
            cur = env.get(l["base"]["id"])
            if cur is not None and cur[0] == "struct":
                fs = dict(cur[2])
                fs[l["name"]] = self.ev(e["r"], env)
                env[l["base"]["id"]] = ("struct", cur[1], fs)
                return Leaf("fall", UNIT, env)
        if self.mentions_buf(l, env):
            raise Unanalysable("assignment into a tracked buffer at line %s" % e["sp"][0])
        return Leaf("fall", UNIT, env)

    def struct_call(self, name, args):
        """value of a call of a local function that returns one of the crate's plain structs (constructor / `with_x(self, ..) -> Self`
        setter): the struct value with its fields, or None"""
        h = self.hir.get(name)
        if not h or self.depth > 12:
            return None
        adt = self.u.adts.get(h.get("ret", ""))
        if not adt or adt.get("kind") != "Struct":
            return None
        try:
            v = self.call_value(name, args)
        except (Unanalysable, RecursionError, KeyError, IndexError, TypeError):
            return None
        def is_struct(x):
            return x[0] == "struct" or (x[0] == "if" and is_struct(x[2]) and is_struct(x[3]))
        return v if is_struct(v) else None

    def cond_value(self, c, env, env_then):
        """evaluate an `if` condition; `let` patterns bind into env_then"""
        c0 = c
        while c0["k"] in ("droptemps", "type"):
            c0 = c0["a"]
        if c0["k"] == "let":
            init = self.ev(c0["init"], env)
            self.bind(c0["pat"], init, env_then)
            d = self.pat_desc(c0["pat"])
            if init[0] == "some" and d.endswith("Some"):
                return ("bool", True)
            if init[0] == "none" and d.endswith("Some"):
                return ("bool", False)
            if init[0] == "if" and init[2][0] == "some" and init[3][0] == "none" and d.endswith("Some"):
                return init[1]
            return ("is", init, d)
        if c0["k"] == "binary" and c0["op"] == "And":
            a = self.cond_value(c0["a"], env, env_then)
            b = self.cond_value(c0["b"], env_then, env_then)
            return ("bin", "And", a, b)
        return self.ev(c0, env)

    def exec_if(self, e, env):
        env_t = dict(env)
        c = self.cond_value(e["c"], env, env_t)
        env_f = dict(env)
        tt = self.exec_expr_tree(e["t"], env_t)
        ft = self.exec_expr_tree(e["e"], env_f) if "e" in e else Leaf("fall", UNIT, env_f)
        if c[0] == "un" and c[1] == "Not":
            # canonical polarity: `if !c {a} else {b}` is `if c {b} else {a}`
            c, tt, ft = c[2], ft, tt
        if c == ("bool", True):
            return tt
        if c == ("bool", False):
            return ft
        if isinstance(tt, Leaf) and isinstance(ft, Leaf) and tt.status == "fall" and ft.status == "fall":
            merged = self.merge_env(c, tt.env, ft.env)
            env.clear()
            env.update(merged)
            return Leaf("fall", self.if_value(c, tt.value, ft.value), env)
        return Split(c, tt, ft)

    def exec_match(self, e, env):
        scrut = self.ev(e["scrut"], env)
        if scrut[0] in ("some", "none"):
            for a in e["arms"]:
                pd = a["pat"]
                while pd["k"] == "ref":
                    pd = pd["p"]
                d = pd.get("def", "")
                if "guard" not in a and ((scrut[0] == "some" and d.endswith("Some")) or (scrut[0] == "none" and d.endswith("None"))):
                    self.bind(a["pat"], scrut, env)
                    return self.exec_expr_tree(a["body"], env)
        if scrut[0] == "ctor":
            for a in e["arms"]:
                pd = a["pat"]
                while pd["k"] == "ref":
                    pd = pd["p"]
                if pd.get("def") == scrut[1] and "guard" not in a:
                    en = env
                    self.bind(a["pat"], scrut, en)
                    return self.exec_expr_tree(a["body"], en)
        arms = []
        guarded = any("guard" in a for a in e["arms"])
        if guarded:
            # arms with `if` guards: a chain of tests in arm order (pattern test and guard), the last arm is the default
            tests = []
            for a in e["arms"]:
                en = dict(env)
                self.bind(a["pat"], scrut, en)
                c = ("is", scrut, self.pat_desc(a["pat"]))
                if "guard" in a:
                    g = self.ev(a["guard"], en)
                    c = ("bin", "And", c, g)
                tests.append((c, self.exec_expr_tree(a["body"], en)))
            tree = tests[-1][1]
            for (c, t) in reversed(tests[:-1]):
                tree = Split(c, t, tree)
            return tree
        for a in e["arms"]:
            en = dict(env)
            self.bind(a["pat"], scrut, en)
            t = self.exec_expr_tree(a["body"], en)
            arms.append((self.pat_desc(a["pat"]), t))
        if all(isinstance(t, Leaf) and t.status == "fall" for _, t in arms):
            # outer tracked buffers must be changed consistently: merge as alternatives
            vals = [t.value for _, t in arms]
            envs = [t.env for _, t in arms]
            merged = {}
            for k_ in env:
                vs = [en.get(k_) for en in envs]
                if all(v == vs[0] for v in vs):
                    merged[k_] = vs[0]
                elif all(v and v[0] in SEQ and v[0] == vs[0][0] for v in vs):
                    n = min(common_prefix(vs[0][1], v[1]) for v in vs)
                    merged[k_] = (vs[0][0], vs[0][1][:n] + [("match", scrut, [(p, v[1][n:]) for (p, _), v in zip(arms, vs)])])
                else:
                    merged[k_] = ("matchv", scrut, tuple((p, v) for (p, _), v in zip(arms, vs)))
            env.clear()
            env.update(merged)
            if all(v == vals[0] for v in vals):
                return Leaf("fall", vals[0], env)
            return Leaf("fall", self.match_value(scrut, [(p, v) for (p, _), v in zip(arms, vals)]), env)
        # arms with early exits: nest as splits
        tree = arms[-1][1]
        for (p, t) in reversed(arms[:-1]):
            tree = Split(("is", scrut, p), t, tree)
        return tree

    def match_value(self, scrut, pv):
        vals = [v for _, v in pv]
        if all(v[0] in SEQ and v[0] == vals[0][0] for v in vals):
            return (vals[0][0], [("match", scrut, [(p, v[1]) for p, v in pv])])
        if all(v[0] == "tuple" and len(v[1]) == len(vals[0][1]) for v in vals):
            return ("tuple", [self.match_value(scrut, [(p, v[1][i]) for p, v in pv]) for i in range(len(vals[0][1]))])
        # statically decidable scrutinee (Some/None)
        if scrut[0] == "some":
            for p, v in pv:
                if p.endswith("Some"):
                    return v
        if scrut[0] == "none":
            for p, v in pv:
                if p.endswith("None"):
                    return v
        return ("matchv", scrut, tuple(pv))

    def exec_for(self, e, env):
        """`for PAT in COLL { BODY }` (HIR desugaring: match into_iter(COLL) { mut iter => loop { match next(&mut iter) {None=>break, Some(PAT)=>BODY} } })"""
        coll_e = e["scrut"]["args"][0] if e["scrut"]["k"] == "call" else e["scrut"]
        loop = e["arms"][0]["body"]
        inner = loop["b"]["stmts"][0]["e"] if loop["b"]["stmts"] else loop["b"]["expr"]
        some_arm = [a for a in inner["arms"] if a["pat"].get("def", "").endswith("Some")][0]
        sp = some_arm["pat"]
        pat = sp["ps"][0] if sp["k"] == "tuplestruct" else sp["fields"][0]["pat"]
        body = some_arm["body"]
        coll = self.ev(coll_e, env)
        # concrete unrolling: array literal of scalars / literal range
        items = None
        if coll[0] == "array":
            items = list(coll[1])
        elif coll[0] == "range" and coll[1][0] == "lit" and coll[2][0] == "lit" and coll[2][1] - coll[1][1] <= 64:
            items = [lit(i) for i in range(coll[1][1], coll[2][1])]
        if items is not None:
            tree = Leaf("fall", UNIT, env)
            for it in items:
                def step(en, it=it):
                    self.bind(pat, it, en)
                    t = self.exec_expr_tree(body, en)
                    en2 = dict(self.collapse_env(t))
                    en.clear()
                    en.update(en2)
                    return Leaf("fall", UNIT, en)
                tree = self.map_fall(tree, step)
            return tree
        c2 = coll
        while c2[0] == "mcall" and c2[1].split("::")[-1] in ("iter", "into_iter", "copied", "cloned") and len(c2) > 2:
            c2 = c2[2]                    # `for x in list.iter().copied()` iterates the list itself
        if c2[0] == "list":
            coll = c2
        if coll[0] == "list":
            return self.exec_for_list(coll, pat, body, env)
        self.loopn += 1
        lid = "L%d" % self.loopn
        base, enumerated = coll, False
        filters = []
        while base[0] == "mcall" and (base[1].split("::")[-1] in ("iter", "into_iter", "enumerate", "copied", "cloned") or
                                      (base[1].split("::")[-1] == "filter" and not enumerated and len(base[3]) == 1 and base[3][0][0] == "lambda" and base[3][0][2] != ("?",))):
            if base[1].endswith("enumerate"):
                enumerated = True
            if base[1].split("::")[-1] == "filter":
                filters.append(base[3][0])      # `for x in it.filter(p) { B }` is `for x in it { if p(&x) { B } }`
            base = base[2]
        elem = ("elem", base, lid)
        if enumerated:
            elem = ("tuple", [("idx", base, lid), ("elem", base, lid)])
        en = dict(env)
        before = {k_: v for k_, v in env.items() if v[0] in SEQ}
        # sequences start empty inside the body so that what is appended per iteration is visible
        for k_, v in before.items():
            en[k_] = (v[0], [])
        assigned = self.assigned_locals(body)
        scal_before = {k_: v for k_, v in env.items() if v[0] not in SEQ and k_ in assigned}
        for k_ in scal_before:
            en[k_] = ("acc", k_, lid)        # value at the start of an iteration
        self.bind(pat, elem, en)
        t = self.exec_expr_tree(body, en)
        en2 = self.collapse_env(t)
        for k_, v in before.items():
            app = en2.get(k_, (v[0], []))
            if app[0] != v[0]:
                raise Unanalysable("sequence rebound inside loop")
            if app[1]:
                body_segs = app[1]
                for lam in filters:
                    c = subst_lid(lam[2], lam[1], lid)
                    body_segs = [("alt", c[2], [], body_segs)] if c[0] == "un" and c[1] == "Not" else [("alt", c, body_segs, [])]
                env[k_] = (v[0], v[1] + [("rep", base, lid, body_segs)])
        if filters and scal_before:
            raise Unanalysable("filtered loop updates scalars")
        for k_, v in scal_before.items():
            if k_ in en2 and en2[k_] != ("acc", k_, lid):
                step = en2[k_]
                # recognise sums: acc + g(elem)
                if step[0] == "bin" and step[1] == "Add" and step[2] == ("acc", k_, lid):
                    env[k_] = ("sum", v, base, lid, step[3])
                else:
                    env[k_] = ("fold", v, base, lid, step)
            else:
                env[k_] = v
        return Leaf("fall", UNIT, env)

    def exec_for_list(self, coll, pat, body, env):
        """iterate a *known* list value: the body is instantiated per list item, mirroring the list's structure
        (repetitions, permuted loops, alternatives); a sorted list yields a `perm` wrapper"""
        segs = coll[1]
        self.loopn += 1
        lid = "P%d" % self.loopn
        seqs = {k_: v for k_, v in env.items() if v[0] in SEQ}
        assigned = self.assigned_locals(body)
        scal = {k_: v for k_, v in env.items() if v[0] not in SEQ and k_ in assigned}

        def run_item(x):
            en = dict(env)
            for k_, v in seqs.items():
                en[k_] = (v[0], [])
            for k_ in scal:
                en[k_] = ("acc", k_, lid)
            self.bind(pat, x, en)
            t = self.exec_expr_tree(body, en)
            en2 = self.collapse_env(t)
            app = {k_: list(en2.get(k_, (v[0], []))[1]) for k_, v in seqs.items()}
            steps = {k_: [("step", en2[k_])] if (k_ in en2 and en2[k_] != ("acc", k_, lid)) else [] for k_ in scal}
            return app, steps

        def empty():
            return {k_: [] for k_ in seqs}, {k_: [] for k_ in scal}

        def add(dst, src):
            for k_ in dst[0]:
                dst[0][k_] += src[0][k_]
            for k_ in dst[1]:
                dst[1][k_] += src[1][k_]

        def wrap(res, mk):
            return ({k_: ([mk(v)] if v else []) for k_, v in res[0].items()}, {k_: ([mk(v)] if v else []) for k_, v in res[1].items()})

        def inst(sgs):
            out = empty()
            for sg in sgs:
                h = sg[0]
                if h == "item":
                    add(out, run_item(sg[1]))
                elif h == "rep":
                    add(out, wrap(inst(sg[3]), lambda v, sg=sg: ("rep", sg[1], sg[2], v)))
                elif h == "perm":
                    add(out, wrap(inst(sg[2]), lambda v, sg=sg: ("perm", sg[1], v)))
                elif h == "ploop":
                    parts = [inst([p] if p[0] == "rep" else p[1]) for p in sg[3]]
                    res = empty()
                    for k_ in res[0]:
                        pk = [("part", pr[0][k_]) for pr in parts]
                        if any(x[1] for x in pk):
                            res[0][k_] = [("ploop", sg[1], sg[2], pk)]
                    for k_ in res[1]:
                        pk = [("part", pr[1][k_]) for pr in parts]
                        if any(x[1] for x in pk):
                            res[1][k_] = [("ploop", sg[1], sg[2], pk)]
                    add(out, res)
                elif h == "alt":
                    a_, b_ = inst(sg[2]), inst(sg[3])
                    res = empty()
                    for i_ in (0, 1):
                        for k_ in res[i_]:
                            if a_[i_][k_] or b_[i_][k_]:
                                res[i_][k_] = [("alt", sg[1], a_[i_][k_], b_[i_][k_])]
                    add(out, res)
                elif h == "match":
                    arms = [(p_, inst(x)) for p_, x in sg[2]]
                    res = empty()
                    for i_ in (0, 1):
                        for k_ in res[i_]:
                            if any(r[i_][k_] for _, r in arms):
                                res[i_][k_] = [("match", sg[1], [(p_, r[i_][k_]) for p_, r in arms])]
                    add(out, res)
                else:
                    raise Unanalysable("iteration over a list part of shape %s" % h)
            return out
        app, steps = inst(segs)
        self.loops = getattr(self, "loops", {})
        self.loops[lid] = {"init": dict(scal), "steps": steps, "app": app, "over": segs}
        for k_, v in seqs.items():
            if app[k_]:
                env[k_] = (v[0], v[1] + app[k_])
        for k_, v in scal.items():
            if steps[k_]:
                env[k_] = ("pacc", v, lid, tuple(freeze(steps[k_])))
        return Leaf("fall", UNIT, env)

    def assigned_locals(self, e, out=None):
        if out is None:
            out = set()
        if isinstance(e, dict):
            if e.get("k") in ("assign", "assignop") and e["l"].get("k") == "path" and e["l"].get("res") == "local":
                out.add(e["l"]["id"])
            for v in e.values():
                self.assigned_locals(v, out)
        elif isinstance(e, list):
            for v in e:
                self.assigned_locals(v, out)
        return out

    # ------------------------------------------------------------------------------------
    MUTATORS = ("std::vec::Vec::extend_from_slice", "std::vec::Vec::push", "<std::vec::Vec<T, A> as std::iter::Extend<T>>::extend", "<std::vec::Vec<T, A> as std::iter::Extend<&'a T>>::extend")

    def is_buf_mutation(self, e, env):
        r = e["recv"]
        while r["k"] in ("addrof", "droptemps"):
            r = r["a"]
        if r["k"] == "path" and r.get("res") == "local" and env.get(r["id"], ("x",))[0] == "alias" and env.get(env[r["id"]][1], ("x",))[0] in SEQ:
            name = strip_generics(e.get("callee") or e.get("decl") or "")
            if name in self.MUTATORS:
                return True
            raise Unanalysable("unsupported mutation `%s` through an alias of a tracked sequence at line %s" % (name, e["sp"][0]))
        if r["k"] == "path" and r.get("res") == "local" and env.get(r["id"], ("x",))[0] in SEQ:
            name = strip_generics(e.get("callee") or e.get("decl") or "")
            if name in self.MUTATORS:
                return True
            if name.split("::")[-1] in ("sort_by_key", "sort_by", "sort", "sort_unstable_by_key") and env[r["id"]][0] == "list":
                return True
            # any other method that takes the tracked sequence by `&mut` is not understood: fail closed
            if r.get("aty", "").startswith("&mut") or e["recv"].get("aty", "").startswith("&mut") or (e["recv"]["k"] == "addrof" and e["recv"].get("mut")):
                raise Unanalysable("unsupported mutation `%s` of a tracked sequence at line %s" % (name, e["sp"][0]))
        return False

    def exec_mutation(self, e, env):
        r = e["recv"]
        while r["k"] in ("addrof", "droptemps"):
            r = r["a"]
        vid = r["id"]
        if env.get(vid, ("x",))[0] == "alias":
            vid = env[vid][1]
        name = strip_generics(e.get("callee") or e.get("decl"))
        arg = self.ev(e["args"][0], env)
        cur = env[vid]
        if cur[0] == "list":
            if name.split("::")[-1] in ("sort_by_key", "sort_by", "sort", "sort_unstable_by_key"):
                key = self.closure_key(arg) if arg[0] == "closure" else ("?",)
                if key[0] == "key":
                    key = key + (name.split("::")[-1],)      # the sorting method (stable or not) is part of the schedule's meaning
                env[vid] = ("list", [("perm", key, cur[1])])
                return Leaf("fall", UNIT, env)
            if name.endswith("::extend"):
                # `list.extend(queue.iter().enumerate().map(|(i, s)| item))` is `for (i, s) in queue.iter().enumerate() { list.push(item) }`
                if arg[0] == "mcall" and arg[1].split("::")[-1] == "map" and len(arg[3]) == 1 and arg[3][0][0] == "lambda" and arg[3][0][2] != ("?",):
                    base, enumerated = arg[2], False
                    while base[0] == "mcall" and base[1].split("::")[-1] in ("iter", "into_iter", "enumerate", "copied", "cloned") and len(base) > 2:
                        enumerated = enumerated or base[1].endswith("enumerate")
                        base = base[2]
                    lam = arg[3][0]
                    self.loopn += 1
                    lid = "L%d" % self.loopn
                    item = subst_lid(lam[2], lam[1], lid)
                    env[vid] = ("list", cur[1] + [("rep", base, lid, [("item", item)])])
                    return Leaf("fall", UNIT, env)
                raise Unanalysable("unsupported list extend argument %s" % show(arg)[:60])
            if not name.endswith("::push"):
                raise Unanalysable("unsupported list mutation " + name)
            env[vid] = ("list", cur[1] + [("item", arg)])
        elif name.endswith("::extend"):
            # `buf.extend(a..b)` is `for i in a..b { buf.push(i) }`; `buf.extend(slice.iter())` / `extend(&slice)` is extend_from_slice
            a0 = arg
            while a0[0] == "mcall" and a0[1].split("::")[-1] in ("iter", "into_iter", "copied", "cloned") and len(a0) > 2:
                a0 = a0[2]
            if a0[0] == "range":
                self.loopn += 1
                lid = "L%d" % self.loopn
                env[vid] = ("buf", cur[1] + [("rep", a0, lid, [("u8", ("elem", a0, lid))])])
            elif a0[0] in ("buf", "str", "param", "field", "index", "payload"):
                env[vid] = ("buf", cur[1] + self.bytes_of(a0))
            else:
                raise Unanalysable("unsupported `extend` argument %s at line %s" % (show(a0)[:60], e["sp"][0]))
        elif name.endswith("extend_from_slice"):
            env[vid] = ("buf", cur[1] + self.bytes_of(arg))
        else:
            if arg[0] == "lit":
                env[vid] = ("buf", cur[1] + [("c", bytes([arg[1] & 0xFF]))])
            else:
                env[vid] = ("buf", cur[1] + [("u8", arg)])
        return Leaf("fall", UNIT, env)

    def closure_key(self, clo):
        """the key expression of a sort_by_key closure over the element pattern"""
        ce, cenv = clo[1], dict(clo[2])
        self.loopn += 1
        lid = "K%d" % self.loopn
        for p in ce["params"]:
            self.bind(p, ("keyelem", lid), cenv)
        try:
            t = self.exec_expr_tree(ce["body"], cenv)
            return ("key", lid, self.collapse_value(t))
        except Unanalysable as ex:
            return ("key", lid, ("?", str(ex)))

    def bytes_of(self, v):
        if v[0] == "buf":
            return list(v[1])
        if v[0] == "str":
            return [("c", v[1].encode("utf-8"))]
        if v[0] == "if" and v[2][0] == "buf" and v[3][0] == "buf":
            return [("alt", v[1], v[2][1], v[3][1])]
        return [("blob", v)]

    # ------------------------------------------------------------------------------------
    def ev(self, e, env):
        k = e["k"]
        if k == "lit":
            t = e["lit"]
            if t == "int":
                return lit(int(e["v"]))
            if t in ("byte", "char"):
                return lit(int(e["v"]))
            if t == "bool":
                return ("bool", bool(e["v"]))
            if t == "bytestr":
                return ("buf", [("c", bytes(e["v"]))])
            if t == "str":
                return ("str", e["v"])
            return ("litx", e.get("v"))
        if k == "path":
            if e.get("res") == "local":
                v = env.get(e["id"], ("var", e["id"]))
                if v[0] == "alias" and not getattr(self, "_keep_alias", False):
                    return env.get(v[1], v)          # reading through a mutable alias reads the sequence itself
                return v
            if e.get("res") == "def":
                if "const_bits" in e:
                    return lit(e["const_bits"])
                c = self.u.consts.get(e.get("def"))
                if c is not None and "init" in c and e.get("defkind", "").startswith(("Const", "AssocConst")) and self.depth < 30:
                    # a constant without a scalar value (array, tuple, byte string): the value of its initialiser
                    self.depth += 1
                    try:
                        v = self.ev(c["init"], {})
                    except Unanalysable:
                        v = None
                    finally:
                        self.depth -= 1
                    if v is not None and v[0] not in ("path?", "call", "callv"):
                        return v
                if e.get("defkind", "").startswith("Ctor"):
                    if e["def"].endswith("::None") or e["def"].endswith("prelude::v1::None"):
                        return ("none",)
                    return ("ctor", e["def"], ())
                return ("def", e.get("callee") or e["def"])
            return ("path?", e.get("res"))
        if k == "addrof" and e.get("mut") and e["a"].get("k") == "path" and e["a"].get("res") == "local" and env.get(e["a"].get("id"), ("x",))[0] in SEQ:
            # `&mut buffer`: a mutable alias of a tracked sequence (mutations through it go to the sequence itself)
            return ("alias", e["a"]["id"])
        if k in ("addrof", "droptemps", "type"):
            return self.ev(e["a"], env)
        if k == "unary":
            a = self.ev(e["a"], env)
            if e["op"] == "Deref":
                return a
            if e["op"] == "Not" and a[0] == "bool":
                return ("bool", not a[1])
            return ("un", e["op"], a)
        if k == "cast":
            a = self.ev(e["a"], env)
            ty = e["ty"]
            if a[0] == "lit" and ty in INT_W and isinstance(a[1], int):
                w = INT_W[ty] * 8
                v = a[1] & ((1 << w) - 1)
                if ty.startswith("i") and v >= 1 << (w - 1):
                    v -= 1 << w
                return lit(v)
            return ("cast", ty, a)
        if k == "binary":
            return fold_bin(e["op"], self.ev(e["a"], env), self.ev(e["b"], env))
        if k == "field":
            return self.field_of(self.ev(e["base"], env), e["name"])
        if k == "index":
            b, i = self.ev(e["base"], env), self.ev(e["idx"], env)
            if i[0] == "idx" and i[1] == b:
                return ("elem", b, i[2])
            return ("index", b, i)
        if k == "tup":
            return ("tuple", [self.ev(x, env) for x in e["es"]])
        if k == "array":
            vals = [self.ev(x, env) for x in e["es"]]
            if e["ty"].startswith("[u8;"):
                segs = []
                for v in vals:
                    if v[0] == "lit":
                        if segs and segs[-1][0] == "c":
                            segs[-1] = ("c", segs[-1][1] + bytes([v[1] & 0xFF]))
                        else:
                            segs.append(("c", bytes([v[1] & 0xFF])))
                    else:
                        segs.append(("u8", v))
                return ("buf", segs)
            return ("array", vals)
        if k == "repeat":
            v = self.ev(e["v"], env)
            if e["ty"].startswith("[u8;") and v[0] == "lit" and "n" in e:
                return ("buf", [("c", bytes([v[1] & 0xFF]) * e["n"])])
            return ("repeatv", v, e.get("n"))
        if k == "struct":
            fs = {f["name"]: self.ev(f["e"], env) for f in e["fields"]}
            d = e.get("def") or ""
            if d.endswith("ops::Range") and "start" in fs and "end" in fs:
                return ("range", fs["start"], fs["end"])
            if d.endswith("ops::RangeInclusive") or d.endswith("RangeInclusive::new"):
                return ("rangei", fs.get("start"), fs.get("end"))
            self.trace.append(("struct", d, fs))
            return ("struct", d, fs)
        if k == "closure":
            return ("closure", e, env)
        if k == "call":
            return self.ev_call(e, env)
        if k == "mcall":
            return self.ev_mcall(e, env)
        if k in ("if", "match", "block"):
            if self.mentions_buf_mutation(e, env):
                raise Unanalysable("nested control flow mutating a buffer inside an expression at line %s" % e["sp"][0])
            t = self.exec_expr_tree(e, dict(env))
            return self.collapse_value(t)
        if k == "let":
            return ("is", self.ev(e["init"], env), self.pat_desc(e["pat"]))
        if k == "other":
            return ("other", e.get("what"))
        raise Unanalysable("expression kind %s at line %s" % (k, e["sp"][0]))

    def field_of(self, b, name):
        if b[0] == "struct" and name in b[2]:
            return b[2][name]
        if b[0] == "tuple" and name.isdigit() and int(name) < len(b[1]):
            return b[1][int(name)]
        if b[0] == "if":
            return self.if_value(b[1], self.field_of(b[2], name), self.field_of(b[3], name))
        return ("field", b, name)

    def mentions_buf_mutation(self, e, env):
        if isinstance(e, dict):
            if e.get("k") == "mcall":
                try:
                    if self.is_buf_mutation(e, env):
                        return True
                except Unanalysable:
                    return True
            return any(self.mentions_buf_mutation(v, env) for v in e.values())
        if isinstance(e, list):
            return any(self.mentions_buf_mutation(v, env) for v in e)
        return False

    def ev_call(self, e, env):
        f = e["f"]
        fv = self.ev(f, env)
        args = [self.ev(a, env) for a in e["args"]]
        if fv[0] == "ctor":
            if fv[1].endswith("::Some"):
                return ("some", args[0])
            if fv[1].endswith("::Err"):
                return ("err", args[0] if args else UNIT)
            if fv[1].endswith("::Ok"):
                return ("okres", args[0] if args else UNIT)
            return ("ctor", fv[1], tuple(args))
        if fv[0] != "def":
            return ("callv", fv, tuple(args))
        name = fv[1]
        sname = strip_generics(name)
        if sname in ("std::vec::Vec::new", "std::vec::Vec::with_capacity"):
            if e["ty"] in BYTEVEC:
                return ("buf", [])
            if e["ty"].startswith("std::vec::Vec<"):
                return ("list", [])
        if sname.endswith("box_assume_init_into_vec_unsafe") or sname.endswith("slice::into_vec"):
            arr = self.find_array(e)
            if arr is not None:
                v = self.ev(arr, env)
                if v[0] == "buf":
                    return v
                if v[0] == "array" and e["ty"].startswith("std::vec::Vec<"):
                    return ("list", [("item", x) for x in v[1]])
                return ("array", v[1]) if v[0] == "array" else v
        if sname == "std::vec::from_elem":
            if e["ty"] in BYTEVEC and args[0][0] == "lit" and args[1][0] == "lit":
                return ("buf", [("c", bytes([args[0][1] & 0xFF]) * args[1][1])])
        if sname in ("std::convert::From::from", "std::convert::Into::into", "core::convert::num::from"):
            return ("cast", e["ty"], args[0])
        if name in self.box_builders and self.depth >= 0 and getattr(self, "_boxes_ready", True):
            return ("buf", [("box", self.bytes_of(args[0]), self.bytes_of(args[1]))])
        if name in self.hir and self.is_producer(name):
            return ("buf", self.production(name, args))
        if name in self.hir and name in self.struct_fns:
            try:
                return self.call_value(name, args)
            except Unanalysable:
                pass
        if name in self.hir:
            sv = self.struct_call(name, args)
            if sv is not None:
                return sv
        if name in self.hir and self.hir[name].get("ret") in SCALAR_RET and self.depth < 12:
            # a local helper returning a scalar (e.g. a per-sample field computation moved into its own function): look through it
            try:
                return self.call_value(name, args)
            except (Unanalysable, RecursionError, KeyError, IndexError, TypeError):
                pass
        return ("call", sname, tuple(self.opaque_arg(a) for a in args))

    def call_value(self, path, args):
        """inline a local (non-producer) function and return its value"""
        h = self.hir[path]
        env = {}
        for i, p in enumerate(h["params"]):
            self.bind(p["pat"], args[i] if i < len(args) else ("param", "_%d" % i), env)
        self.depth += 1
        if self.depth > 40:
            raise Unanalysable("inlining too deep at " + path)
        try:
            tree = self.exec_expr_tree(h["body"], env)
            return self.collapse_value(tree)
        finally:
            self.depth -= 1

    def file_production(self, path):
        """production of the bytes handed to the sink helper by local function `path`, per successful exit:
        list of (conditions, segs)"""
        h = self.hir[path]
        env = {"$file": ("buf", [])}
        for i, p in enumerate(h["params"]):
            self.bind(p["pat"], ("param", p["pat"].get("name", "_%d" % i)), env)
        tree = self.exec_expr_tree(h["body"], env)
        out = []

        def rec(t, conds):
            if isinstance(t, Leaf):
                if t.status == "ret" and t.value[0] == "err":
                    return
                out.append((conds, t.env.get("$file", ("buf", []))[1], t.value))
                return
            rec(t.t, conds + (("if", t.cond),))
            rec(t.f, conds + (("ifnot", t.cond),))
        rec(tree, ())
        return out

    def find_array(self, e):
        if isinstance(e, dict):
            if e.get("k") in ("array", "repeat"):
                return e
            for kk in ("args", "a", "f"):
                if kk in e:
                    r = self.find_array(e[kk])
                    if r is not None:
                        return r
        elif isinstance(e, list):
            for x in e:
                r = self.find_array(x)
                if r is not None:
                    return r
        return None

    def ev_mcall(self, e, env):
        name = e.get("callee") or e.get("decl") or e["method"]
        sname = strip_generics(name)
        m = e["method"]
        recv = self.ev(e["recv"], env)
        args = [self.ev(a, env) for a in e["args"]]
        if m in ("to_be_bytes", "to_le_bytes") and sname.startswith("core::num::"):
            ty = e["recv"]["ty"].lstrip("&")
            w = INT_W.get(ty)
            if w is None:
                raise Unanalysable("to_be_bytes on " + ty)
            return ("buf", [("be" if m == "to_be_bytes" else "le", recv, w)])
        if m == "len":
            if recv[0] == "list":
                try:
                    w = width(recv[1])
                    if w.is_const():
                        return lit(w.const)
                except Unanalysable:
                    pass
                return ("len", ("listval", freeze(list_shape(recv[1]))))
            if recv[0] == "buf":
                w = width(recv[1])
                if w.is_const():
                    return lit(w.const)
                return ("len", ("bufval", tuple(recv[1])))
            return ("len", recv)
        if m in ("as_bytes", "as_slice", "as_str", "as_ref", "as_deref", "to_vec", "clone", "to_owned", "iter", "into_iter", "copied", "cloned") and \
                (sname.startswith("core::") or sname.startswith("std::") or sname.startswith("<")):
            if m in ("iter", "into_iter", "copied", "cloned"):
                return ("mcall", sname, recv, ())
            return recv
        if m == "is_empty" and recv[0] == "list":
            try:
                w = width(recv[1])
                if w.is_const():
                    return ("bool", w.const == 0)
            except Unanalysable:
                pass
        if m == "is_empty" and recv[0] == "buf":
            w = width(recv[1])
            if w.is_const():
                return ("bool", w.const == 0)
            return ("empty", ("bufval", tuple(recv[1])))
        if m in ("is_some", "is_none") and recv[0] in ("some", "none"):
            return ("bool", (recv[0] == "some") == (m == "is_some"))
        if m in ("unwrap", "expect") and e["recv"]["ty"].lstrip("&").startswith("std::option::Option<"):
            if recv[0] == "some":
                return recv[1]
            return ("payload", recv, "Some", 0)
        if m == "unwrap_or" and recv[0] == "some":
            return recv[1]
        if m == "unwrap_or" and recv[0] == "none":
            return args[0]
        if m in ("then", "then_some") and e["recv"]["ty"].lstrip("&") == "bool" and args:
            # `c.then(|| v)` / `c.then_some(v)` is `if c { Some(v) } else { None }`
            v = None
            if m == "then_some":
                v = args[0]
            elif args[0][0] == "closure":
                clo = args[0]
                try:
                    v = self.collapse_value(self.exec_expr_tree(clo[1]["body"], dict(clo[2])))
                except Unanalysable:
                    v = None
            if v is not None:
                return self.if_value(recv, ("some", v), ("none",))
        if m in ("map", "and_then") and recv[0] in ("some", "none") and args and args[-1][0] == "closure" and e["recv"]["ty"].lstrip("&").startswith("std::option::Option<"):
            # statically known Option: `Some(x).map(f)` is `Some(f(x))`, `None.map(f)` is `None`
            if recv[0] == "none":
                return ("none",)
            clo = args[-1]
            cenv = dict(clo[2])
            for p_ in clo[1]["params"]:
                self.bind(p_, recv[1], cenv)
            try:
                bodyv = self.collapse_value(self.exec_expr_tree(clo[1]["body"], cenv))
                return ("some", bodyv) if m == "map" else bodyv
            except Unanalysable:
                pass
        if m in ("and_then", "map", "map_or", "unwrap_or_else", "or_else", "filter") and args and args[-1][0] == "closure" and \
                e["recv"]["ty"].lstrip("&").startswith("std::option::Option<"):
            clo = args[-1]
            cenv = dict(clo[2])
            for p_ in clo[1]["params"]:
                self.bind(p_, ("payload", recv, "Some", 0), cenv)
            try:
                t = self.exec_expr_tree(clo[1]["body"], cenv)
                bodyv = self.collapse_value(t)
            except Unanalysable:
                bodyv = ("?",)
            return ("mcall", sname, recv, tuple(self.opaque_arg(a) for a in args[:-1]) + (("lambdav", bodyv),))
        if m in ("map", "sum", "filter_map", "filter", "any", "all") and args and args[0][0] == "closure":
            return ("mcall", sname, recv, (self.closure_summary(args[0], recv),))
        if name in self.hir and self.is_producer(name):
            return ("buf", self.production(name, [recv] + args))
        if name in self.hir and name in self.struct_fns:
            try:
                return self.call_value(name, [recv] + args)
            except Unanalysable:
                pass
        if name in self.hir:
            sv = self.struct_call(name, [recv] + args)
            if sv is not None:
                return sv
        return ("mcall", sname, recv, tuple(self.opaque_arg(a) for a in args))

    def opaque_arg(self, a):
        if a[0] == "closure":
            captured_assigned = [k_ for k_ in self.assigned_locals(a[1].get("body")) if k_ in a[2]]
            if captured_assigned:
                raise Unanalysable("a closure that assigns captured variables %s is passed to a call the interpreter does not model" % [c.split("#")[0] for c in captured_assigned])
            ids = set()

            def rec(x):
                if isinstance(x, dict):
                    if x.get("k") == "path" and x.get("res") == "local":
                        ids.add(x["id"])
                    for v in x.values():
                        rec(v)
                elif isinstance(x, list):
                    for v in x:
                        rec(v)
            rec(a[1].get("body"))
            caps = tuple(sorted((i.split("#")[0], freeze(a[2][i])) for i in ids if i in a[2] and a[2][i][0] not in SEQ and a[2][i][0] != "closure"))
            return ("clo", a[1].get("def", "?"), caps)
        return a

    def closure_summary(self, clo, recv):
        ce, cenv = clo[1], dict(clo[2])
        base = recv
        enumerated = False
        while base[0] == "mcall" and base[1].split("::")[-1] in ("iter", "into_iter", "enumerate", "copied", "cloned", "map"):
            if base[1].endswith("enumerate"):
                enumerated = True
            base = base[2]
        self.loopn += 1
        lid = "L%d" % self.loopn
        ev_ = ("tuple", [("idx", base, lid), ("elem", base, lid)]) if enumerated else ("elem", base, lid)
        live = clo[2]
        assigned = [k_ for k_ in self.assigned_locals(ce["body"]) if k_ in live]
        for k_ in assigned:
            if live[k_][0] in SEQ:
                raise Unanalysable("closure mutates a captured sequence")
            cenv[k_] = ("acc", k_, lid)
        for p in ce["params"]:
            self.bind(p, ev_, cenv)
        try:
            t = self.exec_expr_tree(ce["body"], cenv)
            val = self.collapse_value(t)
            cenv2 = self.collapse_env(t, allowed=("fall", "ret"))
        except Unanalysable:
            if assigned:
                raise
            return ("lambda", lid, ("?",))
        for k_ in assigned:
            step = cenv2.get(k_, ("acc", k_, lid))
            if step != ("acc", k_, lid):
                live[k_] = ("fold", live[k_], base, lid, step)
        return ("lambda", lid, val)


# ----------------------------------------------------------------------------------------
# widths


class Lin:
    """const + sum coeff*atom (atoms are hashable expression tuples)"""

    def __init__(self, const=0, terms=None):
        self.const = const
        self.terms = dict(terms or {})

    def is_const(self):
        return not self.terms

    def __add__(self, o):
        t = dict(self.terms)
        for k, v in o.terms.items():
            t[k] = t.get(k, 0) + v
            if t[k] == 0:
                del t[k]
        return Lin(self.const + o.const, t)

    def __eq__(self, o):
        return isinstance(o, Lin) and self.const == o.const and self.terms == o.terms

    def __repr__(self):
        parts = [str(self.const)] if self.const or not self.terms else []
        for k, v in self.terms.items():
            parts.append(("%d*" % v if v != 1 else "") + show(k))
        return " + ".join(parts)


def subst_lid(x, old, new):
    """rename loop id `old` to `new` inside a value (the element of a closure summary becomes the element of the enclosing loop)"""
    if isinstance(x, tuple):
        return tuple(subst_lid(y, old, new) for y in x)
    if isinstance(x, list):
        return [subst_lid(y, old, new) for y in x]
    return new if x == old else x


def list_shape(segs):
    """a list's structure with the item values removed (its length depends on nothing else)"""
    out = []
    for s in segs:
        k = s[0]
        if k == "item":
            out.append(("item",))
        elif k == "rep":
            out.append(("rep", s[1], s[2], list_shape(s[3])))
        elif k == "perm":
            out.append(("perm", ("key",), list_shape(s[2])))
        elif k == "alt":
            out.append(("alt", s[1], list_shape(s[2]), list_shape(s[3])))
        elif k == "match":
            out.append(("match", s[1], [(p, list_shape(x)) for p, x in s[2]]))
        elif k == "ploop":
            out.append(("ploop", s[1], ("key",) if s[2] else None, [("part", list_shape(p[1])) if p[0] == "part" else ("rep", p[1], p[2], list_shape(p[3])) for p in s[3]]))
        else:
            out.append(s)
    return out


def freeze(x):
    if isinstance(x, Lin):
        return ("lin", x.const, tuple(sorted(((k, v) for k, v in x.terms.items()), key=repr)))
    if isinstance(x, list):
        return tuple(freeze(i) for i in x)
    if isinstance(x, tuple):
        return tuple(freeze(i) for i in x)
    if isinstance(x, dict):
        return tuple(sorted((k, freeze(v)) for k, v in x.items()))
    return x


def width(segs):
    w = Lin()
    for s in segs:
        w = w + seg_width(s)
    return w


def seg_width(s):
    k = s[0]
    if k == "c":
        return Lin(len(s[1]))
    if k in ("be", "le"):
        return Lin(s[2])
    if k == "u8":
        return Lin(1)
    if k == "blob":
        return Lin(0, {("len", freeze(s[1])): 1})
    if k == "box":
        return Lin(4) + width(s[1]) + width(s[2])
    if k == "alt":
        a, b = width(s[2]), width(s[3])
        if a == b:
            return a
        return Lin(0, {("altw", freeze(s[1]), freeze(a), freeze(b)): 1})
    if k == "match":
        ws = [width(x[1]) for x in s[2]]
        if all(w == ws[0] for w in ws):
            return ws[0]
        return Lin(0, {("matchw", freeze(s[1]), tuple((p, freeze(w)) for (p, _), w in zip(s[2], ws))): 1})
    if k == "item":
        return Lin(1)
    if k == "perm":
        return width(s[2])
    if k == "ploop":
        w = Lin()
        for p in s[3]:
            w = w + (seg_width(p) if p[0] == "rep" else width(p[1]))
        return w
    if k == "part":
        return width(s[1])
    if k == "step":
        return Lin(0)
    if k == "rep":
        b = width(s[3])
        if b.is_const():
            return Lin(0, {("len", freeze(s[1])): b.const})
        return Lin(0, {("repw", freeze(s[1]), s[2], freeze(b)): 1})
    raise Unanalysable("width of segment " + k)


# ----------------------------------------------------------------------------------------
# rendering


def show(x, depth=0):
    if isinstance(x, bytes):
        try:
            t = x.decode("ascii")
            if all(32 <= c < 127 for c in x):
                return "b'%s'" % t
        except Exception:
            pass
        return x.hex()
    if isinstance(x, Lin):
        return repr(x)
    if not isinstance(x, tuple) or not x:
        return str(x)
    h = x[0]
    if h == "lit":
        return str(x[1])
    if h in ("param", "var"):
        return str(x[1]).split("#")[0]
    if h == "field":
        return "%s.%s" % (show(x[1]), x[2])
    if h == "len":
        return "len(%s)" % show(x[1])
    if h == "cast":
        return "(%s as %s)" % (show(x[2]), x[1])
    if h == "bin":
        return "(%s %s %s)" % (show(x[2]), x[1], show(x[3]))
    if h == "un":
        return "%s(%s)" % (x[1], show(x[2]))
    if h == "elem":
        return "elem(%s)" % show(x[1])
    if h == "idx":
        return "idx(%s)" % show(x[1])
    if h == "c":
        return "const[%s]" % show(x[1])
    if h in ("be", "le"):
        return "%s%d(%s)" % (h, x[2] * 8, show(x[1]))
    if h == "u8":
        return "u8(%s)" % show(x[1])
    if h == "blob":
        return "blob(%s)" % show(x[1])
    if h == "box":
        t = x[1][0][1] if len(x[1]) == 1 and x[1][0][0] == "c" else None
        return "box[%s]{%s}" % (show(t) if t else ",".join(show(s) for s in x[1]), ", ".join(show(s) for s in x[2]))
    if h == "alt":
        return "alt(%s ? [%s] : [%s])" % (show(x[1]), ", ".join(show(s) for s in x[2]), ", ".join(show(s) for s in x[3]))
    if h == "match":
        return "match(%s){%s}" % (show(x[1]), "; ".join("%s=>[%s]" % (p.split("::")[-1], ", ".join(show(s) for s in sg)) for p, sg in x[2]))
    if h == "rep":
        return "rep(%s){%s}" % (show(x[1]), ", ".join(show(s) for s in x[3]))
    if h == "ploop":
        return "ploop%s[%s]" % ("<sorted>" if x[2] else "", " ++ ".join(show(p) if p[0] == "rep" else "[%s]" % ", ".join(show(q) for q in p[1]) for p in x[3]))
    if h == "perm":
        return "sorted(%s)[%s]" % (show(x[1]), ", ".join(show(q) for q in x[2]))
    if h == "item":
        return "item(%s)" % show(x[1])
    if h == "acc":
        return "acc:%s" % str(x[1]).split("#")[0]
    if h == "pacc":
        return "pacc(%s; %s)" % (show(x[1]), ", ".join(show(st) for st in x[3]))
    if h == "step":
        return "step(%s)" % show(x[1])
    if h == "part":
        return "[%s]" % ", ".join(show(q) for q in x[1])
    if h == "sum":
        return "(%s + sum(%s, %s))" % (show(x[1]), show(x[2]), show(x[4]))
    if h == "list":
        return "list[%s]" % ", ".join(show(s) for s in x[1])
    if h == "mcall":
        return "%s.%s(%s)" % (show(x[2]), x[1].split("::")[-1], ", ".join(show(a) for a in x[3]))
    if h == "call":
        return "%s(%s)" % (x[1].split("::")[-1], ", ".join(show(a) for a in x[2]))
    if h == "index":
        return "%s[%s]" % (show(x[1]), show(x[2]))
    if h == "is":
        return "(%s is %s)" % (show(x[1]), str(x[2]).split("::")[-1])
    if h == "if":
        return "if(%s, %s, %s)" % (show(x[1]), show(x[2]), show(x[3]))
    if h == "buf":
        return "buf[%s]" % ", ".join(show(s) for s in x[1])
    if h == "tuple":
        return "(%s)" % ", ".join(show(s) for s in x[1])
    if h == "some":
        return "Some(%s)" % show(x[1])
    if h == "lambda":
        return "|%s| %s" % (x[1], show(x[2]))
    if h == "payload":
        return "%s.%s#%d" % (show(x[1]), x[2], x[3])
    if h == "tfield":
        return "%s.%d" % (show(x[1]), x[2])
    if h == "bufval":
        return "buf[%s]" % ", ".join(show(s) for s in x[1])
    if h == "closure":
        return "<closure>"
    if h == "struct":
        return "%s{..}" % str(x[1]).split("::")[-1]
    return "%s(%s)" % (h, ", ".join(show(a) for a in x[1:]))


def boxes(segs, path=()):
    """iterate over all box nodes: yields (fourcc bytes|None, payload segs, context path of conditions)"""
    for s in segs:
        k = s[0]
        if k == "box":
            t = s[1][0][1] if len(s[1]) == 1 and s[1][0][0] == "c" else None
            yield t, s[2], path
            yield from boxes(s[2], path + ((t,),))
        elif k == "alt":
            yield from boxes(s[2], path + (("if", s[1]),))
            yield from boxes(s[3], path + (("ifnot", s[1]),))
        elif k == "match":
            for p, sg in s[2]:
                yield from boxes(sg, path + (("arm", p),))
        elif k == "rep":
            yield from boxes(s[3], path + (("rep", s[1]),))


# ----------------------------------------------------------------------------------------
# normalisation and flattening


def norm_segs(segs):
    """fold be/le of literals into constant bytes, merge adjacent constants, recurse"""
    out = []
    for s in segs:
        k = s[0]
        if k in ("be", "le") and s[1][0] == "lit" and isinstance(s[1][1], int):
            v = s[1][1] & ((1 << (8 * s[2])) - 1)
            s = ("c", v.to_bytes(s[2], "big" if k == "be" else "little"))
            k = "c"
        elif k == "u8" and s[1][0] == "lit":
            s = ("c", bytes([s[1][1] & 0xFF]))
            k = "c"
        elif k == "box":
            s = ("box", norm_segs(s[1]), norm_segs(s[2]))
        elif k == "alt":
            s = ("alt", s[1], norm_segs(s[2]), norm_segs(s[3]))
        elif k == "match":
            s = ("match", s[1], [(p, norm_segs(sg)) for p, sg in s[2]])
        elif k == "rep":
            s = ("rep", s[1], s[2], norm_segs(s[3]))
        elif k == "ploop":
            s = ("ploop", s[1], s[2], [("rep", p[1], p[2], norm_segs(p[3])) if p[0] == "rep" else ("part", norm_segs(p[1])) for p in s[3]])
        elif k == "perm":
            s = ("perm", s[1], norm_segs(s[2]))
        if k == "c" and out and out[-1][0] == "c":
            out[-1] = ("c", out[-1][1] + s[1])
        elif k == "c" and not s[1]:
            continue
        else:
            out.append(s)
    return out


def fourcc(box):
    t = box[1]
    if len(t) == 1 and t[0][0] == "c" and len(t[0][1]) == 4:
        return t[0][1]
    return None


def flat_atoms(segs):
    """[(offset, width, seg)] for the leading fixed-width part of a production; stops at the first
    segment of variable width or structure (returns the remainder)"""
    out, off = [], 0
    for i, s in enumerate(segs):
        if s[0] == "c":
            out.append((off, len(s[1]), s))
            off += len(s[1])
        elif s[0] in ("be", "le"):
            out.append((off, s[2], s))
            off += s[2]
        elif s[0] == "u8":
            out.append((off, 1, s))
            off += 1
        else:
            return out, off, segs[i:]
    return out, off, []


def mentions(x, pred):
    if pred(x):
        return True
    if isinstance(x, (tuple, list)):
        return any(mentions(y, pred) for y in x)
    if isinstance(x, dict):
        return any(mentions(y, pred) for y in x.values())
    return False


def field_names(x):
    """all ('field', _, name) names occurring in an expression"""
    out = set()

    def rec(y):
        if isinstance(y, tuple) and y and y[0] == "field" and len(y) == 3 and isinstance(y[2], str):
            out.add(y[2])
        if isinstance(y, (tuple, list)):
            for z in y:
                rec(z)
        elif isinstance(y, dict):
            for z in y.values():
                rec(z)
    rec(x)
    return out


def strip_ids(x):
    """replace loop / key / binding ids by '_' so that two derivations of the same shape compare equal"""
    if isinstance(x, str):
        if re.fullmatch(r"[LPK]\d+", x):
            return "_"
        if "#" in x and re.fullmatch(r"[A-Za-z_][A-Za-z0-9_]*#\d+", x):
            return x.split("#")[0]
        return x
    if isinstance(x, (list, tuple)):
        return tuple(strip_ids(y) for y in x)
    if isinstance(x, dict):
        return tuple(sorted((k, strip_ids(v)) for k, v in x.items()))
    return x


def mask_values(segs, pred):
    """replace the value expression of every be/le/u8 segment for which pred(expr) holds by ('masked',)"""
    out = []
    for s in segs:
        k = s[0]
        if k in ("be", "le") and pred(s[1]):
            out.append((k, ("masked",), s[2]))
        elif k == "u8" and pred(s[1]):
            out.append((k, ("masked",)))
        elif k == "box":
            out.append(("box", s[1], mask_values(s[2], pred)))
        elif k == "alt":
            out.append(("alt", s[1], mask_values(s[2], pred), mask_values(s[3], pred)))
        elif k == "match":
            out.append(("match", s[1], [(p, mask_values(sg, pred)) for p, sg in s[2]]))
        elif k == "rep":
            out.append(("rep", s[1], s[2], mask_values(s[3], pred)))
        elif k == "perm":
            out.append(("perm", s[1], mask_values(s[2], pred)))
        elif k == "ploop":
            out.append(("ploop", s[1], s[2], [("rep", p[1], p[2], mask_values(p[3], pred)) if p[0] == "rep" else ("part", mask_values(p[1], pred)) for p in s[3]]))
        else:
            out.append(s)
    return out
