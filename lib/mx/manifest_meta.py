"""Per-property claim texts for MANIFEST.json (kept next to the rules so they stay in sync)."""
NOTES = ("Technique family: static analysis only. Every check re-runs the mxlint driver on /repo's current working tree "
         "(nothing in /repo is executed). Known genuine defects are listed in known_findings.json by semantic key.")
NOT_APPLICABLE = {}
CLAIMS = {
 "C06": {
  "technique": "who-may-call + dominance (sink-guard) + store inventory + data-dependence slices on MIR",
  "text": "Decides the structural clauses of C06 for all paths/inputs: only the counted helper touches the sink and only via write_all; "
          "every sink write is dominated by `finalized=true` behind the finalized test (nothing before finish, nothing after, once); frame-writing "
          "entries succeed only on the flag-false edge; the byte counter is updated only beside the write with len(buf); MuxerStats fields are "
          "sourced from the right queues/counter and only on the Ok edge. Static rules give the for-all-histories part tests cannot; numeric tolerance of duration is not decided. R6: the end time of a queue whose presentation times are not monotone in queue order ranges over every sample; each queue is paired with the last-delta field its own writer maintains."
          " R5 also: the sample queues the statistics are read from are append-only in the whole library (store inventory). R5 also: nothing but the pure end-time function of the queues enters duration_secs. R7: a refused write leaves no trace in the queues / last-delta fields the statistics are computed from (the C05.R1 instances with such stores).",
  "note": "Trusted: rustc MIR, std Write::write_all contract, externals classification. Not decided: +-1 tick tolerance of duration_secs; "
          "R6 (end time = last sample's pts+delta is the maximum only when pts is monotone) is recorded as a known finding when it applies."},
 "C13": {
  "technique": "who-may-call + Result-flow (propagate-only) + dominance on MIR",
  "text": "Decides for every failure point and every short-write/interrupt schedule at once: the sink is reached only through write_all in one helper whose byte counter does not depend on the sink; "
          "every Result of a sink write (and of each writer-tree call) is consumed by `?` or returned, and the Break edge never re-enters the writer tree, so the buffers offered to the sink form one fixed "
          "sequence that stops at the first failure (prefix property, error iff a write failed); the finalized flag is set before the first write and never cleared (nothing is written afterwards). "
          "Tests can only sample failure points; the rule covers all of them structurally."
          " The sink call itself runs once per helper invocation (not on a CFG cycle) and its Result is returned / `?`-propagated unseen (no retry).",
  "note": "Relies on std's documented write_all contract for Interrupted/short writes. Panic-freedom of the finalize path is the C12 obligation set restricted to the writer tree (known findings shared by key)."},
 "C17": {
  "technique": "whole-program effect analysis over the resolved call graph + trait-solver auto-trait query + MIR alpha-equivalence / delegation check",
  "text": "Decides the structural clauses of C17: no clock/RNG/env/fs/process/thread/atomic/TypeId/static/hash-order effect is reachable from any public muxing entry point (negative fact over all paths); the thread-local log is write-only for muxing; "
          "the sink type is used only through std::io::Write; Muxer<W>/MuxerBuilder<W>: Send<=W: Send and Sync<=W: Sync for all W (solver query in a parameter environment, non-vacuous), FragmentedMuxer: Send+Sync; "
          "finish/flush/finish_with_stats/finish_in_place are single pass-through delegations, builder aliases have alpha-equal bodies, codec None yields no audio track."
          " R6: every API route to title / language / creation time stores the parameter itself (no rewriting on one route). R5 also: MuxerBuilder::build tabulated - codec None builds the same muxer as no audio call.",
  "note": "Trusted: classification of external callees (lib/mx/externals.py), rustc trait solver. One reasoned exception: Metadata::with_current_time (explicit request for 'now' as input). Not decided: f64 accumulation of encode_* vs explicit timestamps (numeric)."},
 "C05": {
  "technique": "interprocedural error-path purity (store inventory x CFG reachability to Err/`?` exits) on MIR",
  "text": "Sufficient structural condition for C05, decided for all histories, rejection reasons and states: in every fallible function that receives muxer state by &mut on the frame-writing paths "
          "(progressive and fragmented, incl. the encode_* convenience forms) no store to that state lies on any CFG path ending in an Err/`?` exit; a failing call therefore executes no state store. "
          "Three genuine defects found by this rule on the pinned tree were repaired (fix: commits, known_findings.json). Stores that precede a directly returned (delegated) fallible call count as stores before an error exit.",
  "note": "Path-insensitive (plain CFG reachability; stores of a fallible callee are placed on its Continue edge). State = memory reachable from the &mut receiver; the thread-local invariant log is excluded because C17.R2 shows muxing never reads it."},
 "C10": {
  "technique": "store inventory + dominance + guard extraction on MIR (fragmented muxer), layout interpretation for the segment builder",
  "text": "Decides the conservation argument structurally for every write/flush/query interleaving: the only mutations of the sample queue are push (write) and mem::take (flush) and the builder gets exactly the taken vector; the None exit of flush is store-free; "
          "the sequence counter starts at 1, is incremented once after the builder call which receives the pre-increment value; the only rejection is guarded by dts < last_dts and is store-free; readiness queries are &self and pure. R8: no field of a queued or taken fragment sample is stored to after the push."
          " R9: every field of the record queued by write_video is the call's own parameter (payload: exact copy of the slice)."
          " R1: the segment builder receives the whole taken queue exactly once per flush.",
  "note": "Relies on std contracts of mem::take and Vec::push. R4/R5 (data_offset and same-samples-same-order in trun/mdat) are layout rules."},
 "C19": {
  "technique": "layout interpretation of typed HIR (symbolic byte productions of all box builders) compared with specification transcriptions",
  "text": "Derives, from the type-checked source, the byte layout of every box/record emitted in every configuration (if/match kept as alternatives, loops as repetitions) and compares it field by field with transcriptions of ISO/IEC 14496-12/-14/-15 and the AV1/VP9/Opus bindings: "
          "size, version/flags, reserved bits, constants, field positions, source of each value field, counted tables, length-prefixed parameter sets, descriptor lengths, track IDs vs next_track_ID. Symbolic, hence for all dimensions/rates/parameter sets. "
          "Found 9 genuine layout defects on the pinned tree: 2 repaired, 7 recorded (pinned by the golden fixture or not small). Also: hvcC profile byte identity, AAC samplingFrequencyIndex table, av1C flag bits (shared with C07.R7/R8)."
          " Also: esds descriptor structure (ES > DecoderConfig > DecoderSpecificInfo, SLConfig), hdlr name NUL-terminated, ftyp brands, avcC profile bytes = SPS bytes 1..3, dOps version/channel count/mapping table; hvcC numOfArrays equals the arrays that follow (optional VPS array included); the builder's fragment configuration fixes the 90 kHz media timescale.",
  "note": "Trusted: my transcription of the specifications (lib/mx/spec.py) and the interpreter. Value-level packing (language code, profile bytes) is not decided."},
 "C01": {
  "technique": "layout interpretation of typed HIR: symbolic file productions of both finalize functions (offset lists, schedule permutation, tables, moov) + MIR monotone-field analysis",
  "text": "Decides the chain queued sample i -> table entry i -> file offset of its bytes for all histories and configurations: one pure schedule drives offset assignment and streaming; per track the pushed offset list, the streamed queue, "
          "the cursor step and the stsz/stss/stts tables belong together; initial cursor == symbolic width of everything emitted before the sample region (both layouts, incl. placeholder==final moov width); per-track schedule order == queue order "
          "(leading sort-key field must be the writer-enforced monotone one); payload converter per codec and key flag unmodified; mdat size == 8 + streamed payloads. Found and repaired the B-frame+audio chunk-offset permutation defect."
          " R4 also: entries of one track with equal leading sort keys keep queue order (stable sort or index in the key). R6 also: the public write entry points hand the writer the call's own payload slice and key flag.",
  "note": "Not decided: byte equality of converter outputs for concrete inputs (framing is C14). Trusted: std sort_by_key/enumerate/map/collect contracts, interpreter."},
 "C02": {
  "technique": "layout interpretation: derived box tree of every emitted stream vs containment/cardinality schema; symbolic width identities",
  "text": "For every configuration at once: the box constructor writes size == 8+len(payload) == its width; every container payload is child boxes only (so sizes tile recursively for every input); each alternative of each container "
          "matches a schema transcribed from ISO/IEC 14496-12 (mandatory boxes once, optional at most once, no strangers, one-of groups); top-level order/cardinality of progressive file, init segment (mvex/trex) and media segment; count fields == entries emitted; mdat size == 8 + payloads. Cross-table: the sample-to-chunk table gets an entry only on paths where chunk count and samples-per-chunk are entailed non-zero."
          " R6: stts/ctts run-length builders account for every element (table counts agree with stsz/stco). R7: one track per configured stream - the builder enables the writer's audio track iff a codec other than None was configured (tabulated).",
  "note": "32-bit size overflow is C16. Trusted: schema transcription, interpreter."},
 "C08": {
  "technique": "symbolic width identities and production equality on the file productions; MIR data flow of the fast_start flag",
  "text": "moov width never depends on chunk-offset values; placeholder and final moov have identical symbolic width; offset base == static offset of the sample region in each layout; the two layouts' moov productions are identical modulo chunk-offset values for every configuration; "
          "top-level order per layout and unmodified plumbing of the flag from the builder to the branch.",
  "note": "R6 (u32 cursor overflow guard missing in the standard layout) is reported under C16."},
 "C15": {
  "technique": "layout interpretation: the sample region as a sort-permutation of the two queues; key shape analysis",
  "text": "The sample region of every A/V layout is sorted(key)[video queue ++ audio queue] with key = (timestamp field, rank Video<Audio, queue index): by std's sort_by_key contract this is the merge by timestamp with video first on ties; the same schedule drives offsets and streaming; per-track order is queue order. R4: both tracks' sort keys come from the same stateless conversion of the call's own timestamp.",
  "note": "Relies on the documented contract of slice::sort_by_key (stable, ordered by key)."},
 "C03": {
  "technique": "data-dependence slices on MIR + symbolic moov production (durations / composition offsets)",
  "text": "Decides the shape behind the timing property for all timestamp sequences: every tick handed to the inner writer is cast(round(own timestamp parameter * 90000)) with no state in its slice (no drift by construction); the duration back-patch is this-minus-previous of the writer's monotone timestamp, stored to the last sample and the last-delta field; "
          "the final sample's fall-back is the track's own last delta; mdhd duration is the sum over the list behind stts; composition offsets are pts-dts and ctts is conditional on the fold of `offset != 0` over exactly those offsets. R6: the stts/ctts run-length encoders extend a run only under exact equality with the current element and otherwise push (1, element)."
          " R6 also: every element reaches the increment or the push; R4 also: every delta stts emits is a function of the current element only. R5 also: the ctts encoder iterates exactly the list of pts - dts (no re-basing or filtering in between).",
  "note": "Not decided: arithmetic of the run-length encoders and f64 rounding for particular cadences (value-level)."},
 "C04": {
  "technique": "guard extraction (dominating switch edges + operand-role slices) on MIR; total-match error map via HIR interpretation; typestate dominance; complete finite-domain tabulation of extracted classifier / validator tables (interpretation of the dumped MIR, nothing executed)",
  "text": "For every builder / write / finish entry point and the inner writers: each documented precondition has an error exit of the documented variant whose nearest dominating guard is the documented predicate on the documented operands (relation canonicalised incl. strictness, invariant under a<=b <-> !(a>b)); no undocumented rejection exists; "
          "success exits lie on the not-finished edge; the internal->public error conversion equals the documented table; sibling video entry points maintain each other's monotonicity state (defect found and repaired); ADTS/Opus validators are guarded on the frame bytes / codec arm."
          " R7: encode_video's own keyframe decision is tabulated over all 256 NAL header bytes (1- and 2-NAL frames) by finite-domain interpretation of the dumped MIR and must equal the codec module's public classifier (H.264, H.265)."
          " R8: ADTS acceptance table (every header field over all its values, every short length) by finite-domain interpretation. R9: the VP9 keyframe classifier and configuration extractor accept the same frame-header and marker bytes."
          " R10: finish refuses only when already finished, on a sink failure or on a 32-bit size limit (all error exits / `?` of the finalisation tree). R11: parameter sets are found wherever they stand in the first keyframe (C07.R13 instances). R4 also: a state field read by any entry's rejection guard and maintained by one video entry is maintained by its sibling. R11 also: the AV1 sequence header is found wherever it stands among the OBUs (C07.R15). R12: MuxerBuilder::build tabulated over codecs x rates x channel counts - a configured audio stream is kept with its values, none appears otherwise.",
  "note": "Table transcribed from docs/contract.md and the property statement (lib/mx/rules/c04.py TABLE). NaN/sub-tick behaviour of f64 comparisons is value-level and not decided. Consuming finish() is a type-level fact (thorough-tier witness)."},
 "C07": {
  "technique": "layout interpretation (stsd selection, records) + HIR evaluation of writer/builder functions + MIR guard extraction for parameter-set slots; read-program extraction vs specification syntax; complete finite-domain tabulation of bit-reader / slot tables (interpretation of the dumped MIR, nothing executed)",
  "text": "Sample-entry type is selected by the config variant, the variant is built from the configured codec by the matching extractor, fall-backs and the fragmented selection chain are checked per codec; every parameter-set slot receives the iterated NAL unit itself, only while empty and only for the spec's NAL type constant (7/8, 32/33/34); "
          "audio entry fields and the AudioSpecificConfig/dOps derive from the one audio configuration; av1C/vpcC field bytes are values of the parsed configuration. Two genuine defects recorded (zero-frame non-H.264 fall-back to avc1; constant fragmented av1C fields). R7-R9: hvcC profile/tier/level bytes are the identity function of the SPS bytes they summarise (all 256 values of the extracted builder+accessor expression); AAC samplingFrequencyIndex match table == ISO/IEC 14496-3 table 1.18; av1C flag bits per configuration field; the AV1 sequence-header parser's read program (transcribed from typed HIR) reads the same bit widths in the same order and yields the same configuration values as a transcription of AV1 spec 5.5.1-5.5.5 on every enumerated syntax path (about 2700 paths)."
          " R10: offset-passing header parsers (VP9) read consecutive fields - every read starts at the offset returned by the read before it on every path (provenance abstract interpretation)."
          " R11: VP9 byte-packed fields occupy disjoint non-empty bit ranges. R12: AV1 bit reader primitives and uvlc tabulated against f(n)/uvlc(). R13: parameter-set slots by NAL header byte (256 values, first wins). R7/R8 also cover the init segment's hvcC/av1C. R14: parse_obu_header tabulated over all 256 header bytes against AV1 5.3. R15: extract_av1_config tabulated over leading OBU sequences - exactly the sequence-header OBU reaches the parser, None iff absent.",
  "note": "Not decided: bit-level correctness of the AV1 sequence-header and VP9 header parsers (value-level). Shares the record-layout instances with C19."},
 "C09": {
  "technique": "layout interpretation: enumeration of the audio trak production for a track-start offset mechanism",
  "text": "Necessary condition only: a track timeline built from stts starts at 0, so preserving an A/V start offset needs an edit list (or a field depending on both first timestamps) in the audio trak. The rule enumerates the audio trak production of every A/V layout; on the pinned tree no mechanism exists: a genuine defect, recorded as a known finding (not small to repair). R2: no drift - run-length tables merge only exactly equal deltas (shared with C03.R6)."
          " R1 also: an edit list must depend on the video track's first timestamp. R2 also: stts deltas are the elements' own durations. R3: every entry point converts its own timestamp with the same stateless function. R4: the video ctts holds pts - dts and is present whenever an offset is non-zero (C03.R5 instances).",
  "note": "Decides that the property cannot hold in general while the mechanism is absent; when one appears, presence and data dependence are checked, not its +-1 tick arithmetic (value-level)."},
 "C12": {
  "technique": "whole-library panic/termination obligation inventory on MIR (overflow checks on) discharged by dominating-guard entailment (Fourier-Motzkin over guards, asserts, loop-header invariants, caller-established parameter facts, callee postconditions), finite-domain evaluation of extracted expressions, and named lemmas with machine-checked side conditions",
  "text": "Every Assert terminator (overflow, bounds, division), every call to a panicking std function and to the crate's always-on assert_invariant!, and every loop reachable from the public surface of api/fragmented/codec/validation is enumerated "
          "(about 350 obligations, 60 loops) and must be discharged: D1 constant / finite-domain evaluation, D2 entailed by the guards that dominate it (with inferred loop-header bounds, trip-count bounds, postconditions of local callees, field "
          "intervals of crate-constructed structs and facts every call site of a non-public function establishes), D3 a named lemma whose applicability pattern and numeric side conditions are re-established from the current source on every run "
          "(L-ITER, L-SCHEDULE, L-ALLOC, L-COUNT, L-WRAP, L-OBUITEM, L-OBUSTEP, L-CURSOR, L-NONEMPTY, L-BOXLEN, L-WIDTH, L-MODSTEP, L-CORRELATED, L-TLS/L-REFCELL/L-SORT). Anything undischarged is a violation unless it is one of the listed known "
          "findings (each with a concrete panicking input). This is the for-all-inputs statement tests cannot make."
          " Slicing a str is discharged only for whole-string ranges (char boundaries).",
  "note": "Assumptions: 64-bit usize; allocation failure/capacity overflow/stack exhaustion excluded; A1 fewer than 2^32-1 samples per track / fragments per muxer; A2 live buffers total < 2^62 bytes. Trusted: the entailment engine (lib/mx/absint.py), "
          "the classification of panicking std callees, the lemma side-condition checkers. `Promptly`: loops are bounded by buffer lengths or constants; a loop bounded only by an input's magnitude is reported. Panics inside dependencies that are not caused by a violated documented precondition are out of scope."},
 "C16": {
  "technique": "value-losing conversion inventory on MIR (narrowing/sign-changing int casts, float->int casts, bit-dropping constant shifts) discharged by operand intervals and dominating-guard entailment (C12 engine) or reported",
  "text": "Decides the necessary structural condition of C16 for every input at once: each of the ~160 value-losing conversions reachable from the public surface either provably keeps its operand inside the target type "
          "(constants, bit masks, field intervals of crate-built structs, callee postconditions, constant widths of byte producers, exact lengths of straight-line-built descriptors, guards whose other arm returns an error; record counts under A1; "
          "queued sample sizes by the guard at every push) or is reported. On the current tree 106 are discharged and 53 are genuine unguarded truncations listed as known findings with boundary-crossing inputs (durations, composition offsets, "
          "parameter-set lengths, dimensions, sample rate, channel count, box/fragment sizes, f64 tick saturation). A new unguarded narrowing, a weakened or removed range guard, or a narrowed intermediate is a violation."
          " R4: the run-length duration/offset tables carry every per-sample value exactly (no clamping, merging only on equality). R5: the fragment's 64-bit base decode time holds the own first sample's decode time (minus a write-once constant at most), not an estimate or clamp.",
  "note": "Decides that no conversion loses bits silently; does not decide that the wide value is the mathematically right one (C01-C03, C08 own the formulas). A cast protected only by the always-on invariant macro (panic) stays listed. "
          "Clamping conversions (try_from(..).unwrap_or / min) are not inventoried. Assumptions: 64-bit usize; A1 fewer than 2^32-1 records per table."},
 "C11": {
  "technique": "layout interpretation of the media-segment and init-segment builders + MIR slices in flush_segment",
  "text": "trun per-sample fields have the required operator shape (duration = next.dts - this.dts, cts = pts - dts signed, flags constants with the non-sync bit exactly on the non-sync arm, size = len(data)); tfdt/trun are version 1; the base decode time handed to the builder depends on the segment's own samples (defect found and repaired: it was estimated from the previous segment); "
          "the init segment is built from the construct-time config only, the config has no writer after construction, and the cache is consulted first. R5: queued samples are immutable between write and segment building (flags/times written are the submitted ones)."
          " R5 also: the queued record's fields are the call's own parameters unmodified (sync flag, pts, dts). R2 also: the base decode time is the own first DTS, or that minus a write-once state field in exact arithmetic (saturating only when the subtrahend is a decode time); clamps against another value are recorded as not decided.",
  "note": "Not decided: numeric monotonicity of base times and the 3000-tick default of a lone sample."},
 "C14": {
  "technique": "layout interpretation of the converters + exhaustive evaluation of the *extracted* ADTS bit-field formulas + MIR guard extraction",
  "text": "Both Annex-B converters have exactly the production rep(iter(data)){skip empty | be32(len(nal)) ++ nal} ++ whole-input fall-back, are identical to each other, and the iterator yields sub-slices of its input; the ADTS validator returns frame[h..L] where the extracted expressions for h and L are decided equal to the spec formulas over all values of the bytes they read, under the guards h <= L <= len(frame). R4: the start-code scanner steps by 1 from `from`, reports (i,3)/(i,4) only under the exact byte patterns, and returns None only when i + 3 > len is entailed (or the input trivially has no room)."
          " R2 also: unit boundaries of the NAL iterator (scan from cursor; unit start = hit position + length; end scan from exactly the unit start; cursor := unit end). R5: what the writers queue is exactly the converter's / ADTS validator's output."
          " R6: ADTS header fields are read at the bit positions of ISO/IEC 13818-7. R4 also: a start-code form is taken whenever it fits.",
  "note": "Not decided: that the start-code scanner finds exactly the spec's 3/4-byte start codes in every byte string (a for-all over strings with overlapping patterns; value-level)."},
 "C18": {
  "technique": "layout interpretation: user-data production vs iTunes metadata layout; non-interference of the metadata parameter over the whole moov production",
  "text": "udta is emitted iff the item list is non-empty and has the layout udta>meta(0)>hdlr(mdir)+ilst>items with data(type 1, locale 0) followed by the title's bytes verbatim; the `metadata` parameter occurs nowhere in the moov production except under udta and in the mdhd language field; both mdhd language fields derive from metadata.language with the `und` default. R4: the (year, month, day) expressions extracted from the creation-date conversion equal the proleptic Gregorian calendar on every day of 400-year eras (exhaustive evaluation of the extracted expressions; year affine in the era). R5: single-attribute metadata setters update in place; only with_metadata(Metadata) replaces."
          " R6: both language encoders evaluated on all 26^3 codes against the ISO formula. R4 also: day count = secs/86400 and the hour/minute/second expressions evaluated for all 86400 seconds of a day."
          " R5 also: attribute setters store the parameter itself, not rewritten in place; R3 also: the string handed to the language packing is metadata.language or `und` through Option plumbing only.",
  "note": "Not decided: the calendar conversion and the 5-bit language packing as arithmetic functions; termination for huge creation times is C12."},
 "C20": {
  "technique": "MIR rules on the bin crate: single-consumer flow of the output File, argument slices, dominance by the Ok edge of finish, store inventory of the verdict flag, loop-variant guard extraction",
  "text": "The File created for the output path is consumed only by MuxerBuilder::new and nothing else in the mux command writes files; every builder/muxer argument is sourced from the matching CLI option (documented default codecs), one frame at t=0 with key=true; both completion messages are dominated by the Ok edge of finish() and all library Results are propagated, main returns the Result; "
          "the validate verdict is initialised true, only stored false, and stored false on every error branch, the hex validator rejects under {empty, odd, non-hex}; the info box walk advances by a size guarded non-zero and is bounded by the buffer length. main hands every parsed option to the command parameter of the same name; no builder call replaces a configuration field wholesale after another call configured it; on the mux path no Result is discarded through .ok()/unwrap_or*/err()."
          " R5: the non-zero guard tests the very value added to the cursor. R7: reported frame counts are incremented unconditionally, exactly once after each successful library frame write."
          " R4 also: the verdict is cleared only under the documented condition chains; odd-length guard decided structurally. R1 also: the library's sink is the created File itself. R2 also: the payload handed to write_video/write_audio is the decoded file content itself, never modified.",
  "note": "Not decided: byte equality of the CLI output with an in-process library run; clap's own parsing."},
}
