"""Per-property claim texts for MANIFEST.json (kept next to the rules so they stay in sync)."""
NOTES = ("Technique family: static analysis only. Every check re-runs the mxlint driver on /repo's current working tree "
         "(nothing in /repo is executed). Known genuine defects are listed in known_findings.json by semantic key.")
NOT_APPLICABLE = {}
CLAIMS = {
 "C06": {
  "technique": "who-may-call + dominance (sink-guard) + store inventory + data-dependence slices on MIR",
  "text": "Decides the structural clauses of C06 for all paths/inputs: only the counted helper touches the sink and only via write_all; "
          "every sink write is dominated by `finalized=true` behind the finalized test (nothing before finish, nothing after, once); frame-writing "
          "entries succeed only on the flag-false edge; the byte counter is updated only beside the write with len(buf); MuxerStats fields are "
          "sourced from the right queues/counter and only on the Ok edge. Static rules give the for-all-histories part tests cannot; numeric tolerance of duration is not decided.",
  "note": "Trusted: rustc MIR, std Write::write_all contract, externals classification. Not decided: +-1 tick tolerance of duration_secs; "
          "R6 (end time = last sample's pts+delta is the maximum only when pts is monotone) is recorded as a known finding when it applies."},
}
