"""Finite-domain evaluation of small pure decision functions over MIR facts.

Used where a property clause says that two pieces of code implement the *same finite table* (a classifier of a header byte, a
code -> constant map): the extracted function is tabulated over its whole (<= 256 value) input domain and the tables are compared.
Nothing of the crate is executed; the facts dumped by the driver are interpreted under an explicit model of the few library
abstractions such functions use (listed in MODELS below and in DESIGN.md 8.1).  Anything outside the model makes the evaluation
fail (`Unsupported`), and the calling rule fails closed.

Values: python ints (integers, bools, chars), `UNIT`, `Adt(name, variant, fields)`, model objects (`Bytes`, `OnceIter`, `Record`),
`Opaque` (a value the model does not know; it may be moved around but a branch on it is `Unsupported`).
References are transparent (a `&x` evaluates to the value of x); writes through a reference are `Unsupported`.
"""
from . import mir

UNIT = ()


class Unsupported(Exception):
    pass


class Opaque:
    def __init__(self, why=""):
        self.why = why

    def __repr__(self):
        return "Opaque(%s)" % self.why


class Adt:
    def __init__(self, name, variant, fields=(), names=None):
        self.name, self.variant, self.fields = name, variant, list(fields)
        self.names = list(names) if names else None

    def get(self, fname):
        if self.names and fname in self.names:
            return self.fields[self.names.index(fname)]
        return None

    def __repr__(self):
        return "%s#%s%r" % (self.name, self.variant, self.fields)

    def __eq__(self, o):
        return isinstance(o, Adt) and (self.name, self.variant, self.fields) == (o.name, o.variant, o.fields)

    def __hash__(self):
        return hash((self.name, self.variant))


class Bytes:
    """a byte slice of which only a prefix is known; `minlen` bytes are known to exist"""

    def __init__(self, known, minlen=None, tag="", exact=None):
        self.known, self.minlen, self.tag = dict(enumerate(known)) if not isinstance(known, dict) else dict(known), (len(known) if minlen is None else minlen), tag
        self.exact = exact          # exact length if it is part of the scenario
        if exact is not None:
            self.minlen = exact
        self.range = None           # (start, end) if this value is a sub-slice taken with `&s[a..b]`

    def __repr__(self):
        return "Bytes(%s%r)" % (self.tag, self.known)


class OnceIter:
    """an iterator yielding the given items once each"""

    def __init__(self, items):
        self.items = list(items)
        self.pos = 0

    def next(self):
        if self.pos < len(self.items):
            self.pos += 1
            return some(self.items[self.pos - 1])
        return none()


class Record:
    """a struct of which some (dotted) field paths are known; everything else is Opaque"""

    def __init__(self, fields):
        self.fields = fields


def some(x):
    return Adt("Option", 1, [x])


def none():
    return Adt("Option", 0, [])


_W = {"u8": 8, "u16": 16, "u32": 32, "u64": 64, "u128": 128, "usize": 64, "i8": 8, "i16": 16, "i32": 32, "i64": 64, "i128": 128, "isize": 64, "bool": 1, "char": 32}


def wrap(v, ty):
    if not isinstance(v, int) or ty not in _W:
        return v
    w = _W[ty]
    v &= (1 << w) - 1
    if ty.startswith("i") and v >> (w - 1):
        v -= 1 << w
    return v


_BIN = {
    "Add": lambda a, b: a + b, "Sub": lambda a, b: a - b, "Mul": lambda a, b: a * b, "BitAnd": lambda a, b: a & b, "BitOr": lambda a, b: a | b,
    "BitXor": lambda a, b: a ^ b, "Shl": lambda a, b: a << b, "Shr": lambda a, b: a >> b, "Eq": lambda a, b: int(a == b), "Ne": lambda a, b: int(a != b),
    "Lt": lambda a, b: int(a < b), "Le": lambda a, b: int(a <= b), "Gt": lambda a, b: int(a > b), "Ge": lambda a, b: int(a >= b),
    "Div": lambda a, b: a // b if b else None, "Rem": lambda a, b: a % b if b else None,
}


class Machine:
    def __init__(self, u, models=None, max_steps=20000, max_depth=12):
        self.u = u
        self.models = dict(MODELS)
        if models:
            self.models.update(models)
        self.lenient = False      # nested local calls that cannot be evaluated yield Opaque instead of failing the whole evaluation
        self.pred_models = [(lambda n: n.endswith("::from") and ("convert" in n or "From<" in n), _from_lossless), (lambda n: n.endswith("::branch") and "Try" in n, _try_branch), (lambda n: n.endswith("::index") and ("Index" in n or "slice::index" in n), _index),
                            (lambda n: n in ("std::iter::range::next",) or (n.endswith("::next") and "ops::Range<" in n), _range_next),
                            (lambda n: n.endswith("::from_residual"), _from_residual)]     # [(predicate on the normalised callee path, model)]
        self.max_steps, self.max_depth = max_steps, max_depth
        self.steps = 0
        self.trace = []           # local functions interpreted (for evidence)
        self._norm = {}
        for k, b in u.bodies.items():
            if not b.get("in_test_cfg"):
                self._norm.setdefault(mir.norm(k), []).append(k)

    # ---- operands / places -------------------------------------------------------------------------------------------------
    def operand(self, fr, op):
        k = op["k"]
        if k == "const":
            if "promoted" in op:
                pb = fr["body"].get("promoted", [])
                return self.run_body(pb[op["promoted"]], [], fr["depth"] + 1)
            if "v" in op:
                return op["v"]
            if "fn" in op:
                return ("fn", op["callee"].get("resolved") or op["callee"]["decl"])
            if op.get("ty") == "()":
                return UNIT
            if "fbits" in op:
                return Opaque("float")
            c = self.u.consts.get(str(op.get("text", "")))
            if c is not None and isinstance(c.get("init"), dict):
                v = _const_init(c["init"])
                if v is not None:
                    return v
            return Opaque("const " + str(op.get("text", "?"))[:40])
        return self.read_place(fr, op["place"])

    def read_place(self, fr, pl):
        v = fr["locals"].get(pl["l"], None)
        if v is None:
            v = Opaque("unset _%d" % pl["l"])
        for p in pl["p"]:
            v = self.project(fr, v, p)
        return v

    def project(self, fr, v, p):
        k = p["k"]
        if k in ("deref", "downcast"):
            return v
        if isinstance(v, Opaque):
            return v
        if k == "field":
            if isinstance(v, Record):
                name = p.get("name", str(p["i"]))
                if name in v.fields:
                    return v.fields[name]
                sub = {kk[len(name) + 1:]: vv for kk, vv in v.fields.items() if kk.startswith(name + ".")}
                return Record(sub) if sub else Opaque("field " + name)
            if isinstance(v, Adt):
                return v.fields[p["i"]] if p["i"] < len(v.fields) else Opaque("field")
            if isinstance(v, tuple) and p["i"] < len(v):
                return v[p["i"]]
            return Opaque("field of %r" % (v,))
        if k in ("index", "cindex"):
            i = fr["locals"].get(p["local"]) if k == "index" else (None if p.get("from_end") else p["offset"])
            if isinstance(v, Bytes) and isinstance(i, int):
                return v.known.get(i, Opaque("%sbyte[%d]" % (v.tag, i)))
            if isinstance(v, (list, tuple)) and isinstance(i, int) and i < len(v):
                return v[i]
            return Opaque("index")
        return Opaque("proj " + k)

    def write_place(self, fr, pl, val):
        if not pl["p"]:
            fr["locals"][pl["l"]] = val
            return
        # field-wise initialisation of a local aggregate: `_5.0 = a; _5.1 = b`
        if len(pl["p"]) == 1 and pl["p"][0]["k"] == "field":
            cur = fr["locals"].get(pl["l"])
            i = pl["p"][0]["i"]
            if cur is None or isinstance(cur, Opaque):
                cur = Adt("?", 0, [])
            if isinstance(cur, Adt):
                while len(cur.fields) <= i:
                    cur.fields.append(Opaque("uninit"))
                cur.fields[i] = val
                fr["locals"][pl["l"]] = cur
                return
        base = fr["locals"].get(pl["l"])
        if isinstance(base, Adt) and all(q["k"] in ("deref", "field", "downcast") for q in pl["p"]):
            # a store into a field of a modelled struct, possibly through `&mut self` (references are aliases of the same object)
            tgt = base
            fields_ = [q for q in pl["p"] if q["k"] == "field"]
            for q in fields_[:-1]:
                tgt = tgt.fields[q["i"]] if isinstance(tgt, Adt) and q["i"] < len(tgt.fields) else None
            if isinstance(tgt, Adt) and fields_:
                i = fields_[-1]["i"]
                while len(tgt.fields) <= i:
                    tgt.fields.append(Opaque("uninit"))
                tgt.fields[i] = val
                return
        if isinstance(base, Record) and all(q["k"] in ("deref", "field") for q in pl["p"]):
            # a store into a field of a modelled record (state update of `self`): remembered, later loads see it
            base.fields[".".join(q.get("name", str(q.get("i"))) for q in pl["p"] if q["k"] == "field")] = val
            return
        if isinstance(base, Opaque):
            return
        raise Unsupported("write through projection at %s" % mir.loc_of(fr["body"]))

    # ---- rvalues -----------------------------------------------------------------------------------------------------------
    def rvalue(self, fr, rv, dest_ty):
        k = rv["k"]
        if k == "use":
            return self.operand(fr, rv["op"])
        if k in ("ref", "rawptr", "copyderef"):
            return self.read_place(fr, rv["place"])
        if k == "cast":
            v = self.operand(fr, rv["op"])
            if isinstance(v, int) and rv["kind"] in ("IntToInt",):
                return wrap(v, rv["to"])
            if rv["kind"].startswith("PointerCoercion") or rv["kind"] in ("Transmute", "PtrToPtr"):
                return v
            return v if isinstance(v, Opaque) else Opaque("cast " + rv["kind"])
        if k == "binop":
            a, b = self.operand(fr, rv["a"]), self.operand(fr, rv["b"])
            op = rv["op"]
            with_ovf = op.endswith("WithOverflow")
            base = op[:-len("WithOverflow")] if with_ovf else op.replace("Unchecked", "")
            if isinstance(a, int) and isinstance(b, int) and base in _BIN:
                r = _BIN[base](a, b)
                if r is None:
                    raise Unsupported("division by zero in the model")
                if with_ovf:
                    ty = dest_ty.strip("()").split(",")[0].strip()
                    w = wrap(r, ty)
                    return (w, int(w != r))
                if base in ("Eq", "Ne", "Lt", "Le", "Gt", "Ge"):
                    return r
                return wrap(r, dest_ty)
            if base in ("Eq", "Ne") and isinstance(a, Adt) and isinstance(b, Adt):
                return int((a == b) == (base == "Eq"))
            if isinstance(a, LenOf) and isinstance(b, int) or isinstance(b, LenOf) and isinstance(a, int):
                r = _len_cmp(base, a, b)
                if r is not None:
                    return r
            o = Opaque("bin %s" % op)
            return (o, 0) if with_ovf else o
        if k == "unop":
            a = self.operand(fr, rv["a"])
            op = rv["op"]
            if op == "PtrMetadata":
                if isinstance(a, Bytes):
                    return a.exact if a.exact is not None else LenOf(a)
                return Opaque("len")
            if isinstance(a, int):
                if op == "Not":
                    return (1 - a) if dest_ty == "bool" else wrap(~a, dest_ty)
                if op == "Neg":
                    return wrap(-a, dest_ty)
            return Opaque("un " + op)
        if k == "aggregate":
            ops = [self.operand(fr, o) for o in rv["ops"]]
            tag = rv.get("agg")
            if tag == "tuple":
                return tuple(ops) if ops else UNIT
            if tag == "array":
                return list(ops)
            if tag == "adt":
                a = self.u.adts.get(rv["adt"])
                names = [v["name"] for v in a["variants"]] if a and a.get("variants") else None
                if rv["adt"].endswith("option::Option"):
                    return some(ops[0]) if rv["variant"] == "Some" else none()
                if rv["adt"].endswith("result::Result"):
                    return Adt("Result", 0 if rv["variant"] == "Ok" else 1, ops)
                vi = names.index(rv["variant"]) if names and rv["variant"] in names else 0
                return Adt(rv["adt"], vi, ops, rv.get("fields"))
            if tag == "closure":
                return ("closure", rv["closure"], ops)
            return Opaque("aggregate")
        if k == "discr":
            v = self.read_place(fr, rv["place"])
            if isinstance(v, Adt):
                return v.variant
            if isinstance(v, int):
                return v
            return Opaque("discr")
        if k == "repeat":
            return Opaque("repeat")
        return Opaque("rvalue " + k)

    # ---- bodies ------------------------------------------------------------------------------------------------------------
    def body_of(self, name):
        if name in self.u.bodies and not self.u.bodies[name].get("in_test_cfg"):
            return self.u.bodies[name]
        c = self._norm.get(mir.norm(name), [])
        return self.u.bodies[c[0]] if len(c) == 1 else None

    def call_fn(self, name, args, depth=0):
        b = self.body_of(name)
        if b is None:
            raise Unsupported("no body for " + name)
        return self.run_body(b, args, depth)

    def run_body(self, b, args, depth):
        if depth > self.max_depth:
            raise Unsupported("call depth")
        fr = {"body": b, "locals": {}, "depth": depth}
        for i, a in enumerate(args):
            fr["locals"][i + 1] = a
        if b.get("path"):
            self.trace.append(mir.norm(b["path"]))
        bb = 0
        while True:
            self.steps += 1
            if self.steps > self.max_steps:
                raise Unsupported("step budget exhausted (loop outside the model?) in %s" % b.get("path"))
            blk = b["blocks"][bb]
            for st in blk["stmts"]:
                if st["k"] == "assign":
                    self.write_place(fr, st["place"], self.rvalue(fr, st["rv"], st["place"]["ty"]))
                elif st["k"] in ("setdiscr",):
                    raise Unsupported("set discriminant")
            t = blk["term"]
            k = t["k"]
            if k == "goto":
                bb = t["target"]
            elif k == "return":
                v = fr["locals"].get(0)
                return UNIT if v is None else v
            elif k == "switch":
                d = self.operand(fr, t["discr"])
                if isinstance(d, LenOf):
                    raise Unsupported("branch on a slice length at %s" % _loc(t))
                if not isinstance(d, int):
                    raise Unsupported("branch on a value outside the model (%r) at %s" % (d, _loc(t)))
                nxt = t["otherwise"]
                for v, tgt in t.get("arms") or []:
                    if wrap(int(v), t.get("discr_ty", "")) == wrap(d, t.get("discr_ty", "")):
                        nxt = tgt
                        break
                if nxt is None:
                    raise Unsupported("no switch target")
                bb = nxt
            elif k == "assert":
                c = self.operand(fr, t["cond"])
                if isinstance(c, int) and bool(c) != bool(t["expected"]):
                    raise Unsupported("the modelled input panics at %s" % _loc(t))
                bb = t["target"]
            elif k == "drop":
                bb = t["target"]
            elif k == "call":
                name, info = mir.callee(t)
                args2 = [self.operand(fr, a) for a in t["args"]]
                r = self.do_call(name, info, args2, t, depth)
                self.write_place(fr, t["dest"], r)
                if t.get("target") is None:
                    raise Unsupported("diverging call %s at %s" % (name, _loc(t)))
                bb = t["target"]
            elif k == "unreachable":
                raise Unsupported("unreachable reached in %s" % b.get("path"))
            else:
                raise Unsupported("terminator " + k)

    def do_call(self, name, info, args, t, depth):
        if name is not None and args and isinstance(args[0], OnceIter) and mir.norm(name).endswith("::next") and "std::iter::" in name:
            return args[0].next()         # adaptor structs (Filter, Map, ..) are modelled by their eagerly computed item list
        if name is None:
            # call of a closure value through Fn* traits is resolved by the driver; anything else is outside the model
            raise Unsupported("indirect call at %s" % _loc(t))
        n = mir.norm(name)
        for key, fn in self.models.items():
            if n == key or n.endswith("::" + key):
                return fn(self, args, depth)
        for pred, fn in self.pred_models:
            if pred(n):
                return fn(self, args, depth)
        last = n.split("::")[-1]
        if last in ("call", "call_mut", "call_once") and args and isinstance(args[0], tuple) and args[0] and args[0][0] == "closure":
            extra = list(args[1]) if isinstance(args[1], tuple) else [args[1]]
            return self.call_closure(args[0], extra, depth)
        if mir.is_local_call(info):
            b = self.body_of(name)
            if b is not None:
                if not self.lenient:
                    return self.run_body(b, args, depth + 1)
                try:
                    return self.run_body(b, args, depth + 1)
                except Unsupported as ex:
                    # a helper whose value the model cannot compute (formatting, diagnostics): its result is unknown; the caller only
                    # fails if it then branches on it
                    return Opaque("call %s: %s" % (n, str(ex)[:60]))
        return Opaque("call " + n)

    def call_closure(self, clo, args, depth):
        b = self.body_of(clo[1])
        if b is None:
            raise Unsupported("closure body " + clo[1])
        env = Adt("<closure-env>", 0, clo[2])
        return self.run_body(b, [env] + list(args), depth + 1)


def _const_init(e):
    """value of a constant's initialiser when it is a literal or an array of literals"""
    k = e.get("k")
    if k in ("droptemps", "type", "addrof"):
        return _const_init(e["a"])
    if k == "lit" and e.get("lit") in ("int", "byte", "char", "bool"):
        try:
            return int(e["v"]) if not isinstance(e["v"], bool) else int(e["v"])
        except (TypeError, ValueError):
            return None
    if k == "lit" and e.get("lit") == "bytestr":
        return list(e["v"])
    if k == "array":
        vals = [_const_init(x) for x in e.get("es", [])]
        return vals if all(isinstance(v, int) for v in vals) else None
    return None


class LenOf:
    """length of a modelled slice: only comparisons against its known lower bound are decided"""

    def __init__(self, b):
        self.b = b


def _len_cmp(op, a, b):
    """compare a modelled slice length (only its lower bound is known) with a constant; None when the bound does not decide it"""
    flip = {"Lt": "Gt", "Le": "Ge", "Gt": "Lt", "Ge": "Le", "Eq": "Eq", "Ne": "Ne"}
    if isinstance(b, LenOf):
        if op not in flip:
            return None
        a, b, op = b, a, flip[op]
    if a.b.exact is not None:
        x = a.b.exact
        return {"Gt": int(x > b), "Ge": int(x >= b), "Lt": int(x < b), "Le": int(x <= b), "Eq": int(x == b), "Ne": int(x != b)}.get(op)
    lo = a.b.minlen
    if op == "Gt" and lo > b or op == "Ge" and lo >= b or op == "Ne" and lo > b:
        return 1
    if op == "Lt" and lo >= b or op == "Le" and lo > b or op == "Eq" and lo > b:
        return 0
    return None


def _loc(t):
    s = t.get("span") or {}
    return "%s:%s" % (s.get("file"), s.get("line"))


# ---- library model -------------------------------------------------------------------------------------------------------------
def _len(m, a, d):
    if isinstance(a[0], Bytes):
        return a[0].exact if a[0].exact is not None else LenOf(a[0])
    return Opaque("len")


def _is_empty(m, a, d):
    x = a[0]
    if isinstance(x, Bytes):
        return int(x.minlen == 0 and not x.known)
    if isinstance(x, (list, tuple)):
        return int(len(x) == 0)
    return Opaque("is_empty")


def _range_new(m, a, d):
    return Adt("RangeInclusive", 0, [a[0], a[1]])


def _range_contains(m, a, d):
    r, v = a[0], a[1]
    if isinstance(r, Adt) and len(r.fields) == 2 and all(isinstance(x, int) for x in r.fields) and isinstance(v, int):
        if r.name == "RangeInclusive":
            return int(r.fields[0] <= v <= r.fields[1])
        return int(r.fields[0] <= v < r.fields[1])
    return Opaque("contains")


def _any(m, a, d):
    it, clo = a[0], a[1]
    if not isinstance(it, OnceIter):
        return Opaque("any over unknown iterator")
    while True:
        x = it.next()
        if x.variant == 0:
            return 0
        r = m.call_closure(clo, [x.fields[0]], d)
        if not isinstance(r, int):
            raise Unsupported("closure result outside the model")
        if r:
            return 1


def _all(m, a, d):
    it, clo = a[0], a[1]
    if not isinstance(it, OnceIter):
        return Opaque("all over unknown iterator")
    while True:
        x = it.next()
        if x.variant == 0:
            return 1
        r = m.call_closure(clo, [x.fields[0]], d)
        if not isinstance(r, int):
            raise Unsupported("closure result outside the model")
        if not r:
            return 0


def _drain(it):
    out = []
    while True:
        x = it.next()
        if x.variant == 0:
            return out
        out.append(x.fields[0])


def _slice_iter(m, a, d):
    x = a[0]
    if isinstance(x, Bytes) and x.exact is not None:
        return OnceIter([x.known.get(i, Opaque("byte[%d]" % i)) for i in range(x.exact)])
    if isinstance(x, list):
        return OnceIter(list(x))
    return Opaque("iter")


def _take(m, a, d):
    it, n = a[0], a[1]
    if isinstance(it, OnceIter) and isinstance(n, int):
        return OnceIter(_drain(it)[:n])
    return Opaque("take")


def _enumerate(m, a, d):
    it = a[0]
    if isinstance(it, OnceIter):
        return OnceIter([(i, x) for i, x in enumerate(_drain(it))])
    return Opaque("enumerate")


def _sat_sub(m, a, d):
    if isinstance(a[0], int) and isinstance(a[1], int):
        return max(a[0] - a[1], 0)
    return Opaque("saturating_sub")


def _filter(m, a, d):
    it, clo = a[0], a[1]
    if not isinstance(it, OnceIter):
        return Opaque("filter over unknown iterator")
    keep = []
    for x in _drain(it):
        r = m.call_closure(clo, [x], d)
        if not isinstance(r, int):
            raise Unsupported("filter predicate outside the model")
        if r:
            keep.append(x)
    return OnceIter(keep)


def _map(m, a, d):
    it, clo = a[0], a[1]
    if not isinstance(it, OnceIter):
        return Opaque("map over unknown iterator")
    return OnceIter([m.call_closure(clo, [x], d) for x in _drain(it)])


def _user_iter(m, it, d):
    """a value of a crate-local type with its own `Iterator::next`: run that body until it yields None (bounded); the items in order"""
    if not isinstance(it, Adt) or it.name in ("Option", "Result"):
        return None
    base = it.name.split("<")[0]
    cands = [k for k, b in m.u.bodies.items() if k.endswith("as std::iter::Iterator>::next") and b.get("impl_self", "").split("<")[0] == base and not b.get("in_test_cfg")]
    if len(cands) != 1:
        return None
    items = []
    for _ in range(256):
        r = m.run_body(m.u.bodies[cands[0]], [it], d + 1)
        if not (isinstance(r, Adt) and r.name == "Option"):
            raise Unsupported("next() of %s outside the model" % base)
        if r.variant == 0:
            return OnceIter(items)
        items.append(r.fields[0])
    raise Unsupported("iterator %s does not end within 256 items" % base)


def _find(m, a, d):
    it, clo = a[0], a[1]
    if not isinstance(it, OnceIter):
        it = _user_iter(m, it, d) or it
    if not isinstance(it, OnceIter):
        return Opaque("find over unknown iterator")
    for x in _drain(it):
        r = m.call_closure(clo, [x], d)
        if not isinstance(r, int):
            raise Unsupported("find predicate outside the model")
        if r:
            return some(x)
    return none()


def _from_residual(m, a, d):
    x = a[0]
    if isinstance(x, Adt) and x.name == "Option":
        return none()
    if isinstance(x, Adt) and x.name == "Result":
        return x
    return Opaque("from_residual")


def _range_next(m, a, d):
    r = a[0]
    if isinstance(r, Adt) and r.name.endswith("ops::Range") and len(r.fields) == 2 and all(isinstance(v, int) for v in r.fields):
        if r.fields[0] < r.fields[1]:
            r.fields[0] += 1
            return some(r.fields[0] - 1)
        return none()
    return Opaque("range next")


def _next(m, a, d):
    return a[0].next() if isinstance(a[0], OnceIter) else Opaque("next")


def _unwrap_or(m, a, d):
    x = a[0]
    if isinstance(x, Adt) and x.name == "Option":
        return x.fields[0] if x.variant == 1 else a[1]
    if isinstance(x, Adt) and x.name == "Result":
        return x.fields[0] if x.variant == 0 else a[1]
    return Opaque("unwrap_or")


def _starts_with(m, a, d):
    x, pre = a[0], a[1]
    if isinstance(pre, Bytes):
        pre = [pre.known.get(i) for i in range(pre.exact)] if pre.exact is not None else None
    if isinstance(x, Bytes) and isinstance(pre, list) and all(isinstance(v, int) for v in pre):
        if x.exact is not None and x.exact < len(pre):
            return 0
        if x.minlen < len(pre) and x.exact is None:
            return Opaque("starts_with: length unknown")
        got = [x.known.get(i) for i in range(len(pre))]
        if all(isinstance(v, int) for v in got):
            return int(got == pre)
        if any(isinstance(v, int) and v != p_ for v, p_ in zip(got, pre)):
            return 0
    return Opaque("starts_with")


def _first(m, a, d):
    x = a[0]
    if isinstance(x, Bytes):
        return some(x.known[0]) if 0 in x.known else (none() if x.minlen == 0 else Opaque("first"))
    return Opaque("first")


def _get(m, a, d):
    x, i = a[0], a[1]
    if isinstance(x, Bytes) and isinstance(i, int):
        if i in x.known:
            return some(x.known[i])
        return Opaque("get %d" % i)
    return Opaque("get")


def _is_some(m, a, d):
    return int(a[0].variant == 1) if isinstance(a[0], Adt) and a[0].name == "Option" else Opaque("is_some")


def _index(m, a, d):
    x, i = a[0], a[1]
    if isinstance(x, Bytes) and isinstance(i, Adt) and "Range" in i.name and len(i.fields) == 2 and all(isinstance(v, int) for v in i.fields):
        r = Bytes({k - i.fields[0]: v for k, v in x.known.items() if i.fields[0] <= k < i.fields[1]}, minlen=max(i.fields[1] - i.fields[0], 0), tag=x.tag + "[..]", exact=max(i.fields[1] - i.fields[0], 0))
        r.range = (i.fields[0], i.fields[1])
        if x.exact is not None and (i.fields[1] > x.exact or i.fields[0] > i.fields[1]):
            raise Unsupported("the modelled input panics: range %d..%d of a slice of length %d" % (i.fields[0], i.fields[1], x.exact))
        return r
    if isinstance(x, Bytes) and isinstance(i, Adt) and i.name.endswith("RangeFrom") and len(i.fields) == 1 and isinstance(i.fields[0], int):
        st = i.fields[0]
        if x.exact is not None and st > x.exact:
            raise Unsupported("the modelled input panics: range %d.. of a slice of length %d" % (st, x.exact))
        r = Bytes({k - st: v for k, v in x.known.items() if k >= st}, minlen=max(x.minlen - st, 0), tag=x.tag + "[..]", exact=(x.exact - st) if x.exact is not None else None)
        r.range = (st, x.exact)
        return r
    if isinstance(x, Bytes) and isinstance(i, Adt) and i.name.endswith("RangeTo") and len(i.fields) == 1 and isinstance(i.fields[0], int):
        en = i.fields[0]
        if x.exact is not None and en > x.exact:
            raise Unsupported("the modelled input panics: range ..%d of a slice of length %d" % (en, x.exact))
        r = Bytes({k: v for k, v in x.known.items() if k < en}, minlen=en, tag=x.tag + "[..]", exact=en)
        r.range = (0, en)
        return r
    if isinstance(x, Bytes) and isinstance(i, int):
        return x.known.get(i, Opaque("byte[%d]" % i))
    return Opaque("index")


def _try_branch(m, a, d):
    x = a[0]
    if isinstance(x, Adt) and x.name == "Result":
        return Adt("ControlFlow", 0, [x.fields[0]]) if x.variant == 0 else Adt("ControlFlow", 1, [x])
    if isinstance(x, Adt) and x.name == "Option":
        return Adt("ControlFlow", 0, [x.fields[0]]) if x.variant == 1 else Adt("ControlFlow", 1, [x])
    return Opaque("branch")


def _is_none(m, a, d):
    return int(a[0].variant == 0) if isinstance(a[0], Adt) and a[0].name == "Option" else Opaque("is_none")


def _to_vec(m, a, d):
    return a[0]          # an owned copy holds the same bytes: the model keeps the object (identity = provenance)


def _ident(m, a, d):
    return a[0]


def _from_lossless(m, a, d):
    # `u64::from(x)` and the other std `From` conversions between integers / bool are value-preserving
    if len(a) == 1 and isinstance(a[0], (int, Adt, Bytes)):
        return a[0]
    return Opaque("from")


def _eq(m, a, d):
    if isinstance(a[0], (int, Adt)) and isinstance(a[1], (int, Adt)):
        return int(a[0] == a[1])
    return Opaque("eq")


def _ne(m, a, d):
    r = _eq(m, a, d)
    return 1 - r if isinstance(r, int) else r


def _option_map(m, a, d):
    x = a[0]
    if isinstance(x, Adt) and x.name == "Option":
        return some(m.call_closure(a[1], [x.fields[0]], d)) if x.variant == 1 else none()
    return Opaque("map")


def _ok_or(m, a, d):
    x = a[0]
    if isinstance(x, Adt) and x.name == "Option":
        return Adt("Result", 0, [x.fields[0]]) if x.variant == 1 else Adt("Result", 1, [a[1]])
    return Opaque("ok_or")


def _ok_or_else(m, a, d):
    x = a[0]
    if isinstance(x, Adt) and x.name == "Option":
        return Adt("Result", 0, [x.fields[0]]) if x.variant == 1 else Adt("Result", 1, [m.call_closure(a[1], [], d)])
    return Opaque("ok_or_else")


def _and_then(m, a, d):
    x = a[0]
    if isinstance(x, Adt) and x.name == "Option":
        return m.call_closure(a[1], [x.fields[0]], d) if x.variant == 1 else none()
    return Opaque("and_then")


def _option_filter(m, a, d):
    x = a[0]
    if isinstance(x, OnceIter):
        return _filter(m, a, d)
    if isinstance(x, Adt) and x.name == "Option":
        if x.variant == 0:
            return none()
        r = m.call_closure(a[1], [x.fields[0]], d)
        if not isinstance(r, int):
            raise Unsupported("filter predicate outside the model")
        return x if r else none()
    return Opaque("filter")


def _is_some_and(m, a, d):
    x = a[0]
    if isinstance(x, Adt) and x.name == "Option":
        return m.call_closure(a[1], [x.fields[0]], d) if x.variant == 1 else 0
    return Opaque("is_some_and")


MODELS = {
    "core::slice::is_empty": _is_empty, "core::slice::<impl [T]>::is_empty": _is_empty,
    "core::slice::len": _len,
    "std::ops::RangeInclusive::new": _range_new, "std::ops::RangeInclusive::contains": _range_contains, "std::ops::Range::contains": _range_contains,
    "std::iter::Iterator::any": _any, "std::iter::Iterator::all": _all, "std::iter::Iterator::filter": _filter, "std::iter::Iterator::map": _map,
    "std::iter::Iterator::find": _find, "core::slice::iter": _slice_iter, "std::iter::Iterator::take": _take, "std::iter::Iterator::enumerate": _enumerate,
    "core::num::saturating_sub": _sat_sub,
    "<I as std::iter::IntoIterator>::into_iter": _ident, "std::iter::IntoIterator::into_iter": _ident,
    "std::option::Option::unwrap_or": _unwrap_or, "std::result::Result::unwrap_or": _unwrap_or, "std::option::Option::is_some": _is_some, "std::option::Option::is_none": _is_none,
    "std::slice::to_vec": _to_vec, "alloc::slice::to_vec": _to_vec, "core::slice::to_vec": _to_vec, "std::borrow::ToOwned::to_owned": _to_vec,
    "std::option::Option::map": _option_map, "std::option::Option::is_some_and": _is_some_and,
    "std::option::Option::ok_or": _ok_or, "std::option::Option::ok_or_else": _ok_or_else, "std::option::Option::and_then": _and_then,
    "std::option::Option::filter": _option_filter, "std::option::Option::as_ref": _ident, "std::option::Option::as_mut": _ident,
    "std::option::Option::copied": _ident, "std::option::Option::cloned": _ident,
    "std::ops::Try::branch": _try_branch,
    "core::slice::starts_with": _starts_with,
    "core::slice::first": _first, "core::slice::get": _get,
    "std::cmp::PartialEq::eq": _eq, "std::cmp::PartialEq::ne": _ne,
    "std::clone::Clone::clone": _ident, "std::convert::From::from": _ident, "std::convert::Into::into": _ident,
}
