"""MIR utilities over the json facts: CFG, dominators, def chains, pointer origins, call graph,
store summaries.  Everything here is flow-insensitive unless stated otherwise."""
import functools
import re

# ----------------------------------------------------------------------------------------
# basic accessors


def loc_of(x):
    s = x.get("span") if isinstance(x, dict) else None
    if not s:
        return "?"
    return "%s:%d:%d" % (s["file"], s["line"], s["col"])


def term_succs(t, cleanup=False):
    k = t["k"]
    out = []
    if k == "goto":
        out = [t["target"]]
    elif k == "switch":
        out = [a[1] for a in t["arms"]] + [t["otherwise"]]
    elif k in ("call", "drop", "assert"):
        if t.get("target") is not None:
            out = [t["target"]]
        if cleanup and isinstance(t.get("unwind"), int):
            out.append(t["unwind"])
    elif k in ("return", "unreachable", "resume", "terminate"):
        out = []
    else:
        # unknown terminator kinds: parse "-> bbN" targets out of the debug string (fail safe)
        out = [int(m) for m in re.findall(r"bb(\d+)", t.get("dbg", ""))]
    # de-duplicate preserving order
    seen = []
    for o in out:
        if o not in seen:
            seen.append(o)
    return seen


def succs(body, bb, cleanup=False):
    return term_succs(body["blocks"][bb]["term"], cleanup)


@functools.lru_cache(maxsize=None)
def _preds_cached(key):
    return None


def preds(body):
    if "_preds" in body:
        return body["_preds"]
    p = {b["i"]: [] for b in body["blocks"]}
    for b in body["blocks"]:
        for s in succs(body, b["i"]):
            p[s].append(b["i"])
    body["_preds"] = p
    return p


def reachable(body, starts, avoid=()):
    """blocks reachable from any of `starts` (inclusive) without entering `avoid` blocks"""
    seen = set()
    work = [s for s in starts if s not in avoid]
    while work:
        b = work.pop()
        if b in seen:
            continue
        seen.add(b)
        for s in succs(body, b):
            if s not in seen and s not in avoid:
                work.append(s)
    return seen


def co_reachable(body, targets):
    """blocks from which some target is reachable (inclusive)"""
    p = preds(body)
    seen = set()
    work = list(targets)
    while work:
        b = work.pop()
        if b in seen:
            continue
        seen.add(b)
        work.extend(p[b])
    return seen


def live_blocks(body):
    if "_live" not in body:
        body["_live"] = reachable(body, [0])
    return body["_live"]


def dominators(body):
    """dict bb -> set of dominators (iterative; bodies are small)"""
    if "_dom" in body:
        return body["_dom"]
    live = sorted(live_blocks(body))
    p = preds(body)
    dom = {b: set(live) for b in live}
    dom[0] = {0}
    changed = True
    while changed:
        changed = False
        for b in live:
            if b == 0:
                continue
            ps = [q for q in p[b] if q in dom]
            if not ps:
                new = {b}
            else:
                new = set.intersection(*[dom[q] for q in ps]) | {b}
            if new != dom[b]:
                dom[b] = new
                changed = True
    body["_dom"] = dom
    return dom


def postdominators(body, exits=None):
    """dict bb -> set of post-dominators w.r.t. normal exits (return blocks)"""
    live = sorted(live_blocks(body))
    if exits is None:
        exits = [b for b in live if body["blocks"][b]["term"]["k"] == "return"]
    pd = {b: set(live) for b in live}
    for e in exits:
        pd[e] = {e}
    changed = True
    while changed:
        changed = False
        for b in live:
            if b in exits:
                continue
            ss = [s for s in succs(body, b) if s in pd]
            if not ss:
                new = {b}
            else:
                new = set.intersection(*[pd[s] for s in ss]) | {b}
            if new != pd[b]:
                pd[b] = new
                changed = True
    return pd


# ----------------------------------------------------------------------------------------
# calls


def callee(t):
    """(name, info) for a call terminator; name = resolved def path if known else declared path"""
    f = t["func"]
    if f.get("k") == "const" and "callee" in f:
        c = f["callee"]
        name = c.get("resolved") or c["decl"]
        return name, c
    return None, None


def is_local_call(info):
    if info is None:
        return False
    if info.get("resolved"):
        return bool(info.get("resolved_local"))
    return False


def calls(body, live_only=True):
    """yield (bb, term, name, info) for every call terminator"""
    live = live_blocks(body) if live_only else None
    for b in body["blocks"]:
        if b["cleanup"]:
            continue
        if live is not None and b["i"] not in live:
            continue
        t = b["term"]
        if t["k"] == "call":
            name, info = callee(t)
            yield b["i"], t, name, info


def norm(path):
    """strip generic argument lists from a def path: a::B::<T>::f -> a::B::f"""
    out = []
    depth = 0
    i = 0
    s = path
    while i < len(s):
        c = s[i]
        if c == "<":
            # `::<...>` generic args are dropped; `<impl ...>` / `<T as Trait>` segments are kept
            if out[-2:] == [":", ":"]:
                depth = 1
                j = i + 1
                while j < len(s) and depth:
                    if s[j] == "<":
                        depth += 1
                    elif s[j] == ">" and s[j - 1] != "-":
                        depth -= 1
                    j += 1
                # drop the preceding '::'
                out = out[:-2]
                i = j
                continue
        out.append(c)
        i += 1
    return "".join(out)


# ----------------------------------------------------------------------------------------
# def chains


def defs(body):
    """local -> list of ('stmt', bb, idx, stmt) | ('call', bb, term) definitions of the *whole* local"""
    if "_defs" in body:
        return body["_defs"]
    d = {}
    for b in body["blocks"]:
        for i, st in enumerate(b["stmts"]):
            if st["k"] == "assign" and not st["place"]["p"]:
                d.setdefault(st["place"]["l"], []).append(("stmt", b["i"], i, st))
        t = b["term"]
        if t["k"] == "call" and not t["dest"]["p"]:
            d.setdefault(t["dest"]["l"], []).append(("call", b["i"], t))
    body["_defs"] = d
    return d


def partial_defs(body):
    """local -> list of (bb, idx, stmt) assignments to a projection of the local (no deref)"""
    if "_pdefs" in body:
        return body["_pdefs"]
    d = {}
    for b in body["blocks"]:
        for i, st in enumerate(b["stmts"]):
            if st["k"] == "assign" and st["place"]["p"] and not any(e["k"] == "deref" for e in st["place"]["p"]):
                d.setdefault(st["place"]["l"], []).append((b["i"], i, st))
    body["_pdefs"] = d
    return d


def debug_name(body, local):
    for v in body["debug"]:
        p = v.get("place")
        if p and p["l"] == local and not p["p"]:
            return v["name"]
    return None


def proj_key(e):
    k = e["k"]
    if k == "deref":
        return "*"
    if k == "field":
        return e.get("name", str(e["i"]))
    if k == "downcast":
        return "as " + e["variant"]
    if k in ("index", "cindex", "subslice"):
        return "[]"
    return "?"


def place_str(body, place):
    n = debug_name(body, place["l"]) or ("_%d" % place["l"])
    for e in place["p"]:
        k = proj_key(e)
        if k == "*":
            n = "(*%s)" % n
        elif k == "[]":
            n += "[]"
        elif k.startswith("as "):
            n = "(%s %s)" % (n, k)
        else:
            n += "." + k
    return n


# ----------------------------------------------------------------------------------------
# pointer origins
#
# An abstract pointer is (root, path): root = ('arg', i) — the pointer value passed as argument i
# (path is relative to the pointee) | ('local', l) — address of a local | ('static', name) | ('unk',)
# path = tuple of field names / '[]' (element) / 'as Variant'.

from . import externals as X


def _is_ptr_ty(ty):
    return "&" in ty or "*" in ty or "'" in ty


def origins(body, local, _seen=None):
    """set of abstract pointers the (pointer-valued or pointer-containing) local may hold"""
    cache = body.setdefault("_orig", {})
    if local in cache:
        return cache[local]
    if _seen is None:
        _seen = set()
    if local in _seen:
        return set()
    _seen = _seen | {local}
    out = set()
    if 1 <= local <= body["argc"]:
        out.add((("arg", local), ()))
    for d in defs(body).get(local, []):
        if d[0] == "stmt":
            out |= _rv_origins(body, d[3]["rv"], _seen)
        else:
            out |= _call_origins(body, d[2], _seen)
    # partial definitions (e.g. tuple/struct temporaries built field by field) keep pointers too
    for (_bb, _i, st) in partial_defs(body).get(local, []):
        out |= _rv_origins(body, st["rv"], _seen)
    if not out and body["locals"][local]["ty"].startswith("std::boxed::Box<"):
        out.add((("local", local), ("*",)))   # owned heap cell of a local Box
    if len(_seen) == 1:
        cache[local] = out
    return out


def _operand_origins(body, op, _seen):
    if op["k"] in ("copy", "move"):
        return place_value_origins(body, op["place"], _seen)
    return set()


def place_value_origins(body, place, _seen=None):
    """pointers that the *value stored at* `place` may hold"""
    if _seen is None:
        _seen = set()
    if not place["p"]:
        return origins(body, place["l"], _seen)
    # value read out of a field / variant payload of a local: the container's pointers
    if not any(e["k"] == "deref" for e in place["p"]):
        return origins(body, place["l"], _seen)
    # value loaded through a pointer: a pointer stored in memory — unknown, except reborrow chains
    # `*(&mut *x)`; treat as pointing into the same region as the base (conservative for stores)
    base = place_targets(body, place, _seen)
    return {(r, p + ("*",)) for (r, p) in base}


def place_targets(body, place, _seen=None):
    """abstract memory locations denoted by `place` (set of (root, path))"""
    if _seen is None:
        _seen = set()
    l0 = place["l"]
    cur = {((("argval", l0) if 1 <= l0 <= body["argc"] else ("local", l0)), ())}
    first = True
    for e in place["p"]:
        k = proj_key(e)
        if k == "*":
            if first or True:
                nxt = set()
                for (r, p) in cur:
                    if r[0] in ("local", "argval") and not p:
                        o = origins(body, r[1], _seen)
                        if o:
                            nxt |= o
                        else:
                            nxt.add((("unk",), ()))
                    else:
                        # pointer stored inside memory: stay in the same region, mark indirection
                        nxt.add((r, p + ("*",)))
                cur = nxt
        else:
            cur = {(r, p + (k,)) for (r, p) in cur}
        first = False
    return cur


def _rv_origins(body, rv, _seen):
    k = rv["k"]
    if k in ("ref", "rawptr"):
        return place_targets(body, rv["place"], _seen)
    if k == "use":
        return _operand_origins(body, rv["op"], _seen)
    if k == "cast":
        return _operand_origins(body, rv["op"], _seen)
    if k == "copyderef":
        return place_value_origins(body, rv["place"], _seen)
    if k == "aggregate":
        out = set()
        for op in rv["ops"]:
            out |= _operand_origins(body, op, _seen)
        return out
    if k == "tlsref":
        return {(("static", rv["static"]), ())}
    return set()


def _call_origins(body, t, _seen):
    name, info = callee(t)
    if not _is_ptr_ty(t["dest"]["ty"]):
        return set()
    args = t["args"]
    out = set()
    nm = norm(name) if name else ""
    if args and (nm in X.ALIAS_ELEM or nm in X.ALIAS_SAME):
        a0 = set()
        for (r, p) in _operand_origins(body, args[0], _seen):
            # `&mut it` where `it` is a local that itself holds pointers (iterators, Option<&mut T>):
            # look through the container
            if r[0] == "local" and not p and r[1] not in _seen:
                inner = origins(body, r[1], _seen)
                a0 |= inner if inner else {(r, p)}
            else:
                a0.add((r, p))
        if nm in X.ALIAS_ELEM:
            return {(r, p + ("[]",)) for (r, p) in a0}
        return a0
    # unknown / local callee returning a reference: may alias any pointer argument
    for a in args:
        for (r, p) in _operand_origins(body, a, _seen):
            out.add((r, p + ("?",)))
    if not out:
        out.add((("unk",), ()))
    return out


# ----------------------------------------------------------------------------------------
# program-level: call graph and store summaries


class Graph:
    def __init__(self, unit):
        self.unit = unit
        self.bodies = unit.bodies
        self.edges = {}      # path -> set of callee paths (local bodies only)
        self.ext = {}        # path -> set of external callee names
        self.closures_of = {}
        for p, b in self.bodies.items():
            es, xs = set(), set()
            for bb, t, name, info in calls(b):
                if name is None:
                    xs.add("<indirect>")
                    continue
                if name in self.bodies:
                    es.add(name)
                else:
                    xs.add(name)
                # fn items passed as arguments (e.g. `.map(VideoConfig::Avc)`, `.map(f)`)
                for a in t["args"]:
                    if a.get("k") == "const" and "callee" in a:
                        n2 = a["callee"].get("resolved") or a["callee"]["decl"]
                        if n2 in self.bodies:
                            es.add(n2)
            for blk in b["blocks"]:
                for st in blk["stmts"]:
                    if st["k"] == "assign" and st["rv"]["k"] == "aggregate" and st["rv"].get("agg") == "closure":
                        c = st["rv"]["closure"]
                        if c in self.bodies:
                            es.add(c)
                            self.closures_of.setdefault(p, set()).add(c)
                    # fn items used as values
                    if st["k"] == "assign":
                        for op in _rv_operands(st["rv"]):
                            if op.get("k") == "const" and "callee" in op:
                                n2 = op["callee"].get("resolved") or op["callee"]["decl"]
                                if n2 in self.bodies:
                                    es.add(n2)
            self.edges[p] = es
            self.ext[p] = xs

    def reach(self, roots):
        seen = set()
        work = list(roots)
        while work:
            f = work.pop()
            if f in seen or f not in self.edges:
                continue
            seen.add(f)
            work.extend(self.edges[f])
        return seen

    def callers(self, f):
        return {p for p, es in self.edges.items() if f in es}


def _rv_operands(rv):
    k = rv["k"]
    if k in ("use", "cast", "repeat"):
        return [rv["op"]]
    if k == "binop":
        return [rv["a"], rv["b"]]
    if k == "unop":
        return [rv["a"]]
    if k == "aggregate":
        return rv["ops"]
    return []


def _mut_ptr_arg(op_ty):
    return op_ty.startswith("&mut ") or op_ty.startswith("*mut ")


class Stores:
    """Per function: the set of (arg index, path) memory locations it may write through its pointer
    arguments (transitively through local callees; external callees write whatever `&mut` they get)."""

    def __init__(self, graph):
        self.g = graph
        self.sum = {p: set() for p in graph.bodies}
        self.sites = {p: [] for p in graph.bodies}   # (bb, idx|'term', (root,path), why)
        self._fix()

    def _direct(self, body):
        out = []
        live = live_blocks(body)
        for blk in body["blocks"]:
            if blk["cleanup"] or blk["i"] not in live:
                continue
            for i, st in enumerate(blk["stmts"]):
                if st["k"] in ("assign", "setdiscr"):
                    pl = st["place"]
                    if any(e["k"] == "deref" for e in pl["p"]):
                        for tgt in place_targets(body, pl):
                            out.append((blk["i"], i, tgt, "assign " + place_str(body, pl), st))
                if st["k"] == "assign" and st["rv"]["k"] == "aggregate" and st["rv"].get("agg") == "closure":
                    cname = st["rv"]["closure"]
                    cb = self.g.bodies.get(cname)
                    if cb is not None:
                        # closure env is arg 1 of the closure body; upvar k = field k of the env
                        for (root, path) in self.sum.get(cname, ()):
                            if root in (("arg", 1), ("argval", 1)) and path:
                                k = path[0]
                                rest = path[1:]
                                try:
                                    ki = int(k)
                                except ValueError:
                                    continue
                                ops = st["rv"]["ops"]
                                if ki < len(ops):
                                    op = ops[ki]
                                    if op["k"] in ("copy", "move"):
                                        # by-ref capture: the operand is a pointer; by-value: the local itself
                                        for (r2, p2) in place_value_origins(body, op["place"]) or set():
                                            rr = rest[1:] if rest[:1] == ("*",) else rest
                                            out.append((blk["i"], i, (r2, p2 + rr), "closure " + cname, st))
            t = blk["term"]
            if t["k"] == "call":
                name, info = callee(t)
                args = t["args"]
                if name in self.g.bodies:
                    for (root, path) in self.sum[name]:
                        if root[0] == "arg" and root[1] - 1 < len(args):
                            op = args[root[1] - 1]
                            if op["k"] in ("copy", "move"):
                                for (r2, p2) in place_value_origins(body, op["place"]):
                                    out.append((blk["i"], "term", (r2, p2 + path), "call " + name, t))
                        elif root[0] == "argval" and root[1] - 1 < len(args):
                            op = args[root[1] - 1]
                            if op["k"] in ("copy", "move") and "*" in path:
                                rest = path[path.index("*") + 1:]
                                for (r2, p2) in place_value_origins(body, op["place"]):
                                    out.append((blk["i"], "term", (r2, p2 + rest), "call " + name, t))
                        elif root[0] in ("static", "unk"):
                            out.append((blk["i"], "term", (root, path), "call " + name, t))
                else:
                    nm = norm(name) if name else "<indirect>"
                    if nm in X.NO_WRITE:
                        continue
                    for op in args:
                        if op["k"] in ("copy", "move") and _mut_ptr_arg(op["place"]["ty"]):
                            for (r2, p2) in place_value_origins(body, op["place"]):
                                out.append((blk["i"], "term", (r2, p2), "extcall " + nm, t))
            elif t["k"] == "drop":
                pass
        return out

    def _fix(self):
        changed = True
        rounds = 0
        while changed and rounds < 50:
            changed = False
            rounds += 1
            for p, b in self.g.bodies.items():
                sites = self._direct(b)
                s = set()
                for (_bb, _i, (root, path), _why, _n) in sites:
                    if root[0] in ("arg", "static", "unk") or (root[0] == "argval" and "*" in path):
                        s.add((root, path))
                self.sites[p] = sites
                if s != self.sum[p]:
                    self.sum[p] = s
                    changed = True


def path_str(root, path):
    r = {"arg": "arg%d" % (root[1] if len(root) > 1 else 0), "argval": "argval%d" % (root[1] if len(root) > 1 else 0), "local": "_%d" % (root[1] if len(root) > 1 else 0),
         "static": "static %s" % (root[1] if len(root) > 1 else ""), "unk": "<unknown>"}[root[0]]
    return r + "".join("." + str(x) for x in path)


def site_free_desc(body, text):
    """rewrite an expression rendering so that it does not depend on where the code lives or how locals are called: `argN.` roots
    become the (reference-free, generics-free) type of parameter N; parameter and local debug names become `p<type>` / `v<type>`"""
    import re as _re

    def short(t):
        t = t.replace("&mut ", "").replace("&", "").replace("'_ ", "").strip()
        t = _re.sub(r"<.*>", "", t)
        return t.split("::")[-1]

    def ty_of(n):
        try:
            return short(body["locals"][int(n)]["ty"]) or ("arg" + n)
        except (IndexError, ValueError, KeyError):
            return "arg" + n
    text = _re.sub(r"\barg(\d+)(?=[.\]])", lambda m: ty_of(m.group(1)), text)
    names = {}
    for d in body.get("debug", []) or []:
        nm = d.get("name")
        pl = d.get("place") or {}
        l = pl.get("l")
        if nm and isinstance(l, int) and not pl.get("p") and l < len(body["locals"]) and _re.fullmatch(r"[A-Za-z_][A-Za-z0-9_]*", nm) and nm != "self":
            names[nm] = ("p" if 1 <= l <= body.get("argc", 0) else "v") + "<" + short(body["locals"][l]["ty"]) + ">"
    text = _re.sub(r"\{closure#\d+\}", "{closure}", text)
    if names:
        alt = "|".join(sorted(map(_re.escape, names), key=len, reverse=True))
        text = _re.sub(r"(?<![A-Za-z0-9_.:<])(?:var:)?(" + alt + r")(?![A-Za-z0-9_(<:])", lambda m: names[m.group(1)], text)
    return text
