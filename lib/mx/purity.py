"""A4 — error-path purity: no store to receiver state on any path that ends in an error exit.

For a function f with a `&mut` receiver (argument 1) returning Result/Option:
  store points  = direct stores / external mutating calls / infallible local calls whose summary writes receiver
                  state, located at their block; a *fallible* local callee consumed by `?` contributes its stores at
                  the Continue successor only (if it fails it has stored nothing iff it satisfies the rule itself —
                  it is analysed on its own); a fallible callee whose result is returned directly contributes nothing.
  error exits   = `_0 = Err(..)/None` aggregates and `?` residual exits.
  violation     = some store point reaches (CFG, statement order inside a block) some error exit.
"""
from . import flow, mir, sym


def receiver_sites(cx, f, roots=(("arg", 1),)):
    """store sites of f that touch receiver state: list of dict(bb, idx, path, why, node, kind)"""
    u = cx.u
    b = u.bodies[f]
    tries = flow.try_sites(b)
    exits = flow.exits(b)
    out = []
    for (bb, idx, (root, path), why, node) in cx.st.sites[f]:
        if root not in roots:
            continue
        rec = {"bb": bb, "idx": idx if idx != "term" else 10 ** 6, "path": path, "why": why, "node": node, "kind": "direct"}
        if why.startswith("call "):
            cal = why[5:]
            cb = u.bodies.get(cal)
            fallible = cb is not None and (cb["locals"][0]["ty"].startswith("std::result::Result<") or cb["locals"][0]["ty"].startswith("std::option::Option<"))
            if fallible:
                ts = [x for x in tries if x["src_call_bb"] == bb]
                deleg = [e for e in exits if e["kind"] == "deleg" and e["node"] is node]
                if ts and ts[0]["cont"] is not None:
                    rec.update({"bb": ts[0]["cont"], "idx": -1, "kind": "after-ok", "call_bb": bb})
                elif deleg:
                    continue
                else:
                    rec["kind"] = "fallible-unpropagated"
            else:
                rec["kind"] = "call"
        out.append(rec)
    return out


def exit_desc(body, e):
    n = e["node"]
    if e["kind"] == "err":
        ex = sym.expr_rv(body, n["rv"])
        if ex[0] == "agg" and ex[3]:
            inner = ex[3][0]
            while inner and inner[0] in ("call",) and inner[2]:
                # Err(match ..) / Box::new(..) wrappers
                break
            if inner[0] == "agg":
                return "Err(%s)" % str(inner[1]).split("::")[-1]
            return "Err(%s)" % sym.show(inner)[:60]
        return str(ex[1]).split("::")[-1] if ex[0] == "agg" else "Err"
    if e["kind"] == "residual":
        # which `?` does this residual belong to
        for ts in flow.try_sites(body):
            if ts["brk"] is not None and e["bb"] in mir.reachable(body, [ts["brk"]]):
                src = ts["src"]
                if src and src[0] == "call":
                    return "?" + src[1].split("::")[-1]
                return "?" + sym.show(src)[:40]
        return "?"
    return e["kind"]


def check_function(cx, f, exit_kinds=("err", "residual"), variant=None):
    """returns list of violations: dict(store=..., exit=..., loc_store, loc_exit)"""
    b = cx.u.bodies[f]
    sites = receiver_sites(cx, f)
    exs = [e for e in flow.exits(b) if e["kind"] in exit_kinds and (variant is None or e.get("variant") in variant or e["kind"] == "residual")]
    out = []
    reach_cache = {}
    for s in sites:
        if s["bb"] not in reach_cache:
            # blocks reachable from the store's block by at least one edge, plus the block itself
            reach_cache[s["bb"]] = mir.reachable(b, mir.succs(b, s["bb"]))
        fw = reach_cache[s["bb"]]
        for e in exs:
            ebb = e["bb"]
            n = e["node"]
            eidx = 10 ** 6
            if n.get("k") == "assign":
                eidx = next((i for i, st in enumerate(b["blocks"][ebb]["stmts"]) if st is n), 10 ** 6)
            hit = ebb in fw or (ebb == s["bb"] and s["idx"] < eidx)
            # a `?` residual exit that belongs to the very call whose Ok-stores these are: excluded by construction
            if hit:
                out.append({"store": ".".join(str(x) for x in s["path"]) or "<receiver>", "store_kind": s["kind"], "why": s["why"],
                            "exit": exit_desc(b, e), "loc_store": mir.loc_of(s["node"]), "loc_exit": mir.loc_of(n)})
    # a fallible callee whose result is returned directly ("delegated" exit): the callee's own stores are its own business,
    # but every *earlier* store of this function is left behind when the callee fails
    if "err" in exit_kinds:
        for e in flow.exits(b):
            if e["kind"] != "deleg":
                continue
            ebb = e["bb"]
            n = e["node"]
            name, info = mir.callee(n) if n.get("k") == "call" else (None, None)
            cb = cx.u.bodies.get(name)
            if cb is None or not (cb["locals"][0]["ty"].startswith("std::result::Result<") or cb["locals"][0]["ty"].startswith("std::option::Option<")):
                continue
            for s in sites:
                if s["node"] is n:
                    continue
                hit = ebb in reach_cache.get(s["bb"], mir.reachable(b, mir.succs(b, s["bb"]))) or (ebb == s["bb"] and s["idx"] < 10 ** 6)
                if hit:
                    out.append({"store": ".".join(str(x) for x in s["path"]) or "<receiver>", "store_kind": s["kind"], "why": s["why"],
                                "exit": "Err of the delegated call " + mir.norm(name).split("::")[-1], "loc_store": mir.loc_of(s["node"]), "loc_exit": mir.loc_of(n)})
    # de-duplicate by (store, exit)
    seen, uniq = set(), []
    for v in out:
        k = (v["store"], v["exit"])
        if k not in seen:
            seen.add(k)
            uniq.append(v)
    return uniq, len(sites), len(exs)
