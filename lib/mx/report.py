"""Obligation bookkeeping, known findings, evidence and exit protocol."""
import json
import os
import sys
import time

VERIF = os.path.dirname(os.path.dirname(os.path.dirname(os.path.abspath(__file__))))


class Run:
    def __init__(self, pid, tier, repo):
        self.pid = pid
        self.tier = tier
        self.repo = repo
        self.t0 = time.time()
        self.obs = []          # dicts: rule, key, status(ok|violation), detail, loc, how
        self.notes = []
        self.rules = {}        # rule id -> description
        self.counts = {}
        self.assumptions = []
        self.extra = {}
        self.broken = []

    # -- recording -----------------------------------------------------------------------
    def rule(self, rid, text):
        self.rules[rid] = text

    def ok(self, rule, key, detail="", loc=None, how="structural"):
        self.obs.append({"rule": rule, "key": key, "status": "ok", "detail": detail, "loc": loc, "how": how})

    def bad(self, rule, key, detail, loc=None, path=None):
        self.obs.append({"rule": rule, "key": key, "status": "violation", "detail": detail, "loc": loc, "path": path})

    def check(self, cond, rule, key, detail_ok="", detail_bad="", loc=None, how="structural"):
        if cond:
            self.ok(rule, key, detail_ok, loc, how)
        else:
            self.bad(rule, key, detail_bad or detail_ok, loc)
        return cond

    def floor(self, rule, n, floor, what):
        """fail closed when a rule matched fewer instances than counted by hand on the pinned tree"""
        if n < floor:
            self.bad(rule, "floor:" + what, "rule matched %d instance(s) of %s, expected at least %d: anchor missing or "
                     "code shape no longer recognised (fail closed)" % (n, what, floor))
        else:
            self.ok(rule, "floor:" + what, "%d instance(s) of %s (floor %d)" % (n, what, floor), how="count")

    def note(self, s):
        self.notes.append(s)

    # -- finishing -----------------------------------------------------------------------
    def finish(self, prog=None, explanation="", trusted=None, level="other"):
        kf_path = os.path.join(VERIF, "known_findings.json")
        known = {}
        if os.path.exists(kf_path):
            with open(kf_path) as fh:
                kf = json.load(fh)
            for e in kf.get("findings", []):
                if e["property"] == self.pid and e.get("status", "open") == "open":
                    known[(e["rule"], e["key"])] = e
        viol, knownhit = [], []
        for o in self.obs:
            if o["status"] != "violation":
                continue
            k = (o["rule"], o["key"])
            if k in known:
                o["status"] = "known"
                knownhit.append((o, known[k]))
            else:
                viol.append(o)
        stale = [k for k in known if k not in {(o["rule"], o["key"]) for o, _ in knownhit}]
        os.makedirs(os.path.join(VERIF, "replay"), exist_ok=True)
        os.makedirs(os.path.join(VERIF, "evidence"), exist_ok=True)
        lines = []
        for o, e in knownhit:
            lines.append("KNOWN-FINDING: property=%s rule=%s key=%s :: %s" % (self.pid, o["rule"], o["key"], e.get("what", o["detail"])))
        for i, o in enumerate(viol):
            rp = os.path.join(VERIF, "replay", "%s%s-%d.json" % (self.pid, "-scratch" if os.environ.get("MX_NO_EVIDENCE") else "", i))
            with open(rp, "w") as fh:
                json.dump({"property": self.pid, "rule": o["rule"], "rule_text": self.rules.get(o["rule"], ""),
                           "instance": o["key"], "where": o.get("loc"), "detail": o["detail"], "path": o.get("path"),
                           "repo": self.repo, "tier": self.tier}, fh, indent=1)
            lines.append("VIOLATION property=%s replay=%s" % (self.pid, rp))
            lines.append("  rule=%s instance=%s at %s: %s" % (o["rule"], o["key"], o.get("loc") or "?", o["detail"]))
        n_ob = len(self.obs)
        n_ok = sum(1 for o in self.obs if o["status"] == "ok")
        nontriv = len({(o["rule"], o["key"]) for o in self.obs if o.get("how") not in ("count", "const")})
        per_rule = {}
        for o in self.obs:
            d = per_rule.setdefault(o["rule"], {"instances": 0, "ok": 0, "known": 0, "violation": 0})
            d["instances"] += 1
            d[o["status"]] += 1
        samples = []
        seen_rules = set()
        for o in self.obs:
            if o["rule"] in seen_rules and len(samples) > 40:
                continue
            if sum(1 for s in samples if s["rule"] == o["rule"]) >= 3:
                continue
            seen_rules.add(o["rule"])
            samples.append({k: o[k] for k in ("rule", "key", "status", "detail", "loc") if o.get(k) is not None})
        cov = {
            "explanation": explanation,
            "obligations": n_ob,
            "discharged": n_ok,
            "known_findings": len(knownhit),
            "evaluations": n_ob,
            "distinct_nontrivial": nontriv,
            "rule": "every instance of every rule below is enumerated from the type-checked program of the current "
                    "tree (MIR/HIR facts from the mxlint rustc driver); an instance is non-trivial when its discharge "
                    "needed more than counting or constant evaluation; instances are distinct by (rule, semantic key)",
            "rules": self.rules,
            "per_rule": per_rule,
            "samples": samples,
            "violations_list": [{k: o[k] for k in ("rule", "key", "detail", "loc") if o.get(k) is not None} for o in viol][:50],
            "known_list": [{"rule": o["rule"], "key": o["key"], "loc": o.get("loc")} for o, _ in knownhit],
            "stale_known_findings": [list(k) for k in stale],
            "notes": self.notes,
            "trusted_base": trusted or [],
            "checker_cmd": "bin/check %s --tier %s" % (self.pid, self.tier),
            "exhaustive": True,
        }
        cov.update(self.extra)
        if prog is not None:
            cov["tree_hash"] = prog.tree_hash
            cov["fact_files"] = {u["_file"]: u["_sha"] for u in prog.units}
            cov["bodies_analysed"] = {u["_file"]: len(u["bodies"]) for u in prog.units}
            cov["driver_wall_s"] = round(prog.wall, 2)
        ev = {
            "property_id": self.pid,
            "tier": self.tier,
            "seed": int(os.environ.get("VERIF_SEED", "0") or 0),
            "level": level,
            "coverage": cov,
            "assumptions": self.assumptions + ["64-bit usize", "rustc nightly 1.97 type checker and MIR construction are correct",
                                               "std contracts as documented (Write::write_all, mem::take, sort_by_key)"],
            "wall_s": round(time.time() - self.t0, 2),
            "violations": len(viol),
        }
        if not os.environ.get("MX_NO_EVIDENCE"):
            with open(os.path.join(VERIF, "evidence", self.pid + ".json"), "w") as fh:
                json.dump(ev, fh, indent=1)
        for l in lines:
            print(l)
        print("%s [%s] rules=%d instances=%d ok=%d known=%d violations=%d wall=%.1fs" % (
            self.pid, self.tier, len(self.rules), n_ob, n_ok, len(knownhit), len(viol), time.time() - self.t0))
        if stale:
            print("note: %d known finding(s) no longer reported (fixed?): %s" % (len(stale), stale))
        return 1 if viol else 0
