"""C01 — every sample in the file resolves to exactly the bytes and key flag submitted.

Decided on the *file productions* derived by the layout interpreter from finalize_standard / finalize_fast_start
(what is handed to the sink, in order, for every successful exit and configuration):
 R1 one schedule: every loop that assigns offsets or streams payloads iterates the same (pure) schedule value;
 R2 arm agreement: per schedule part, the offset list that receives the push, the queue whose `data` is streamed and the
    queue whose `data.len()` advances the cursor belong to the same track, and that list feeds that track's stco;
 R3 cursor: initial cursor == static file offset of the sample region (symbolic identity), step == width of the blob streamed;
 R4 index alignment: offsets are consumed by sample number, so the per-track order of the schedule must be queue order:
    the schedule key's leading component for a track must be a field the writer enforces to be monotone (or the index);
 R5 tables from the same queue: a trak's stsz/stss/stts/stco derive only from its own queue and its own writer's state;
 R6 payload converter per codec and key flag stored unmodified;
 R7 mdat tiling: mdat size == 8 + sum of exactly the streamed payloads.
Not decided: byte equality of converter outputs for concrete inputs (C14 covers the framing)."""
from .. import boxcheck as B
from .. import filemodel as FM
from .. import layout as L
from .. import mir
from ..anchors import AnchorMissing
from . import c06, common

EXPLANATION = (
    "symbolic file productions of both finalize functions are derived from the typed HIR (sink-helper calls appended in order; loops over the interleave schedule kept as a permutation of per-queue repetitions; "
    "offset vectors, SampleTables::from_samples and the moov builders inlined), one per successful exit and configuration (video-only/empty/A-V x standard/fast-start). On these: R1 same pure schedule in every loop; "
    "R2/R5 per-track agreement of offset list, streamed queue, cursor step and sample tables; R3 initial cursor == symbolic width of everything emitted before the sample region, step == width of the streamed blob; "
    "R4 per-track schedule order == queue order (leading sort-key field must be writer-enforced monotone); R6 converter per codec / key flag unmodified; R7 mdat size == 8 + sum(streamed payload lengths).")
TRUSTED = ["layout interpreter", "std: sort_by_key yields a permutation ordered by the key; enumerate/iter/map/collect preserve order and length"]


class Model:
    """everything derived once, shared with C02/C08/C15"""

    def __init__(self, prog):
        self.cx = common.Ctx(prog)
        cx = self.cx
        FM.register_accum_helpers(prog.lib)
        self.vq, self.aq = c06.queues(cx)
        if len(self.vq) != 1 or len(self.aq) != 1:
            raise AnchorMissing("sample queues: video=%s audio=%s" % (sorted(self.vq), sorted(self.aq)))
        self.vq, self.aq = next(iter(self.vq)), next(iter(self.aq))
        self.it, self.leaves = FM.derive(cx)
        self.mono = {q: FM.monotone_fields(cx, q) for q in (self.vq, self.aq)}
        self.writer_of = {q: self.mono[q][1] for q in (self.vq, self.aq)}
        # state fields written by each queue's writer function
        self.writer_fields = {}
        for q, w in self.writer_of.items():
            self.writer_fields[q] = {p[0] for (r, p) in cx.st.sum.get(w, ()) if r == ("arg", 1) and p} if w else set()

    def qexpr(self, q):
        return ("field", ("param", "self"), q)

    def spec(self, lf):
        return FM.specialise(lf.segs, FM.cond_facts(lf.conds))

    def audio_present(self, lf):
        """True/False/None from the leaf's conditions (the audio_track Option test)"""
        for c in lf.conds:
            e, val = c[1], c[0] == "if"
            while e[0] == "un" and e[1] == "Not":
                e, val = e[2], not val
            of = B.option_fact(e)
            if of is not None and "audio" in L.show(of[0]):
                return val == of[1]
        return None

    def key(self, lf):
        return "%s[%s]" % (lf.fn.split("::")[-1], self.config_tag(lf))

    def config_tag(self, lf):
        tags = []
        ap = self.audio_present(lf)
        tags.append("av" if ap else "video-only")
        for c in lf.conds:
            e, val = c[1], c[0] == "if"
            while e[0] == "un" and e[1] == "Not":
                e, val = e[2], not val
            if e[0] == "mcall" and e[1].endswith("is_empty"):
                tags.append("empty" if val else "nonempty")
        return ",".join(tags)


def traks(segs):
    """[(kind 'video'|'audio'|None, trak box)]"""
    out = []
    for (path, box, cond) in B.walk_boxes(segs):
        if path[-1] == b"trak":
            inner = [p[-1] for (p, b, c) in B.walk_boxes(box[2])]
            kind = "video" if b"vmhd" in inner else ("audio" if b"smhd" in inner else None)
            out.append((kind, box))
    return out


def find_box(box, fc):
    for (p, b, c) in B.walk_boxes(box[2]):
        if p[-1] == fc:
            return b
    return None


def bases_in(x):
    """queue field names q such that ('field', ('param','self'), q) occurs in x"""
    out = set()

    def rec(y):
        if isinstance(y, tuple):
            if len(y) == 3 and y[0] == "field" and y[1] == ("param", "self") and isinstance(y[2], str):
                out.add(y[2])
            for z in y:
                rec(z)
        elif isinstance(y, list):
            for z in y:
                rec(z)
    rec(x)
    return out


def check(prog, run):
    rules(run)
    try:
        m = Model(prog)
    except AnchorMissing as e:
        run.bad("R1", "anchor", "anchor missing: %s" % e)
        return
    except L.Unanalysable as e:
        run.bad("R1", "unanalysable", "file production cannot be derived (fail closed): %s" % e)
        return
    run.floor("R1", len(m.leaves), 6, "file productions (successful exits x configurations)")
    for lf in m.leaves:
        leaf_rules(m, lf, run, ("R1", "R2", "R3", "R4", "R5", "R7"))
    r6(m, run)


def rules(run):
    run.rule("R1", "one schedule: offset-assignment and streaming loops iterate structurally identical, pure schedule values")
    run.rule("R2", "arm agreement: per schedule part, pushed offset list / streamed queue / cursor step belong to one track and feed that track's stco")
    run.rule("R3", "cursor: initial value == static offset of the sample region in the file production; step == width of the streamed blob; single-chunk layouts: the one chunk offset == that static offset")
    run.rule("R4", "index alignment: per-track order of the schedule == queue order (leading key field is writer-enforced monotone, or offsets stored by index)")
    run.rule("R5", "tables from the same queue: a trak's stsz/stss/stts/stco/ctts mention only its own queue and its own writer's state")
    run.rule("R6", "payload converter per codec (H264->annexb_to_avcc, H265->hevc_annexb_to_hvcc, AV1/VP9 verbatim; AAC->ADTS payload slice, Opus verbatim); key flag stored from the parameter unmodified")
    run.rule("R7", "mdat tiling: mdat size field == 8 + sum of the lengths of exactly the payloads streamed into it, each queue once")


def leaf_rules(m, lf, run, which):
    segs = m.spec(lf)
    top = FM.top_structure(segs)
    key = m.key(lf)
    kinds = [t[0] for t in top]
    ap = m.audio_present(lf)
    body = next((t[1] for t in top if t[0] == "body"), None)
    hdr = next((t[1] for t in top if t[0] == "mdat_hdr"), None)
    moov = next((t[2] for t in top if t[0] == "box" and t[1] == b"moov"), None)
    if moov is None:
        run.bad("R1", key + " moov", "no moov box in the file production")
        return
    # ---------------- R7
    if "R7" in which and hdr is not None:
        sh, sb = FM.sigma_expr(hdr), FM.sigma_segs(body)
        good = sh is not None and sb is not None
        detail = ""
        if good:
            th = dict(sh[1])
            if ap is False:
                # lemma AQ-empty-without-track (machine-checked below): the audio queue is empty when no audio track is configured
                th.pop((L.freeze(L.strip_ids(m.qexpr(m.aq))), "data"), None)
            good = sh[0] == 8 + sb[0] and th == sb[1]
            detail = "size = %d + %s ; body = %d + %s" % (sh[0], sorted(str(k[1]) + "@" + L.show(k[0]) for k in th), sb[0], sorted(str(k[1]) + "@" + L.show(k[0]) for k in sb[1]))
        run.check(good, "R7", key + " mdat-size", detail, "mdat size field is not 8 + the summed lengths of exactly the streamed payloads (size: %s; body: %s)" % (L.show(hdr)[:200], ", ".join(L.show(s) for s in body)[:200]))
    # ---------------- per-layout rules
    static_off = L.Lin()
    for t in top:
        if t[0] == "body":
            break
        if t[0] == "box":
            static_off = static_off + L.seg_width(t[2])
        elif t[0] == "mdat_hdr":
            static_off = static_off + L.Lin(4)
        elif t[0] == "mdat_tag":
            static_off = static_off + L.Lin(4)
    tk = traks(moov[2])
    vtrak = [b for k, b in tk if k == "video"]
    atrak = [b for k, b in tk if k == "audio"]
    if ap:
        av_rules(m, lf, run, which, key, body, static_off, vtrak, atrak, moov)
    else:
        single_chunk_rules(m, lf, run, which, key, body, static_off, vtrak, moov, hdr is not None and "empty" not in m.config_tag(lf).split(","))
    # ---------------- R5 for every trak
    if "R5" in which:
        for kind, box in tk:
            q = m.vq if kind == "video" else m.aq
            other = m.aq if kind == "video" else m.vq
            foreign = (m.writer_fields[other] - m.writer_fields[q]) | {other}
            for fc in (b"stsz", b"stts", b"stss", b"ctts", b"stco", b"stsc", b"mdhd"):
                b = find_box(box, fc)
                if b is None:
                    continue
                used = bases_in(b[2])
                bad = sorted(used & foreign)
                run.check(not bad, "R5", "%s %s/%s own-queue" % (key, kind, B.fc_str(fc)), "derives from %s only" % sorted(used & (m.writer_fields[q] | {q})),
                          "the %s track's %s is computed from the other track's state: %s" % (kind, B.fc_str(fc), bad))
            # stss: 1-based index of exactly the elements whose stored key flag is set
            b = find_box(box, b"stss")
            if b is not None and kind == "video":
                rest = [s_ for s_ in b[2] if s_[0] == "rep"]
                ok, d = False, ""
                if len(rest) == 1:
                    c = rest[0][1]
                    d = L.show(c)
                    if c[0] == "mcall" and c[1].endswith("collect"):
                        c = c[2]
                    if c[0] == "mcall" and c[1].endswith("filter_map") and c[3] and c[3][0][0] == "lambda":
                        lam = c[3][0]
                        lid = lam[1]
                        base = c[2]
                        while base[0] == "mcall" and base[1].split("::")[-1] in ("iter", "into_iter", "enumerate"):
                            base = base[2]
                        body = lam[2]
                        want = ("if", ("field", ("elem", base, lid), "is_keyframe"),
                                ("some", ("bin", "Add", ("cast", "u32", ("idx", base, lid)), ("lit", 1))), ("none",))
                        ok = body == want and base == m.qexpr(q)
                    elif c[0] == "mcall" and c[1].endswith("Iterator::map") and c[3] and c[3][0][0] == "lambda" and c[2][0] == "mcall" and c[2][1].endswith("Iterator::filter") \
                            and c[2][3] and c[2][3][0][0] == "lambda":
                        # the same selection spelled `.enumerate().filter(|(_, s)| s.is_keyframe).map(|(i, _)| i as u32 + 1)`
                        flt, lam2 = c[2], c[3][0]
                        lam1 = flt[3][0]
                        base = flt[2]
                        enumerated = False
                        while base[0] == "mcall" and base[1].split("::")[-1] in ("iter", "into_iter", "enumerate"):
                            enumerated = enumerated or base[1].split("::")[-1] == "enumerate"
                            base = base[2]
                        want1 = ("field", ("elem", base, lam1[1]), "is_keyframe")
                        want2 = ("bin", "Add", ("cast", "u32", ("tfield", ("elem", flt, lam2[1]), 0)), ("lit", 1))
                        ok = enumerated and lam1[2] == want1 and lam2[2] == want2 and base == m.qexpr(q)
                run.check(ok, "R5", "%s %s/stss entries" % (key, kind), "sync samples = 1-based indices of elements with the key flag",
                          "stss entries are not `index+1` of exactly the queue elements whose key flag is set: %s" % d[:300])
            # stsz must be one entry per element of the queue, the element's own data length
            b = find_box(box, b"stsz")
            if b is not None:
                rest = [s for s in b[2] if s[0] == "rep"]
                ok = False
                d = ""
                if len(rest) == 1:
                    coll = rest[0][1]
                    d = L.show(coll)
                    # samples.iter().map(|s| s.data.len() as u32).collect()
                    c = coll
                    if c[0] == "mcall" and c[1].endswith("collect"):
                        c = c[2]
                    if c[0] == "mcall" and c[1].endswith("Iterator::map") and c[3] and c[3][0][0] == "lambda":
                        g = c[3][0][2]
                        while g[0] == "cast":
                            g = g[2]
                        base = c[2]
                        while base[0] == "mcall" and base[1].split("::")[-1] in ("iter", "into_iter"):
                            base = base[2]
                        ok = g[0] == "len" and g[1][0] == "field" and g[1][2] == "data" and g[1][1][0] == "elem" and g[1][1][1] == base and base == m.qexpr(q)
                run.check(ok, "R5", "%s %s/stsz sizes" % (key, kind), "sizes = %s" % d[:120], "stsz entries are not `len(sample.data)` of each element of the %s queue in order: %s" % (kind, d[:200]))


def _single(segs, kind):
    xs = [s for s in segs if s[0] == kind]
    return xs[0] if len(xs) == 1 else None


def av_rules(m, lf, run, which, key, body, static_off, vtrak, atrak, moov):
    it = m.it
    if len(vtrak) != 1 or len(atrak) != 1:
        run.bad("R2", key + " traks", "expected one video and one audio trak in the A/V layout, found %d/%d" % (len(vtrak), len(atrak)))
        return
    perm = body[0] if body and len(body) == 1 and body[0][0] == "perm" else None
    if perm is None:
        run.bad("R1", key + " body", "sample region is not a single permuted schedule loop: %s" % ", ".join(L.show(s) for s in (body or []))[:300])
        return
    bkey = L.strip_ids(perm[1])
    parts = perm[2]
    part_bases = []
    for p in parts:
        ok = p[0] == "rep" and len(p[3]) == 1 and p[3][0][0] == "blob" and p[3][0][1] == ("field", ("elem", p[1], p[2]), "data")
        part_bases.append(bases_in(p[1]))
        if "R2" in which:
            run.check(ok, "R2", "%s stream-part %s" % (key, sorted(bases_in(p[1]))), "streams elem.data of %s" % L.show(p[1]), "schedule part does not stream the `data` of its own queue element: %s" % L.show(p)[:200])
    if "R1" in which:
        run.check(sorted(map(sorted, part_bases)) == sorted([[m.vq], [m.aq]]), "R1", key + " schedule-covers-both-queues", "parts over %s" % part_bases,
                  "the streamed schedule does not consist of exactly one part per queue: %s" % part_bases)
    for kind, trak, q in (("video", vtrak[0], m.vq), ("audio", atrak[0], m.aq)):
        stco = find_box(trak, b"stco")
        if stco is None:
            run.bad("R2", "%s %s stco" % (key, kind), "no stco")
            continue
        sp = [s for s in stco[2] if s[0] in ("perm", "rep", "ploop")]
        if len(sp) != 1 or sp[0][0] != "perm":
            run.bad("R2", "%s %s stco-shape" % (key, kind), "stco entries are not produced by the permuted schedule loop: %s" % ", ".join(L.show(s) for s in stco[2])[:300])
            continue
        okey = L.strip_ids(sp[0][1])
        if "R1" in which:
            run.check(okey == bkey, "R1", "%s %s same-schedule" % (key, kind), "offset loop and streaming loop sort by the same key over the same queues",
                      "the %s offsets are assigned in a differently sorted schedule than the one that streams the samples" % kind)
        oparts = sp[0][2]
        good = len(oparts) == 1 and oparts[0][0] == "rep" and bases_in(oparts[0][1]) == {q}
        if "R2" in which:
            run.check(good, "R2", "%s %s offsets-own-queue" % (key, kind), "one offset per element of %s" % q,
                      "the %s track's chunk offsets are pushed in the schedule part of another queue: %s" % (kind, [sorted(bases_in(p[1])) for p in oparts if p[0] == "rep"]))
        if not good:
            continue
        ent = oparts[0][3]
        val = ent[0][1] if len(ent) == 1 and ent[0][0] == "be" and ent[0][2] == 4 else None
        v = val
        while v is not None and v[0] == "cast":
            v = v[2]
        isacc = v is not None and v[0] == "acc"
        if "R3" in which:
            run.check(isacc, "R3", "%s %s offset-is-cursor" % (key, kind), "entry = cursor at the element's turn", "stco entry is not the running cursor: %s" % (L.show(val) if val else "?"))
        if not isacc:
            continue
        var, lid = v[1], v[2]
        lp = getattr(it, "loops", {}).get(lid)
        if lp is None:
            run.bad("R3", "%s %s cursor-loop" % (key, kind), "loop registry has no entry for the offsets loop")
            continue
        init = lp["init"].get(var)
        steps = lp["steps"].get(var, [])
        # steps mirror the schedule: [('perm', key, [('rep', base, lid, [('step', e)]), ...])]
        flat = _flatten_steps(steps)
        if "R3" in which:
            for (base, lid2, e) in flat:
                want = {m.vq, m.aq} & bases_in(base)
                g = e
                ok = g[0] == "bin" and g[1] == "Add" and g[2] == ("acc", var, lid)
                inc = g[3] if ok else None
                while inc is not None and inc[0] == "cast":
                    inc = inc[2]
                ok = ok and inc is not None and inc[0] == "len" and inc[1] == ("field", ("elem", base, lid2), "data")
                run.check(ok, "R3", "%s %s cursor-step %s" % (key, kind, sorted(want)), "cursor += len(elem(%s).data)" % sorted(want),
                          "in the part of %s the cursor advances by %s, not by the length of the element streamed there" % (sorted(want), L.show(g)[:160]))
            run.check(len(flat) == 2, "R3", "%s %s cursor-steps-cover" % (key, kind), "the cursor advances in both schedule parts", "cursor steps found for %d part(s), expected 2" % len(flat))
            # initial value vs static offset
            iw = _lin_of(init, it, FM.cond_facts(lf.conds))
            so = _strip_lin(static_off)
            run.check(iw is not None and iw == so, "R3", "%s %s cursor-init" % (key, kind), "cursor0 = %s = static offset of the sample region" % so,
                      "initial cursor %s differs from the static file offset of the sample region %s" % (iw if iw is not None else L.show(init)[:200], so))
        # R4
        if "R4" in which:
            over = lp["over"]
            items = _items_by_base(over)
            kexpr = sp[0][1]
            lead = _leading_key_field(kexpr, items.get(q))
            mono = m.mono[q][0]
            good = lead is not None and (lead[0] == "idx" or (lead[0] == "field" and lead[1] in mono))
            if good and lead[0] != "idx":
                # the writers enforce `<=` for audio: entries of one track with equal leading keys keep their queue order only if the sort is
                # stable or the key also contains the element's index
                stable = len(kexpr) > 3 and kexpr[3] in ("sort_by_key", "sort_by", "sort")
                has_idx = _key_has_index(kexpr, items.get(q))
                run.check(stable or has_idx, "R4", "%s %s ties keep queue order" % (key, kind), "equal timestamps within the track stay in queue order (%s)" % ("key contains the index" if has_idx else "stable sort"),
                          "the schedule is sorted with `%s` on a key without the sample index: two %s samples with equal timestamps (legal: the writer enforces only non-decreasing time) may be stored in swapped order, "
                          "while stsz/stco pair the k-th size with the k-th stored chunk - the k-th sample then resolves to another sample's bytes" % (kexpr[3] if len(kexpr) > 3 else "?", kind))
            run.check(good, "R4", "%s %s order==queue-order" % (key, kind),
                      "schedule key leads with %s, which the %s writer keeps monotone (%s)" % (lead, kind, mono),
                      "stco entries of the %s track are in schedule order, whose leading key field is `%s`, but the writer only enforces monotonicity of %s: "
                      "for streams where `%s` is not monotone in submission order the k-th chunk offset does not belong to the k-th sample" % (kind, lead[1] if lead else "?", sorted(mono), lead[1] if lead else "?"))


def _flatten_steps(steps):
    out = []

    def rec(sgs, base=None, lid=None):
        for s in sgs:
            if s[0] == "step":
                out.append((base, lid, s[1]))
            elif s[0] == "rep":
                rec(s[3], s[1], s[2])
            elif s[0] == "perm":
                rec(s[2], base, lid)
            elif s[0] == "part":
                rec(s[1], base, lid)
            elif s[0] == "ploop":
                rec(s[3], base, lid)
    rec(steps)
    return out


def _items_by_base(over):
    out = {}

    def rec(sgs):
        for s in sgs:
            if s[0] == "perm":
                rec(s[2])
            elif s[0] == "rep" and len(s[3]) == 1 and s[3][0][0] == "item":
                for b in bases_in(s[1]):
                    out[b] = (s[1], s[2], s[3][0][1])
    rec(over)
    return out


def _key_has_index(kexpr, item):
    if item is None or kexpr[0] != "key":
        return False
    base, lid, tup = item
    k = kexpr[2]
    comps = k[1] if k[0] == "tuple" else [k]
    for c in comps:
        if c[0] == "tfield" and c[1][0] == "keyelem" and tup[0] == "tuple" and c[2] < len(tup[1]) and tup[1][c[2]][0] == "idx":
            return True
    return False


def _leading_key_field(kexpr, item):
    """('field', name) | ('idx',) | None: what the first component of the sort key is for items of this part"""
    if item is None or kexpr[0] != "key":
        return None
    base, lid, tup = item
    k = kexpr[2]
    first = k[1][0] if k[0] == "tuple" and k[1] else k
    # first is in terms of ('keyelem', K): tfield(keyelem, i)
    if first[0] == "tfield" and first[1][0] == "keyelem" and tup[0] == "tuple":
        comp = tup[1][first[2]]
        if comp[0] == "field" and comp[1] == ("elem", base, lid):
            return ("field", comp[2])
        if comp[0] == "idx":
            return ("idx",)
    return None


def _lin_of(e, it, facts=None):
    """Lin for a scalar offset expression: literals, Add, casts, len(bufval)"""
    if e is None:
        return None
    while e[0] == "cast":
        e = e[2]
    if e[0] == "lit":
        return L.Lin(e[1])
    if e[0] == "bin" and e[1] == "Add":
        a, b = _lin_of(e[2], it, facts), _lin_of(e[3], it, facts)
        if a is None or b is None:
            return None
        return a + b
    if e[0] == "len" and e[1][0] == "bufval":
        try:
            sg = L.norm_segs(_thaw(e[1][1]))
            if facts:
                sg = FM.specialise(sg, facts)
            return _strip_lin(L.width(sg))
        except L.Unanalysable:
            return None
    return None


def _thaw(x):
    """bufval stores segs as tuples; turn the segment containers back into lists where the code expects lists"""
    out = []
    for s in x:
        k = s[0]
        if k == "box":
            out.append(("box", _thaw(s[1]), _thaw(s[2])))
        elif k == "alt":
            out.append(("alt", s[1], _thaw(s[2]), _thaw(s[3])))
        elif k == "match":
            out.append(("match", s[1], [(p, _thaw(sg)) for p, sg in s[2]]))
        elif k == "rep":
            out.append(("rep", s[1], s[2], _thaw(s[3])))
        elif k == "perm":
            out.append(("perm", s[1], _thaw(s[2])))
        else:
            out.append(s)
    return out


def _strip_lin(w):
    t = {}
    for k, v in w.terms.items():
        k2 = L.strip_ids(k)
        t[k2] = t.get(k2, 0) + v
    return L.Lin(w.const, t)


def single_chunk_rules(m, lf, run, which, key, body, static_off, vtrak, moov, has_mdat):
    if len(vtrak) != 1:
        run.bad("R2", key + " traks", "expected exactly one (video) trak, found %d" % len(vtrak))
        return
    trak = vtrak[0]
    stco = find_box(trak, b"stco")
    stsc = find_box(trak, b"stsc")
    if not has_mdat:
        # empty file: no chunk
        ent = [s for s in stco[2] if s[0] not in ("c",)] if stco else ["?"]
        good = stco is not None and all(s[0] == "c" for s in stco[2]) and stco[2] and stco[2][-1][1][-4:] == b"\x00\x00\x00\x00"
        if "R3" in which:
            run.check(good, "R3", key + " no-samples-no-chunks", "stco entry_count = 0", "a file without media data declares chunk offsets: %s" % ", ".join(L.show(s) for s in stco[2])[:200] if stco else "no stco")
        return
    if "R2" in which:
        ok = body is not None and len(body) == 1 and body[0][0] == "rep" and bases_in(body[0][1]) == {m.vq} and \
            body[0][3] == [("blob", ("field", ("elem", body[0][1], body[0][2]), "data"))]
        run.check(ok, "R2", key + " body-queue-order", "sample region = video queue in order", "sample region is not the video queue streamed in order: %s" % ", ".join(L.show(s) for s in (body or []))[:200])
    if "R3" in which:
        view, rest = B.byte_view(stco[2])
        cnt = B.field_value(view, 4, 4)
        off = B.field_value(view, 8, 4)
        good = cnt == ("const", b"\x00\x00\x00\x01") and not rest and len(view) == 12
        run.check(good, "R3", key + " single-chunk", "one chunk", "single-chunk layout must declare exactly one chunk offset: %s" % ", ".join(L.show(s) for s in stco[2])[:200])
        so = _strip_lin(static_off)
        if off[0] == "const":
            ow = L.Lin(int.from_bytes(off[1], "big"))
        elif off[0] == "expr":
            ow = _lin_of(off[1][1], m.it, FM.cond_facts(lf.conds))
        else:
            ow = None
        run.check(ow is not None and ow == so, "R3", key + " chunk-offset", "chunk offset = %s = static offset of the sample region" % so,
                  "the single chunk offset %s differs from the static file offset of the sample region %s" % (ow if ow is not None else off, so))
        # samples_per_chunk == len(queue)
        alts = B.alternatives(stsc[2], {}) if stsc else []
        good = False
        for a in alts:
            v2, r2 = B.byte_view(a)
            if len(v2) == 20:
                spc = B.field_value(v2, 12, 4)
                if spc[0] == "expr":
                    e = spc[1][1]
                    while e[0] == "cast":
                        e = e[2]
                    if e[0] == "if":
                        e = e[3] if e[2] == ("lit", 0) else e[2]
                        while e[0] == "cast":
                            e = e[2]
                    good = e == ("len", m.qexpr(m.vq))
        run.check(good, "R3", key + " samples-per-chunk", "samples_per_chunk = len(video queue)", "stsc samples_per_chunk is not the number of queued video samples")


def api_passthrough(cx, run, R="R6"):
    """the public write entry points hand the writer the call's own payload slice and key flag: every argument of a call to a writer
    `write_*_sample*` method that binds the callee's `data` / `is_keyframe` parameter is the same-named parameter of the entry point itself"""
    from .. import sym
    u = cx.u
    n = 0
    for p, b in sorted(cx.live.items()):
        if not (b.get("impl_self", "").startswith("api::Muxer") and b.get("reachable_pub") and b.get("kind") != "Closure"):
            continue
        names = {i: mir.debug_name(b, i) for i in range(1, b["argc"] + 1)}
        if "data" not in names.values():
            continue
        for bb, t, name, info in mir.calls(b):
            cb = u.bodies.get(name) if name else None
            if cb is None or "Mp4Writer" not in cb.get("impl_self", "") or "_sample" not in name.rsplit("::", 1)[-1]:
                continue
            for k, a in enumerate(t["args"]):
                role = mir.debug_name(cb, k + 1)
                if role not in ("data", "is_keyframe"):
                    continue
                e = sym.expr(b, a)
                while e[0] in ("ref", "copy") or (e[0] == "call" and e[1].endswith("Deref::deref") and len(e[2]) == 1):
                    e = e[1] if e[0] != "call" else e[2][0]
                src = e[1] if e[0] == "arg" else (int(str(e[1])[3:]) if e[0] in ("load", "refplace") and str(e[1]).startswith("arg") and str(e[1])[3:].isdigit() else None)
                n += 1
                run.check(src is not None and names.get(src) == role, R, "%s passes its own `%s` to %s" % (p.rsplit("::", 1)[-1], role, name.rsplit("::", 1)[-1]),
                          "argument = parameter `%s`" % role,
                          "%s hands the writer `%s` as `%s`, not the submitted `%s` itself: the stored %s is no longer the one submitted" % (
                              p.rsplit("::", 1)[-1], sym.show(e)[:120], role, role, "sync flag" if role == "is_keyframe" else "payload"), mir.loc_of(t))
    run.floor(R, n, 5, "payload / key-flag arguments handed to the writer by the public entry points")


def r6(m, run):
    cx, it = m.cx, m.it
    u = cx.u
    api_passthrough(cx, run)
    for q, kind in ((m.vq, "video"), (m.aq, "audio")):
        w = m.writer_of[q]
        if w is None or w not in u.hir:
            run.bad("R6", "%s writer" % kind, "writer function of the %s queue not found" % kind)
            continue
        it2 = L.Interp(u, box_builders=it.box_builders)
        it2.trace = []
        try:
            it2.call_value(w, [("param", p["pat"].get("name", "_")) for p in u.hir[w]["params"]])
        except L.Unanalysable as e:
            run.bad("R6", "%s writer-unanalysable" % kind, "cannot interpret %s: %s" % (mir.norm(w), e))
            continue
        structs = []
        for t in it2.trace:
            if t[0] == "struct" and set(t[2]) >= {"data", "is_keyframe"} and L.freeze(t[2]) not in [L.freeze(x[2]) for x in structs]:
                structs.append(t)
        if kind == "audio" and len(structs) >= 1:
            # one record per successful arm of the codec match (arms with `?`/early return split the paths)
            datas = [t[2]["data"] for t in structs]
            flags = {L.freeze(t[2]["is_keyframe"]) for t in structs}
            run.check(flags == {("bool", False)}, "R6", "audio key-flag", "audio samples carry no sync flag", "audio key flag is %s" % sorted(flags))
            aac = [d for d in datas if "adts_to_raw" in L.show(d)]
            raw = [d for d in datas if d == ("param", "data")]
            good = len(aac) == 1 and _is_adts_payload(aac[0])
            run.check(good, "R6", "audio payload Aac", L.show(aac[0])[:120] if aac else "?", "AAC payload is not the ADTS validator's slice of the submitted frame: %s" % [L.show(d)[:80] for d in datas])
            run.check(len(raw) == 1 and len(datas) == 2, "R6", "audio payload Opus", "verbatim", "Opus payload is not the submitted packet verbatim: %s" % [L.show(d)[:80] for d in datas])
            continue
        if len(structs) != 1:
            run.bad("R6", "%s sample-record" % kind, "expected exactly one queued-sample record construction in %s, found %d" % (mir.norm(w), len(structs)))
            continue
        f = structs[0][2]
        data = f["data"]
        if kind == "video":
            good = f["is_keyframe"] == ("param", "is_keyframe")
            run.check(good, "R6", "video key-flag", "is_keyframe stored from the parameter", "the stored key flag is %s, not the submitted flag" % L.show(f["is_keyframe"]))
            arms = _arms(data)
            want = {"H264": "annexb_to_avcc", "H265": "hevc_annexb_to_hvcc", "Av1": None, "Vp9": None}
            for codec, conv in want.items():
                v = arms.get(codec)
                if conv:
                    good = v is not None and v[0] == "call" and v[1].endswith("::" + conv) and v[2] == (("param", "data"),)
                    if not good and v is not None and v[0] == "buf":
                        # the converter was inlined: compare with the converter's own production applied to `data`
                        cands = [p for p in u.hir if p.endswith("::" + conv) and it2.is_producer(p)]
                        if len(cands) == 1:
                            ref = L.Interp(u, box_builders=it.box_builders).production(cands[0], [("param", "data")])
                            good = L.strip_ids(L.freeze(ref)) == L.strip_ids(L.freeze(v[1]))
                else:
                    good = v == ("param", "data")
                run.check(good, "R6", "video payload %s" % codec, "%s" % (L.show(v) if v else "?"), "stored payload for %s is %s" % (codec, L.show(v) if v else "missing arm"))
            run.check(data[0] == "matchv" and "video_codec" in L.show(data[1]), "R6", "video payload selected-by-codec", "match on the configured codec", "payload conversion is not selected by the configured video codec")
        else:
            good = f["is_keyframe"] == ("bool", False)
            run.check(good, "R6", "audio key-flag", "audio samples carry no sync flag", "audio key flag is %s" % L.show(f["is_keyframe"]))
            arms = _arms(data)
            a = arms.get("Aac")
            good = a is not None and _is_adts_payload(a)
            run.check(good, "R6", "audio payload Aac", L.show(a)[:120] if a else "?", "AAC payload is not the ADTS validator's slice of the submitted frame: %s" % (L.show(a) if a else "missing"))
            o = arms.get("Opus")
            run.check(o == ("param", "data"), "R6", "audio payload Opus", "verbatim", "Opus payload is %s" % (L.show(o) if o else "missing"))


def _arms(data):
    """variant name -> value of a `match` over the codec; or-patterns `A | B` give each alternative the arm's value"""
    out = {}
    if data[0] == "matchv":
        for p, v in data[2]:
            for alt in str(p).split("|"):
                out.setdefault(alt.strip().split("::")[-1], v)
    return out


def _is_adts_payload(v):
    """exactly `adts_to_raw(data)` (success value), possibly copied: no further slicing, trimming or concatenation"""
    while True:
        if v[0] in ("unwrapped", "okval"):
            v = v[1]
        elif v[0] == "mcall" and v[1].split("::")[-1] in ("to_vec", "to_owned", "clone", "into", "map_err") and not [a for a in v[3] if a[0] not in ("closure", "lambda", "lambdav", "def", "ctor")]:
            v = v[2]
        elif v[0] == "cast":
            v = v[2]
        else:
            break
    return v[0] == "call" and v[1].split("::")[-1] == "adts_to_raw" and tuple(v[2]) == (("param", "data"),)


def _walk(x):
    out = []

    def rec(y):
        if isinstance(y, tuple):
            out.append(y)
            for z in y:
                rec(z)
    rec(x)
    return out
