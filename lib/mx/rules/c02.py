"""C02 — every emitted byte stream is a well-formed ISO-BMFF tree with mandatory boxes.

R1 single size writer: the box constructors' own production is be32(8+len(payload)) ++ type ++ payload (size == total width);
R2 containers tile: the payload of every container box consists of child boxes only (after the schema's fixed prefix);
R3 grammar vs schema: in every alternative (configuration) of every container the mandatory children are present exactly once,
   no unknown child, one-of groups have exactly one member; top level of a progressive file / init segment / media segment;
R4 counted tables: entry counts equal the number of entries emitted (same rule instances as C19.R3);
R5 mdat tiling: every mdat size field == 8 + the summed length of exactly the payloads streamed after it (progressive: C01.R7
   instances; media segment: derived here)."""
from .. import boxcheck as B
from .. import filemodel as FM
from .. import layout as L
from .. import spec as S
from ..anchors import AnchorMissing
from . import c01, c19

EXPLANATION = (
    "the complete box tree of every byte stream the library can emit is derived symbolically from the typed HIR (all configurations as alternatives): progressive files via the file productions of both finalize "
    "functions, the init segment, the media segment. R1 the box constructor writes size = 8 + len(payload) = its own total width; R2 every container's payload is child boxes only => declared sizes tile the parent "
    "recursively for every input; R3 each alternative of each container is matched against a containment/cardinality schema transcribed from ISO/IEC 14496-12 (mandatory boxes, one-of groups, no strangers) and the "
    "top-level order/cardinality (ftyp first, one moov, at most one mdat; init = ftyp+moov with mvex/trex; segment = moof(mfhd, traf(tfhd, tfdt, trun)) + mdat); R4 count fields == number of entries; R5 mdat size == 8 + streamed payloads.")
TRUSTED = ["containment schema transcription (lib/mx/spec.py)", "layout interpreter"]


def stsc_guard_rule(prog, run):
    """R4 (cross-table): the sample-to-chunk table gets an entry only when there is at least one chunk and one sample per chunk;
    otherwise it would describe a chunk that the chunk-offset table of the same trak does not list"""
    from .. import absint as A
    from .. import mir, sym
    u = prog.lib
    fns = [f for f in u.bodies if mir.norm(f).split("::")[-1] == "build_stsc_box" and not u.bodies[f]["in_test_cfg"]]
    if len(fns) != 1:
        run.bad("R4", "anchor stsc builder", "sample-to-chunk builder not found")
        return
    b = u.bodies[fns[0]]
    cx = A.Ctx(b, u)
    ints = [i for i in range(1, b["argc"] + 1) if b["locals"][i]["ty"] in A.INT_RANGE]
    names = {i: (mir.debug_name(b, i) or "_%d" % i) for i in ints}
    n = 0
    for bb, t, name, info in mir.calls(b):
        if not (name and mir.norm(name).split("::")[-1] == "extend_from_slice" and len(t["args"]) == 2):
            continue
        e = sym.expr(b, t["args"][1])
        srcs = {y[1] for y in sym.walk(e) if isinstance(y, tuple) and len(y) > 1 and y[0] == "arg" and y[1] in ints}
        if not srcs:
            continue
        n += 1
        for i in ints:
            ok, h = cx.prove_le0(A.Lin(1) - cx.lin(("arg", i, names[i])), bb)
            run.check(ok, "R4", "stsc entry needs %s >= 1" % names[i], "entry emitted only under %s != 0 (%s)" % (names[i], h),
                      "a sample-to-chunk entry is emitted on a path where `%s` may be 0: the table then refers to a chunk the chunk-offset table does not contain" % names[i], mir.loc_of(t))
    run.floor("R4", n, 1, "stsc entry fields derived from the parameters")


def check(prog, run):
    run.rule("R6", "stts/ctts describe as many samples as stsz/stco: the run-length builders add every element to a run (C03.R6 instances)")
    from . import c03
    c03.rle_rule(prog, run, "R6")
    run.rule("R7", "one track per configured stream: the builder enables the writer's audio track iff an audio codec other than None was configured (C04.R12 table)")
    from . import c04
    c04.builder_audio_table(prog, run, "R7")
    run.rule("R1", "box constructor: size field == 8 + len(payload) == emitted width; header is size ++ fourcc")
    run.rule("R2", "containers tile: container payloads hold child boxes only (after the prescribed full-box / sample-entry prefix)")
    run.rule("R3", "grammar: per configuration, each container has its mandatory children exactly once, optional ones at most once, nothing else; top-level structure of file / init segment / media segment")
    run.rule("R4", "counted tables: count fields equal the number of entries emitted (stts, ctts, stsc, stsz, stco, stss, trun, dref, stsd)")
    run.rule("R5", "mdat tiling: mdat size == 8 + sum of the payloads streamed into it")
    stsc_guard_rule(prog, run)
    try:
        m = c01.Model(prog)
    except AnchorMissing as e:
        run.bad("R1", "anchor", "anchor missing: %s" % e)
        return
    except L.Unanalysable as e:
        run.bad("R3", "unanalysable", "file production cannot be derived (fail closed): %s" % e)
        return
    it = m.it
    for p in it.box_builders:
        ok, d = it.box_shape_ok(p)
        run.check(ok, "R1", "box-constructor %s" % p, d, "box constructor does not produce be32(8+len(payload)) ++ type ++ payload: " + d)
    run.floor("R1", len(it.box_builders), 2, "box constructors")
    streams = []
    for lf in m.leaves:
        streams.append(("file " + m.key(lf), m.spec(lf), "file", lf))
    u = prog.lib
    it2 = L.Interp(u)
    for root, kind in (("fragmented::FragmentedMuxer::init_segment", "init"), ("fragmented::build_media_segment", "segment")):
        if root not in u.hir:
            run.bad("R3", "anchor " + root, "producer not found")
            continue
        try:
            streams.append((kind, L.norm_segs(it2.production(root)), kind, None))
        except L.Unanalysable as e:
            run.bad("R3", "unanalysable " + root, "cannot derive (fail closed): %s" % e)
    nbox = 0
    for name, segs, kind, lf in streams:
        nbox += tree_rules(run, name, segs)
        top_rules(run, name, segs, kind, m, lf)
    run.floor("R3", nbox, 150, "boxes across all derived streams")
    # R4: counted tables on every stream
    seen = set()
    for name, segs, kind, lf in streams:
        for (path, box, cond) in B.walk_boxes(segs):
            key = "%s %s" % (name, B.path_str(path))
            if key in seen:
                continue
            seen.add(key)
            if path[-1] in (b"stts", b"ctts", b"stsc", b"stsz", b"stco", b"stss", b"trun"):
                sub = _Relabel(run, "R4")
                c19.var_records(sub, path[-1], box, key, it)


class _Relabel:
    """forward c19's variable-record results under another rule id"""

    def __init__(self, run, rule):
        self.run, self.rule = run, rule

    def check(self, cond, rule, key, ok="", bad="", loc=None, how="structural"):
        return self.run.check(cond, self.rule, key, ok, bad, loc, how)

    def ok(self, rule, key, detail="", loc=None, how="structural"):
        self.run.ok(self.rule, key, detail, loc, how)

    def bad(self, rule, key, detail, loc=None, path=None):
        self.run.bad(self.rule, key, detail, loc, path)


PREFIX = {b"stsd": 8, b"dref": 8, b"meta": 4, b"avc1": 78, b"hvc1": 78, b"av01": 78, b"vp09": 78, b"mp4a": 28, b"Opus": 28}


def tree_rules(run, name, segs):
    n = 0
    dup = {}
    allb = list(B.walk_boxes(segs))
    for (path, box, cond) in allb:
        dup[B.path_str(path)] = dup.get(B.path_str(path), 0) + 1
    ordn = {}
    for (path, box, cond) in allb:
        n += 1
        fc = path[-1]
        base = B.path_str(path)
        ordn[base] = ordn.get(base, 0) + 1
        key = "%s %s%s" % (name, base, "#%d" % ordn[base] if dup[base] > 1 else "")
        if fc is None:
            run.bad("R3", key + " fourcc", "box type is not a constant four-character code")
            continue
        payload = box[2]
        if fc in S.CONTAINERS:
            run.check(B.only_boxes(payload), "R2", key + " tiles", "children only", "container payload holds stray bytes besides child boxes: %s" % ", ".join(L.show(s) for s in payload if s[0] != "box")[:200])
        elif fc in PREFIX:
            tail = c19._after(payload, PREFIX[fc])
            run.check(tail is not None and B.only_boxes(tail), "R2", key + " tiles", "%d-byte prefix then children only" % PREFIX[fc],
                      "after its %d-byte fixed prefix the box holds something other than child boxes" % PREFIX[fc])
        if fc in S.SCHEMA:
            sch = S.SCHEMA[fc]
            body = payload if fc in S.CONTAINERS else (c19._after(payload, PREFIX.get(fc, 0)) or [])
            try:
                alts = B.alternatives([s for s in body if s[0] in ("box", "alt", "match", "rep")], B.facts_of(cond))
            except L.Unanalysable:
                run.bad("R3", key + " alternatives", "too many configurations to enumerate")
                continue
            for ai, a in enumerate(alts):
                kids = [L.fourcc(s) for s in a if s[0] == "box"]
                reps = [s for s in a if s[0] == "rep"]
                problems = []
                for k_, (lo, hi) in sch.items():
                    c = kids.count(k_)
                    if c < lo:
                        problems.append("mandatory %s missing" % B.fc_str(k_))
                    if hi is not None and c > hi:
                        problems.append("%s occurs %d times" % (B.fc_str(k_), c))
                for k_ in kids:
                    if k_ not in sch:
                        problems.append("unexpected child %s" % B.fc_str(k_))
                for grp in S.ONE_OF.get(fc, []):
                    c = sum(1 for k_ in kids if k_ in grp)
                    if c != 1:
                        problems.append("exactly one of %s required, found %d" % (sorted(B.fc_str(g) for g in grp), c))
                if reps:
                    problems.append("repeated children")
                run.check(not problems, "R3", "%s children%s" % (key, " alt%d" % ai if len(alts) > 1 else ""),
                          "children %s" % [B.fc_str(k_) for k_ in kids], "; ".join(problems) + " (children %s)" % [B.fc_str(k_) for k_ in kids])
    return n


def top_rules(run, name, segs, kind, m, lf):
    top = FM.top_structure(segs)
    kinds = [(t[0], t[1] if t[0] == "box" else None) for t in top]
    shape = [("%s:%s" % (k, B.fc_str(a)) if k == "box" else k) for k, a in kinds]
    if kind == "file":
        ok = shape in (["box:ftyp", "mdat_hdr", "mdat_tag", "body", "box:moov"], ["box:ftyp", "box:moov"], ["box:ftyp", "box:moov", "mdat_hdr", "mdat_tag", "body"])
        run.check(ok, "R3", name + " top-level", " ".join(shape), "file is not ftyp + one moov + at most one mdat in a valid order: %s" % shape)
    elif kind == "init":
        run.check(shape == ["box:ftyp", "box:moov"], "R3", name + " top-level", " ".join(shape), "init segment is not exactly ftyp + moov: %s" % shape)
        moov = [t[2] for t in top if t[0] == "box" and t[1] == b"moov"]
        has = moov and any(p[-1] == b"trex" for (p, b, c) in B.walk_boxes(moov[0][2]))
        run.check(bool(has), "R3", name + " mvex/trex", "movie-extends entry present", "init segment lacks mvex/trex")
    elif kind == "segment":
        ok = shape == ["box:moof", "mdat_hdr", "mdat_tag", "body"]
        run.check(ok, "R3", name + " top-level", " ".join(shape), "media segment is not exactly moof + mdat: %s" % shape)
        hdr = next((t[1] for t in top if t[0] == "mdat_hdr"), None)
        body = next((t[1] for t in top if t[0] == "body"), None)
        if hdr is not None and body is not None:
            sh, sb = FM.sigma_expr(hdr), FM.sigma_segs(body)
            good = sh is not None and sb is not None and sh[0] == 8 + sb[0] and sh[1] == sb[1]
            run.check(good, "R5", name + " mdat-size", "size = 8 + sum(len(sample.data))", "segment mdat size is not 8 + the summed sample lengths: %s vs %s" % (L.show(hdr)[:160], ", ".join(L.show(s) for s in body)[:160]))
    if kind == "file" and lf is not None:
        c01.leaf_rules(m, lf, _Relabel(run, "R5"), ("R7",))
