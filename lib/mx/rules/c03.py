"""C03 — decode and composition timing in the file equals the submitted timestamps.

R1 absolute rounding: every tick value handed to the inner writer is cast_u64(round(ts_param * 90000.0)) of the call's own
   timestamp parameter — no state in the slice (no accumulated deltas), `round` on the chain;
R2 duration back-patch: the value stored as the previous sample's duration and as the track's last delta is
   (this timestamp - previous timestamp) of the track's monotone timestamp, and `previous` is then set from the same parameter;
R3 pairing: the final sample's fall-back duration is the track's own last delta (C01.R5 instances);
R4 same table: mdhd duration = sum of the durations list that the stts box of the same trak is built from;
R5 ctts: composition offset = pts - dts per sample; the ctts box is present iff some offset is non-zero (the presence flag is the
   fold of `offset != 0` over the same offsets that are written).
R6 run-length tables (stts, ctts): a run is extended only when the run's value *equals* the current element, otherwise a new
   run (1, element) is appended - so the table decodes to exactly the input list (no tolerance, no reordering).
Not decided: exactness of f64 rounding for particular cadences."""
from .. import guards
from .. import boxcheck as B
from .. import layout as L
from .. import mir, sym
from ..anchors import AnchorMissing
from . import c01, c15, common

EXPLANATION = (
    "data-dependence slices on MIR (tick conversion, duration back-patch) and the symbolic moov production (durations list -> stts and mdhd, composition offsets -> ctts and its presence flag): R1 sources of every tick "
    "argument = {the call's own timestamp parameter, the constant 90000} with operator chain {Mul, round, float->int}; R2 duration = Sub(timestamp parameter, previous-state) stored to both the last queued sample and the "
    "last-delta field, previous-state then assigned the same parameter; R4 mdhd duration is the sum over the very durations list iterated by stts; R5 ctts entries are pts-dts per element and the box is conditional on the fold of `offset != 0` over them.")
TRUSTED = ["sym slices", "layout interpreter"]

M = "api::Muxer::<Writer>::"
TICKS = {M + "write_video": [("pts", 1)], M + "write_video_with_dts": [("pts", 1), ("dts", 2)], M + "write_audio": [("pts", 1)]}


def duration_rule(m, run, R="R2"):
    """per-sample durations are the differences of the submitted (monotone) timestamps: back-patched into the previous record for every
    next sample, mirrored in the last-delta field, previous := the same parameter; records enter the queue without a duration of
    their own.  Shared with C09 (each track's timeline is then the submitted one, which is what keeps the two tracks in step)."""
    cx, u = m.cx, m.cx.u
    for q, kind in ((m.vq, "video"), (m.aq, "audio")):
        w = m.writer_of[q]
        b = u.bodies.get(w)
        if b is None:
            run.bad(R, kind + " writer", "not found")
            continue
        mono = m.mono[q][0]
        sites = [s for s in cx.st.sites[w] if s[3].startswith("assign") and s[2][0] == ("arg", 1)]
        dur = [s for s in sites if s[2][1][:1] == (q,) and s[2][1][-1:] == ("duration",)]
        deltas = []
        for s in dur:
            e = sym.expr_rv(b, s[4]["rv"])
            deltas.append((s, e))
        ok = len(deltas) == 1
        param = prev = None
        if ok:
            e = common.resolve_try(u, deltas[0][1])      # a checked-conversion helper `delta(a, b)?` is looked through
            subs = [t for t in sym.walk(e) if isinstance(t, tuple) and t and t[0] == "bin" and t[1] in ("Sub", "SubWithOverflow")]
            ok = len(subs) == 1 and subs[0][2][0] == "arg" and subs[0][3][0] == "load" and subs[0][3][1].startswith("arg1.")
            if ok:
                param, prev = subs[0][2], subs[0][3][1].split(".")[1]
        run.check(ok, R, "%s duration" % kind, "prev.duration = Some((%s - self.%s) as u32)" % (param[2] if param else "?", prev), ("previous sample's duration is %s" % [sym.show(e)[:100] for _, e in deltas]) if deltas else "the %s writer no longer stores `this timestamp - previous timestamp` into the previous sample's duration (no plain store to `.duration` of the queue's last record): sample durations come from somewhere else than the submitted timestamps" % kind, mir.loc_of(deltas[0][0][4]) if deltas else None)
        if not ok:
            continue
        # the same delta goes to the last-delta field; prev := Some(param)
        same = [s for s in sites if len(s[2][1]) == 1 and s[2][1][0] not in (q, prev) and sym.expr_rv(b, s[4]["rv"]) == deltas[0][1]]
        run.check(len(same) == 1, R, "%s last-delta" % kind, "self.%s = the same delta" % (same[0][2][1][0] if same else "?"), "no state field receives the same delta as the patched duration (fallback for the final sample)")
        pst = [s for s in sites if s[2][1] == (prev,)]
        good = len(pst) == 1 and any(x == param for x in sym.walk(sym.expr_rv(b, pst[0][4]["rv"])))
        run.check(good, R, "%s prev-update" % kind, "self.%s = Some(%s)" % (prev, param[2]), "the previous-timestamp state is not updated from the parameter the delta is computed from")
        # the back-patch happens for every next sample: its store is not conditional on the sample's own (still unset) duration, and a
        # record enters the queue without a duration of its own (it is only known when the next sample arrives)
        from .. import guards as _g
        from . import c04 as _c04
        _c04.CUR_BODY[:] = [b]
        gsig = [_c04.signature(d_, t_) for (s_, d_, t_) in _g.guards_of(b, deltas[0][0][0])]
        _c04.CUR_BODY[:] = []
        cond = [x for x in gsig if "duration" in x]
        run.check(not cond, R, "%s duration back-patch unconditional" % kind, "stored for every next sample",
                  "the previous sample's duration is back-patched only under `%s`: samples that already carry a duration keep it, so the timeline is no longer the submitted timestamp differences" % (cond[0] if cond else ""), mir.loc_of(deltas[0][0][4]))
        pushed = []
        for blk in b["blocks"]:
            for st_ in blk["stmts"]:
                if st_["k"] == "assign" and st_["rv"]["k"] == "aggregate" and st_["rv"].get("agg") == "adt" and "duration" in (st_["rv"].get("fields") or []) and "data" in (st_["rv"].get("fields") or []):
                    pushed.append(sym.expr(b, dict(zip(st_["rv"]["fields"], st_["rv"]["ops"]))["duration"]))
        good = bool(pushed) and all(x[0] == "agg" and str(x[1]).endswith("Option::None") for x in pushed)
        run.check(good, R, "%s queued without duration" % kind, "duration: None until the next sample arrives",
                  "a sample is queued with a duration of its own (%s) instead of the difference to the next submitted timestamp" % [sym.show(x)[:60] for x in pushed])
        # param feeds the monotone field of the queued record
        run.check(bool(mono), R, "%s monotone-field" % kind, "writer enforces monotone %s" % sorted(mono), "no monotone timestamp found for the %s queue" % kind)


def check(prog, run):
    run.rule("R1", "tick = cast_u64(round(own timestamp parameter * 90000.0)); no state in the slice")
    run.rule("R2", "duration back-patch = this - previous of the monotone timestamp, stored to last sample and last-delta; previous := same parameter")
    run.rule("R3", "fall-back duration of the final sample is the track's own last delta (C01.R5)")
    run.rule("R4", "mdhd duration = sum of the durations list that feeds the same trak's stts")
    run.rule("R5", "composition offset = pts - dts; ctts present iff some offset != 0 (fold over the written offsets)")
    run.rule("R6", "run-length tables: a run is extended only on exact equality with the current element; otherwise a new run (1, element) is pushed")
    rle_rule(prog, run)
    try:
        m = c01.Model(prog)
    except (AnchorMissing, L.Unanalysable) as e:
        run.bad("R1", "anchor", str(e))
        return
    cx, u = m.cx, m.cx.u
    tick_rule(cx, run, "R1")
    # ---- R2
    duration_rule(m, run, "R2")
    # ---- R3 via C01.R5, R4, R5 on the A/V standard leaf and the video-only leaf
    seen = set()
    for lf in m.leaves:
        tag = m.config_tag(lf)
        if tag in seen or "empty" in tag.split(","):
            continue
        seen.add(tag)
        c01.leaf_rules(m, lf, c15._Map(run, {"R5": "R3"}), ("R5",))
        segs = m.spec(lf)
        key = m.key(lf)
        for kind, trak in c01.traks(segs):
            q = m.vq if kind == "video" else m.aq
            mdhd = c01.find_box(trak, b"mdhd")
            stts = c01.find_box(trak, b"stts")
            if mdhd is None or stts is None:
                run.bad("R4", "%s %s boxes" % (key, kind), "mdhd/stts missing")
                continue
            view, _ = B.byte_view(mdhd[2])
            dv = B.field_value(view, 16, 4)
            de = dv[1][1] if dv[0] == "expr" else None
            x = de
            while x is not None and x[0] == "cast":
                x = x[2]
            ok = False
            d = L.show(de)[:140] if de else str(dv)
            if x is not None and x[0] == "mcall" and x[1].endswith("Iterator::sum"):
                r = x[2]
                if r[0] == "mcall" and r[1].endswith("Iterator::map") and r[2][0] == "mcall" and r[2][1].endswith("iter"):
                    lst = r[2][2]
                    # the list summed must be the list stts iterates (its RLE entries are built from it)
                    while lst[0] == "mcall" and lst[1].split("::")[-1] == "collect":
                        lst = lst[2]               # `.collect()` of an iterator chain: the chain is the sequence
                    if lst[0] == "list":
                        sb = c01.bases_in(lst)
                        tb = c01.bases_in(stts[2])
                        lam = r[3][0] if r[3] else None
                        unit = lam is not None and lam[0] == "lambda" and _peel(lam[2]) == ("elem", lst, lam[1])
                        same_list = L.mentions(stts[2], lambda y: isinstance(y, tuple) and y[:1] == ("rep",) and False) or _list_in(stts[2], lst)
                        ok = (q in sb) and unit and same_list
                    elif lst[0] == "mcall":
                        # the durations are an iterator chain over the queue (`samples.iter()..map(f).collect()`): stts must iterate that very chain
                        lam = r[3][0] if r[3] else None
                        unit = lam is not None and lam[0] == "lambda" and _peel(lam[2])[0] == "elem" and L.strip_ids(L.freeze(_uncollect(_peel(lam[2])[1]))) == L.strip_ids(L.freeze(lst))
                        want = L.strip_ids(L.freeze(lst))
                        same_list = _occurs(L.strip_ids(L.freeze(stts[2])), want)
                        ok = (q in c01.bases_in(lst)) and unit and same_list
            stts_values_rule(run, "R4", key, kind, stts)
            run.check(ok, "R4", "%s %s mdhd==sum(stts source)" % (key, kind), "mdhd.duration = sum(durations) of the list behind stts", "mdhd duration is %s, not the sum of the durations list that feeds stts" % d)
            if kind == "video":
                ctts_rule(run, key, trak, m, q)


def tick_rule(cx, run, R="R1", exact=True):
    """every public write entry point converts its own timestamp parameter with the one formula cast_u64(round(t * 90000.0)): the same
    function for both tracks and all entry points, no state, no other parameter (so equal submitted times give equal ticks, the
    conversion is monotone, and no per-call rounding error accumulates).  exact=False (C09, C15): only `the same stateless function
    of the call's own timestamp at every entry point` - which formula is C03's business."""
    u = cx.u
    n = 0
    sigs = {}
    for ent, want in TICKS.items():
        b = u.bodies.get(ent)
        if b is None:
            run.bad(R, "entry " + mir.norm(ent), "not found")
            continue
        inner = [(bb, t, name) for bb, t, name, info in mir.calls(b) if name in u.bodies and u.bodies[name].get("impl_self", "").startswith(cx.an.sink_adt or "?")]
        if len(inner) != 1:
            run.bad(R, "inner-call " + mir.norm(ent), "expected one call into the inner writer, found %d" % len(inner))
            continue
        bb, t, name = inner[0]
        for (pname, argpos) in want:
            n += 1
            e = common.inline_expr(u, sym.expr(b, t["args"][argpos]))       # a conversion helper is looked through
            srcs = sym.sources(e)
            ops_ = sym.ops(e)
            params = {s[2] for s in srcs if s[0] == "arg"}
            consts = {s[1] for s in srcs if s[0] == "const"}
            loads = {s[1] for s in srcs if s[0] == "load"}
            good = params == {pname} and consts == {90000} and not loads and \
                sorted(o for o in ops_ if not o.startswith("cast:IntToFloat")) == sorted(["Mul", "call:std::f64::round", "cast:FloatToInt:u64"])
            if not exact:
                good = params == {pname} and not loads
                sigs["%s(%s)" % (mir.norm(ent).split("::")[-1], pname)] = (tuple(sorted(ops_)), tuple(sorted(map(str, consts))))
            run.check(good, R, "%s tick(%s)" % (mir.norm(ent), pname), sym.show(e), "tick conversion of %s is %s (sources %s, ops %s)" % (pname, sym.show(e)[:120], sorted(map(str, srcs))[:4], ops_), mir.loc_of(t))
    if not exact and sigs:
        run.check(len(set(sigs.values())) == 1, R, "one conversion for all entry points", "%d conversions, same operations and constants" % len(sigs),
                  "the entry points convert their timestamps differently (%s): equal or ordered submitted times of the two tracks need not stay so" % ", ".join("%s: %s" % (k, "/".join(v[0])) for k, v in sorted(sigs.items())))
    run.floor(R, n, 4, "tick conversions")


def elem_like(x):
    """the current element of the encoder's input: `input[i]` or the item of a value-preserving iterator chain over the input"""
    if x[0] == "load" and str(x[1]).startswith("arg1.[]"):
        return True
    # `for d in input.iter().copied()`: the item is `next(<value-preserving adaptors over the input>).as Some.0`
    if x[0] == "proj" and x[2] == "0" and x[1][0] == "proj" and x[1][2] == "as Some" and x[1][1][0] == "call" and x[1][1][1].split("::")[-1] == "next" and x[1][1][2]:
        r_ = x[1][1][2][0]
        while r_[0] == "ref" or (r_[0] == "call" and r_[1].split("::")[-1] in ("into_iter", "iter", "copied", "cloned", "by_ref", "deref", "as_slice") and r_[2]):
            r_ = r_[1] if r_[0] == "ref" else r_[2][0]
        return r_[:2] == ("arg", 1) or (r_[0] in ("load", "refplace") and str(r_[1]) in ("arg1", "arg1.*"))
    return False


def rle_rule(prog, run, R="R6"):
    u = prog.lib
    g = mir.Graph(u)
    st = mir.Stores(g)
    n = 0
    for want in ("build_stts_box", "build_ctts_box"):
        fns = [f for f in u.bodies if mir.norm(f).split("::")[-1] == want and not u.bodies[f]["in_test_cfg"]]
        if len(fns) != 1:
            run.bad(R, "anchor " + want, "run-length table builder not found")
            continue
        f = fns[0]
        b = u.bodies[f]
        incs, pushes, other = [], [], []
        for (bb, i, (root, path), why, node) in st.sites[f]:
            if root[0] != "local":
                continue
            if why.startswith("assign") and node.get("k") == "assign" and path[-1:] == ("0",):
                e = sym.expr_rv(b, node["rv"])
                if e[0] == "proj" and e[1][0] == "bin" and e[1][1] == "AddWithOverflow" and e[1][3][:2] == ("const", 1) and e[1][2][0] == "load":
                    incs.append((bb, root, e[1][2][1], node))
                    continue
            if why.startswith("extcall") and why.endswith("Vec::push") and path == ():
                val = sym.expr(b, node["args"][1])
                pushes.append((bb, root, val, node))
                continue
            other.append((root, why))
        if len(incs) != 1:
            run.bad(R, want + " shape", "expected exactly one `run.count += 1` site, found %d: the run-length encoder is not in the analysable shape" % len(incs))
            continue
        bb, root, cnt_path, node = incs[0]
        gs = guards.guards_of(b, bb)
        ok = False
        desc = "no guard"
        if gs:
            s_, d, tk = gs[-1]
            desc = "%s -> %s" % (sym.show(d)[:120], tk)
            val_path = cnt_path[:-1] + "1" if cnt_path.endswith(".0") else None

            def same_path(a_, b_):
                # the run reached through `last_mut()`: the guard may read it through the Option the call returned
                # (`_k.as Some.0.*.1` with _k = last_mut(&mut entries)) instead of the resolved element path `entries.[].1`
                norm_ = lambda q: str(q).replace(".*", "")
                if norm_(a_) == norm_(b_):
                    return True
                import re as _re
                m_ = _re.match(r"^_(\d+)\.as Some\.0(?:\.\*)?\.(\w+)$", str(a_))
                mb = _re.match(r"^_(\d+)\.\[\]\.(\w+)$", str(b_))
                if m_ and mb and m_.group(2) == mb.group(2):
                    for d_ in mir.defs(b).get(int(m_.group(1)), []):
                        if d_[0] != "stmt":
                            nm_, _i = mir.callee(d_[2])
                            if nm_ and mir.norm(nm_).split("::")[-1] in ("last_mut", "last") and d_[2]["args"]:
                                src_ = sym.expr(b, d_[2]["args"][0])
                                while src_[0] == "ref" or (src_[0] == "call" and src_[1].split("::")[-1] in ("deref_mut", "deref", "as_mut_slice", "as_slice") and src_[2]):
                                    src_ = src_[1] if src_[0] == "ref" else src_[2][0]
                                want_ = sym.expr_local(b, int(mb.group(1)))
                                if src_ == want_ or any(isinstance(y, tuple) and y[:2] == ("var", int(mb.group(1))) for y in sym.walk(src_)):
                                    return True
                return False
            if d[0] == "bin" and d[1] == "Eq" and guards.truth(tk) and val_path:
                sides = [d[2], d[3]]
                is_val = [x for x in sides if x[0] == "load" and same_path(x[1], val_path)]
                is_elem = [x for x in sides if elem_like(x)]
                ok = len(is_val) == 1 and len(is_elem) == 1
        run.check(ok, R, want + " merge-guard", "run extended only under `run.value == element`", "the run count is incremented under `%s`, which is not exact equality of the run's value with the current element: distinct durations/offsets are merged" % desc, mir.loc_of(node))
        newrun = [p_ for p_ in pushes if p_[1] == root]
        good = len(newrun) == 1 and newrun[0][2][0] == "agg" and newrun[0][2][1] == "tuple" and len(newrun[0][2][3]) == 2 and newrun[0][2][3][0][:2] == ("const", 1) \
            and elem_like(newrun[0][2][3][1])
        # every element is accounted for: from the loop's element branch the next iteration is reachable only through the
        # increment or the push (no `continue` that drops an element from the table while stsz/stco still count it)
        heads = [blk["i"] for blk in b["blocks"] if blk["term"]["k"] == "call" and (mir.callee(blk["term"])[0] or "").endswith("::next") and not blk.get("cleanup")]
        heads = [h_ for h_ in heads if bb in mir.reachable(b, [h_]) and h_ in mir.reachable(b, [bb])]     # the loop that contains the increment
        if len(heads) != 1 or not newrun:
            run.bad(R, want + " every element counted", "cannot identify the loop that builds the run-length entries (fail closed)")
        else:
            hd = heads[0]
            cut = {bb, newrun[0][0]}
            seen_, work_ = set(), []
            # successors of the discriminant switch that follows next(): start from those that can reach the increment / push
            nxt = b["blocks"][hd]["term"].get("target")
            starts = [x for x in mir.succs(b, nxt)] if nxt is not None else []
            starts = [x for x in starts if (cut & mir.reachable(b, [x])) or x in cut]
            work_ = [x for x in starts if x not in cut]
            skipped = False
            while work_:
                x = work_.pop()
                if x in seen_ or x in cut or b["blocks"][x].get("cleanup"):
                    continue
                seen_.add(x)
                if x == hd:
                    skipped = True
                    break
                work_.extend(mir.succs(b, x))
            run.check(not skipped, R, want + " every element counted", "each element either extends the current run or starts a new one",
                      "an element of the input can reach the next loop iteration without being added to the table (a `continue`/guard drops it): the table then describes fewer samples than stsz/stco", mir.loc_of(node))
        run.check(good, R, want + " new-run", "otherwise push (1, element)", "a new run is not appended as (1, current element): %s" % [sym.show(p_[2])[:80] for p_ in newrun], mir.loc_of(newrun[0][3]) if newrun else None)
        n += 1
    run.floor(R, n, 2, "run-length table builders")


def _peel(e):
    while e[0] == "cast":
        e = e[2]
    if e[0] == "payload" or e[0] == "un":
        return e[1] if e[0] == "payload" else _peel(e[2])
    return e


def stts_values_rule(run, R, key, kind, stts):
    """the deltas stts carries are the elements' own durations: no emitted value is taken from the table under construction (a previous
    run's value written again for a "close enough" element) or from anywhere but the current element"""
    vals = []
    is_elem = lambda y: isinstance(y, tuple) and y[:1] == ("elem",)

    def atoms_(sgs, under):
        # `under`: the segment is selected by a test on the current element (`match sample.duration { Some(d) => d, None => fall-back }`):
        # the arm's value then is a function of the current element even where it does not mention it
        for sg in sgs:
            if sg[0] == "be":
                vals.append((sg[1], under))
            elif sg[0] == "rep":
                atoms_(sg[3], under)
            elif sg[0] == "alt":
                u_ = under or L.mentions(sg[1], is_elem)
                atoms_(sg[2], u_)
                atoms_(sg[3], u_)
            elif sg[0] == "match":
                u_ = under or L.mentions(sg[1], is_elem)
                for _p, x_ in sg[2]:
                    atoms_(x_, u_)
            elif sg[0] in ("perm",):
                atoms_(sg[2], under)
    atoms_([sg for sg in stts[2] if sg[0] in ("rep", "alt", "match", "perm")], False)
    foreign = [v_ for (v_, u_) in vals if L.mentions(v_, lambda y: isinstance(y, tuple) and y[:1] == ("list",)) or not (u_ or L.mentions(v_, is_elem))]
    run.check(bool(vals) and not foreign, R, "%s %s stts deltas are the elements' own durations" % (key, kind), "%d emitted delta expression(s), each a function of the current element only" % len(vals),
              "stts writes a delta that is not the current sample's own duration (%s): the track's timeline is no longer the sum of the submitted deltas" % (L.show(foreign[0])[:120] if foreign else "no delta found"))


def _uncollect(x):
    while isinstance(x, tuple) and x and x[0] == "mcall" and x[1].split("::")[-1] in ("collect", "iter", "into_iter") and len(x) > 2:
        x = x[2]
    return x


def _unwrap_seq(x):
    """strip collect / iter / copied / cloned / to_vec adaptors that leave the elements unchanged"""
    while isinstance(x, tuple) and x and x[0] == "mcall" and x[1].split("::")[-1] in ("collect", "iter", "into_iter", "copied", "cloned", "to_vec", "as_slice") and len(x) > 2:
        x = x[2]
    if isinstance(x, tuple) and x[:1] == ("mcall",) and x[1].split("::")[-1] == "map":
        return x[:2] + (("mcall", "core::slice::iter", _unwrap_seq(x[2]), ()),) + x[3:]
    return x


def _occurs(big, small):
    if big == small:
        return True
    if isinstance(big, (tuple, list)):
        return any(_occurs(y, small) for y in big)
    return False


def _list_in(segs, lst):
    """does the frozen/stripped list value occur as the collection of a loop in segs?"""
    want = L.strip_ids(L.freeze(lst[1]))
    found = []

    def rec(x):
        if isinstance(x, tuple):
            if x[:1] == ("rep",) and len(x) == 4 and isinstance(x[1], tuple):
                pass
            for y in x:
                rec(y)
        elif isinstance(x, list):
            for y in x:
                rec(y)
    # stts entries come from `entries`, itself built by iterating `durations`: the production keeps the durations list's
    # structure (rep over the queue with one item per element); compare queue bases and per-element item expression
    return c01.bases_in(segs) >= c01.bases_in(lst)


def ctts_rule(run, key, trak, m, q):
    stbl = c01.find_box(trak, b"stbl")
    alts = [s for s in stbl[2] if s[0] == "alt" and any(L.fourcc(x) == b"ctts" for x in s[2] if x[0] == "box")]
    if len(alts) != 1 or alts[0][3]:
        run.bad("R5", key + " ctts-conditional", "ctts is not an optional child of stbl")
        return
    cond = alts[0][1]
    qe = m.qexpr(q)
    ok = cond[0] == "fold" and cond[1] == ("bool", False) and cond[2] == qe
    off = None
    if ok:
        lid = cond[3]
        step = cond[4]
        el = ("elem", qe, lid)
        off = ("cast", "i32", ("bin", "Sub", ("cast", "i64", ("field", el, "pts")), ("cast", "i64", ("field", el, "dts"))))
        ok = step == ("if", ("bin", "Ne", off, ("lit", 0)), ("bool", True), ("acc", step[3][1] if step[0] == "if" and step[3][0] == "acc" else "?", lid))
        if not ok and step[0] == "bin" and step[1] in ("BitOr", "Or") and len(step) == 4:
            # the same fold spelled `flag |= off != 0` / `flag = flag || off != 0`
            sides = [step[2], step[3]]
            ok = any(x[0] == "acc" for x in sides) and any(x == ("bin", "Ne", off, ("lit", 0)) for x in sides)
    if not ok and cond[0] == "mcall" and cond[1].split("::")[-1] == "any" and len(cond[3]) == 1 and cond[3][0][0] == "lambda":
        # `offsets.iter().any(|&o| o != 0)` over `queue.iter().map(|s| (pts - dts) as i32).collect()`
        lam = cond[3][0]
        seq = _uncollect(cond[2])
        body = lam[2]
        el_ok = body[0] == "bin" and body[1] == "Ne" and body[3] == ("lit", 0) and _peel(body[2])[0] == "elem" and \
            L.strip_ids(L.freeze(_uncollect(_peel(body[2])[1]))) == L.strip_ids(L.freeze(seq))
        src_ok = False
        if seq[0] == "mcall" and seq[1].split("::")[-1] == "map" and len(seq[3]) == 1 and seq[3][0][0] == "lambda" and _uncollect(seq[2]) == qe:
            l2 = seq[3][0]
            el = ("elem", qe, l2[1])
            off = ("cast", "i32", ("bin", "Sub", ("cast", "i64", ("field", el, "pts")), ("cast", "i64", ("field", el, "dts"))))
            src_ok = l2[2] == off
        ok = el_ok and src_ok
    run.check(ok, "R5", key + " ctts-presence", "ctts present iff exists sample with (pts - dts) != 0", "ctts presence condition is %s" % L.show(cond)[:200])
    ctts = [x for x in alts[0][2] if x[0] == "box"][0]
    # entries derive from collect(map(iter(queue), |s| (pts - dts) as i32))
    txt = L.strip_ids(L.freeze(ctts[2]))
    # ... and nothing else: the sequence the run-length encoder iterates is that very list (no re-basing, scaling or filtering of
    # the offsets between the queue and the table)
    seqs = []

    def reps(x):
        if isinstance(x, tuple) and x[:1] == ("rep",) and len(x) >= 3 and isinstance(x[1], tuple):
            if x[1][:1] != ("listval",):
                seqs.append(x[1])
        if isinstance(x, (tuple, list)):
            for y in x:
                reps(y)
    reps(ctts[2])
    canon = L.strip_ids(L.freeze(("mcall", "std::iter::Iterator::map", ("mcall", "core::slice::iter", qe, ()), (("lambda", "L0", ("cast", "i32", ("bin", "Sub", ("cast", "i64", ("field", ("elem", qe, "L0"), "pts")), ("cast", "i64", ("field", ("elem", qe, "L0"), "dts"))))),))))
    bad = [q_ for q_ in seqs if L.strip_ids(L.freeze(_unwrap_seq(q_))) not in (canon, L.strip_ids(L.freeze(qe)))]
    run.check(seqs and not bad, "R5", key + " ctts-values-only", "the encoder iterates exactly the list of pts - dts",
              "the ctts encoder iterates %s, not the list of (pts - dts) per queue element itself" % (L.show(bad[0])[:160] if bad else "nothing recognisable"))
    want = L.strip_ids(L.freeze(("cast", "i32", ("bin", "Sub", ("cast", "i64", ("field", ("elem", qe, "L0"), "pts")), ("cast", "i64", ("field", ("elem", qe, "L0"), "dts"))))))
    run.check(L.mentions(txt, lambda y: y == want), "R5", key + " ctts-values", "offset = (pts as i64 - dts as i64) as i32 per queue element", "ctts entries are not pts - dts of the queue elements")
