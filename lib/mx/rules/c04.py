"""C04 — calls succeed iff the documented input contract holds; errors name the violation.

R1 guard table: per entry point every documented precondition has an error exit of the right variant whose dominating
   guard is the right predicate on the right operands (canonical relation incl. strictness, invariant under
   `a <= b` <-> `!(a > b)`), and every explicit error exit of these entry points is one of the documented ones;
R2 typestate: success only on the not-finished edge (C06.R3 machinery); finish is consuming (type-level, thorough tier);
R3 error map: total internal->public conversion equals the documented table;
R4 siblings: entry points feeding the same queue maintain the state the other one judges against;
R5 ADTS error kinds are raised under guards on the frame bytes; Opus validation guards the Opus arm only.
Not decided: NaN / sub-tick behaviour of the f64 comparisons (value-level)."""
from .. import flow, guards, mir, sym
from .. import layout as L
from ..anchors import AnchorMissing
from . import c06, common

EXPLANATION = (
    "guard extraction on MIR (dominating switch edges of every error exit, operands resolved by data-dependence slices to parameter / state field / constant roles) for all builder, frame-writing and finish entry points "
    "and their inner writers: R1 each documented precondition maps to an error exit of the documented variant under the documented predicate (relation canonicalised: error iff X < / <= / > Y), and no undocumented "
    "rejection exists; R2 success exits lie on the flag-false edge; R3 the internal->public error conversion (a total match) equals the documented 11-row table; R4 sibling video entry points maintain each other's "
    "monotonicity state; R5 every ADTS error kind is raised under a guard that reads the frame bytes, the Opus validator guards exactly the Opus arm.")
TRUSTED = ["guard table transcribed from docs/contract.md and the property statement", "sym slices"]

M = "api::Muxer::<Writer>::"
W = "muxer::mp4::Mp4Writer::<Writer>::"
FM_ = "fragmented::FragmentedMuxer::"
B_ = "api::MuxerBuilder::<Writer>::"


def role(e):
    """operand role of an expression: param:<name> | state:<field> | const:<v> | len(param:<n>) | expr"""
    x = e
    while isinstance(x, tuple) and x and x[0] == "cast":
        x = x[4]
    if not isinstance(x, tuple) or not x:
        return "?"
    if x[0] == "arg":
        return "param:" + x[2]
    if x[0] == "const":
        v = x[1]
        if isinstance(v, str):
            v = v.replace("f64", "").replace("_", "")
            try:
                v = float(v)
                v = int(v) if v == int(v) else v
            except ValueError:
                pass
        return "const:%s" % v
    if x[0] == "load":
        p = x[1]
        if p.startswith("arg1."):
            f = p.split(".", 1)[1].split(".")[0]
            return "state:" + f
        if p.startswith("arg") and "." not in p:
            nm = ROLE_NAMES.get(int(p[3:])) if p[3:].isdigit() else None
            return "param:" + (nm or "#" + p[3:])
        return "mem:" + p
    if x[0] == "refplace":
        return role(("load", x[1], ""))
    if x[0] == "ref":
        return role(x[1])
    if x[0] == "call" and x[1] in ("core::slice::len", "std::vec::Vec::len") and x[2]:
        return "len(%s)" % role(x[2][0])
    if x[0] == "call" and x[1] == "std::convert::num::from" and x[2]:
        return role(x[2][0])
    if x[0] == "proj":
        return role(x[1])
    if x[0] == "bin" and x[1] in ("Sub", "SubWithOverflow"):
        return "delta(%s,%s)" % (role(x[2]), role(x[3]))
    if x[0] == "var":
        return "local:" + str(x[2])
    return "expr"


ROLE_NAMES = {}
CUR_BODY = []      # [body] of the function whose guards are being rendered (types of locals)
CUR_UNIT = []      # [unit] for look-through of local helper functions


FLIP = {"Lt": "Gt", "Le": "Ge", "Gt": "Lt", "Ge": "Le", "Eq": "Eq", "Ne": "Ne"}
NEG = {"Lt": "Ge", "Le": "Gt", "Gt": "Le", "Ge": "Lt", "Eq": "Ne", "Ne": "Eq"}
SYM = {"Lt": "<", "Le": "<=", "Gt": ">", "Ge": ">=", "Eq": "==", "Ne": "!="}


def signature(d, taken):
    """canonical signature of a guard (discr expression, taken edge)"""
    tr = guards.truth(taken)
    e = d
    pos = True
    while e[0] == "un" and e[1] == "Not":
        e, pos = e[2], not pos
    if tr is not None and not pos:
        tr = not tr
    if e[0] == "bin" and e[1] in FLIP and tr is not None:
        op = e[1] if tr else NEG[e[1]]
        a, b = role(e[2]), role(e[3])
        # canonical orientation: parameter-ish operand first
        def rank(r):
            return 0 if r.startswith("param") or r.startswith("len(param") or r.startswith("delta") or r.startswith("len(local") else (1 if r.startswith("local") else 2)
        if rank(b) < rank(a):
            a, b, op = b, a, FLIP[op]
        return "%s %s %s" % (a, SYM[op], b)
    if e[0] == "call" and tr is not None:
        nm = e[1].split("::")[-1]
        args = ",".join(role(a) for a in e[2])
        if nm == "is_some" and "Option" in e[1]:
            nm, tr = "is_none", not tr            # one canonical spelling for Option tests
        return "%s%s(%s)" % ("" if tr else "!", nm, args)
    if e[0] in ("load", "arg", "var") and tr is not None:
        return "%s%s" % ("" if tr else "!", role(e))
    if e[0] == "discr":
        v = taken[1] if taken[0] == "eq" else "!" + ",".join(taken[1])
        inner = e[1]
        while inner[0] == "call" and inner[1].split("::")[-1] in ("as_ref", "as_mut", "as_deref") and "Option" in inner[1] and inner[2]:
            inner = inner[2][0]
            while inner[0] == "ref":
                inner = inner[1]
        if inner is not e[1]:
            e = ("discr", inner)
        ty = e[1][2] if (e[1][0] in ("load", "refplace") and len(e[1]) > 2) else ""
        if e[1][0] == "var" and CUR_BODY and isinstance(e[1][1], int) and e[1][1] < len(CUR_BODY[0]["locals"]):
            ty = CUR_BODY[0]["locals"][e[1][1]]["ty"]
        if str(ty).startswith("std::option::Option<") and v in ("0", "!1", "1", "!0"):
            return "%sis_none(%s)" % ("" if v in ("0", "!1") else "!", role(e[1]))
        return "variant(%s)=%s" % (role(e[1]), v)
    return "?(%s)" % sym.show(e)[:60]


def err_sigs(b, bb):
    """guard chain of an error exit; a block entered from several switch edges (`if a || b { return Err(..) }`) is guarded by the
    disjunction of those edges, appended as the nearest guard in one canonical spelling"""
    sigs = [signature(d, t) for (s, d, t) in guards.guards_of(b, bb)]
    prs = mir.preds(b)
    cur = bb
    for _ in range(16):              # straight-line blocks between the join and the exit (building the error value)
        pr = sorted(set(prs[cur]))
        if len(pr) == 1 and b["blocks"][pr[0]]["term"]["k"] != "switch":
            cur = pr[0]
        else:
            break
    bb = cur
    pr = sorted(set(prs[bb]))
    if len(pr) < 2:
        return sigs
    edges = []
    for p in pr:
        tgt_ = bb
        for _ in range(4):           # empty goto blocks on the edge
            if b["blocks"][p]["term"]["k"] == "goto" and not [x for x in b["blocks"][p]["stmts"] if x["k"] == "assign"] and len(set(prs[p])) == 1:
                tgt_, p = p, prs[p][0]
            else:
                break
        t = b["blocks"][p]["term"]
        if t["k"] != "switch":
            return sigs
        succs = [(("eq", v), tgt) for v, tgt in t["arms"]] + [(("ne", [v for v, _ in t["arms"]]), t["otherwise"])]
        tk = [tk_ for tk_, tgt in succs if tgt == tgt_]
        if len(tk) != 1:
            return sigs
        edges.append(signature(sym.expr(b, t["discr"]), tk[0]))
    es = sorted(set(edges))
    if len(es) == 2 and es[0].startswith("is_infinite(") and es[1].startswith("is_nan(") and es[0][len("is_infinite"):] == es[1][len("is_nan"):]:
        return sigs + ["!is_finite" + es[1][len("is_nan"):]]          # f64: not finite <=> NaN or infinite
    return sigs + ["(" + " || ".join(es) + ")"]


def variant_of(body, ex):
    e = sym.expr_rv(body, ex["node"]["rv"])
    if e[0] == "agg" and e[3]:
        inner = e[3][0]
        if inner[0] == "agg":
            return str(inner[1]).split("::")[-1]
        if inner[0] == "call" and inner[1].startswith("std::io::Error::"):
            return "io::Error"
        if inner[0] == "call" and CUR_UNIT and len(inner) > 3 and inner[3] in CUR_UNIT[0].bodies:
            # Err(helper(..)): the variants the local helper can return
            hb = CUR_UNIT[0].bodies[inner[3]]
            vs = set()
            for d in mir.defs(hb).get(0, []):
                if d[0] == "stmt":
                    x = sym.expr_rv(hb, d[3]["rv"])
                    if x[0] == "agg":
                        vs.add(str(x[1]).split("::")[-1])
                    else:
                        vs.add("?")
                else:
                    vs.add("?")
            if vs and "?" not in vs:
                return "|".join(sorted(vs))
        if inner[0] == "var":
            # Err(match ..) built in a temporary: collect the variants assigned to it
            vs = set()
            for d in mir.defs(body).get(inner[1], []):
                if d[0] == "stmt":
                    x = sym.expr_rv(body, d[3]["rv"])
                    if x[0] == "agg":
                        vs.add(str(x[1]).split("::")[-1])
            return "|".join(sorted(vs)) or "var"
    return sym.show(e)[:40]


# (entry, variant) -> list of acceptable signatures for the *nearest relevant* guard
TABLE = {
    M + "write_video": {
        "EmptyVideoFrame": ["is_empty(param:data)"],
        "InvalidVideoPts": ["!is_finite(param:pts)"],
        "NegativeVideoPts": ["param:pts < const:0"],
        "NonIncreasingVideoPts": ["param:pts <= state:last_video_pts"],
    },
    M + "write_video_with_dts": {
        "AlreadyFinished": ["state:finished"],
        "EmptyVideoFrame": ["is_empty(param:data)"],
        "InvalidVideoPts": ["!is_finite(param:pts)"],
        "NegativeVideoPts": ["param:pts < const:0"],
        "InvalidVideoDts": ["!is_finite(param:dts)"],
        "NegativeVideoDts": ["param:dts < const:0"],
        "NonIncreasingDts": ["param:dts <= state:last_video_dts"],
    },
    M + "write_audio": {
        "AlreadyFinished": ["state:finished"],
        "AudioNotConfigured": ["is_none(state:audio_track)"],
        "InvalidAudioPts": ["!is_finite(param:pts)"],
        "NegativeAudioPts": ["param:pts < const:0"],
        "EmptyAudioFrame": ["is_empty(param:data)"],
        "DecreasingAudioPts": ["param:pts < state:last_audio_pts"],
        "AudioBeforeFirstVideo": ["param:pts < state:first_video_pts", "is_none(state:first_video_pts)"],
    },
    # "non-empty data" applies to the convenience form too; it is checked before the keyframe helper reads the bytes
    M + "encode_video": {"EmptyVideoFrame": ["is_empty(param:data)"]},
    M + "encode_audio": {"AudioNotConfigured": ["is_none(state:audio_track)"]},
    M + "finish_in_place_with_stats": {"AlreadyFinished": ["state:finished"]},
    W + "write_video_sample_with_dts": {
        "AlreadyFinalized": ["state:finalized"],
        "NonIncreasingTimestamp": ["param:dts <= state:video_prev_pts"],
        "DurationOverflow": ["delta(param:dts,state:video_prev_pts) > const:4294967295", "len(local:converted) > const:4294967295"],
        "FirstFrameMustBeKeyframe": ["!param:is_keyframe"],
        "FirstFrameMissingSequenceHeader|FirstFrameMissingSpsPps|FirstFrameMissingVp9Config": ["is_none(local:config)"],
    },
    W + "write_audio_sample": {
        "AlreadyFinalized": ["state:finalized"],
        "NonIncreasingTimestamp": ["param:pts < state:audio_prev_pts"],
        "DurationOverflow": ["delta(param:pts,state:audio_prev_pts) > const:4294967295", "len(local:sample_data) > const:4294967295"],
        "InvalidOpusPacket": ["!is_valid_opus_packet(param:data)"],
        "AudioNotEnabled": ["variant(state:audio_track)=2"],
    },
    FM_ + "write_video": {"NonMonotonicDts": ["param:dts < state:last_dts"]},
}
# `?` rejections: (entry) -> list of (description, predicate over the try-site source expression)
TRY_TABLE = {
    M + "write_video": [("inner writer", "write_video_sample")],
    M + "write_video_with_dts": [("inner writer", "write_video_sample_with_dts")],
    M + "write_audio": [("inner writer", "write_audio_sample")],
    M + "encode_video": [("explicit-timestamp form", "write_video")],
    M + "encode_audio": [("explicit-timestamp form", "write_audio")],
    M + "finish_in_place_with_stats": [("finalize", "finalize")],
    W + "write_audio_sample": [("audio enabled", "ok_or"), ("ADTS validation", "adts_to_raw")],
    B_ + "build": [("video configured", "ok_or")],
    B_ + "new_with_fragment": [("video configured", "ok_or"), ("codec parameters", "ok_or_else")],
}
ERROR_MAP = {
    "NonIncreasingTimestamp": "NonIncreasingVideoPts", "FirstFrameMustBeKeyframe": "FirstVideoFrameMustBeKeyframe",
    "FirstFrameMissingSpsPps": "FirstVideoFrameMissingSpsPps", "FirstFrameMissingSequenceHeader": "FirstAv1FrameMissingSequenceHeader",
    "FirstFrameMissingVp9Config": "FirstVp9FrameMissingSequenceHeader", "InvalidAdts": "InvalidAdts", "InvalidAdtsDetailed": "InvalidAdtsDetailed",
    "InvalidOpusPacket": "InvalidOpusPacket", "AudioNotEnabled": "AudioNotConfigured", "DurationOverflow": "Io", "AlreadyFinalized": "AlreadyFinished",
}


def opus_rule(prog, run):
    from .. import flow as _flow
    u = prog.lib
    fns = [f for f in u.bodies if mir.norm(f).endswith("codec::opus::opus_frame_count") and not u.bodies[f]["in_test_cfg"]]
    if len(fns) != 1:
        run.bad("R6", "anchor opus_frame_count", "Opus frame-count decoder not found")
        return
    b = u.bodies[fns[0]]

    def ev(x, b0, b1):
        h = x[0]
        if h == "const":
            return int(x[1])
        if h == "load" and len(x) > 3 and x[3] and x[3][0][0] == "const":
            return (b0, b1)[x[3][0][1]] if x[3][0][1] in (0, 1) else None
        if h == "cast":
            return ev(x[4], b0, b1)
        if h == "bin":
            a, c = ev(x[2], b0, b1), ev(x[3], b0, b1)
            if a is None or c is None:
                return None
            return {"BitAnd": a & c, "BitOr": a | c, "Shr": a >> c, "Shl": (a << c) & 0xFF, "Ne": int(a != c), "Eq": int(a == c), "Gt": int(a > c), "Lt": int(a < c), "Ge": int(a >= c), "Le": int(a <= c), "Add": a + c, "Sub": a - c}.get(x[1])
        return None
    want = {0: lambda b1: (1, 0), 1: lambda b1: (2, 0), 2: lambda b1: (2, 1), 3: lambda b1: (b1 & 0x3F, b1 >> 7)}
    seen = {}
    for ex in _flow.exits(b):
        nd = ex["node"]
        if ex["kind"] != "ok" or "rv" not in nd:
            continue
        v = sym.expr_rv(b, nd["rv"])
        if not (v[0] == "agg" and v[3] and v[3][0][0] == "agg" and len(v[3][0][3]) == 2):
            run.bad("R6", "opus ok-exit shape", "a success exit does not return (frame_count, vbr)", mir.loc_of(nd))
            continue
        cnt, vbr = v[3][0][3]
        code = None
        for (s_, d, tk) in guards.guards_of(b, ex["bb"]):
            if d[0] == "bin" and d[1] == "BitAnd" and d[3][:2] == ("const", 3) and d[2][0] == "load" and len(d[2]) > 3 and d[2][3] == (("const", 0, "usize"),) and tk[0] == "eq":
                code = int(tk[1])
        if code is None:
            run.bad("R6", "opus ok-exit guard", "a success exit is not selected by the TOC code (byte0 & 3)", mir.loc_of(nd))
            continue
        bad = None
        for b1 in range(256):
            got = (ev(cnt, code, b1), ev(vbr, code, b1))
            if got != want[code](b1):
                bad = (b1, got, want[code](b1))
                break
        seen[code] = seen.get(code, 0) + 1
        run.check(bad is None, "R6", "opus code %d" % code, "(frame count, vbr) as in RFC 6716 for all 256 values of the second byte",
                  "for TOC code %d and second byte 0x%02x the decoder yields (count, vbr) = %s, RFC 6716 section 3.2 says %s" % ((code,) + bad) if bad else "", mir.loc_of(nd))
    run.check(sorted(seen) == [0, 1, 2, 3] and all(v == 1 for v in seen.values()), "R6", "opus codes covered", "one success exit per TOC code 0..3", "success exits cover TOC codes %s" % sorted(seen.items()))


def adts_table_rule(prog, run, R="R8"):
    """ADTS acceptance table (ISO/IEC 13818-7 6.2 header; the crate's documented restrictions: MPEG-4 ID, layer 0, sampling index
    <= 12, channel configuration 1..7, header < frame_length <= bytes supplied).  The validator is tabulated by finite-domain
    interpretation of its MIR: every header field in turn ranges over *all* its values while the others keep a valid baseline (for
    frame_length: all 8192 values, for both header sizes), plus all supplied lengths 0..12.  For each input the outcome must be the
    one the contract prescribes: the error kind of the violated condition, or Ok(frame[header_len..frame_length])."""
    from .. import minieval as E
    u = prog.lib
    fns = [f for f in u.bodies if mir.norm(f).split("::")[-1] == "adts_to_raw" and not u.bodies[f]["in_test_cfg"]]
    if len(fns) != 1:
        run.bad(R, "anchor adts_to_raw", "ADTS validator not found")
        return
    fn_ = fns[0]

    def hdr(sync=0xFFF, ID=0, layer=0, pa=1, profile=1, sfi=4, priv=0, cc=2, orig=0, home=0, cpid=0, cpst=0, fl=16, full=0x7FF, nb=0):
        return [sync >> 4, ((sync & 0xF) << 4) | (ID << 3) | (layer << 1) | pa, (profile << 6) | (sfi << 2) | (priv << 1) | (cc >> 2),
                ((cc & 3) << 6) | (orig << 5) | (home << 4) | (cpid << 3) | (cpst << 2) | ((fl >> 11) & 3), (fl >> 3) & 0xFF, ((fl & 7) << 5) | ((full >> 6) & 0x1F), ((full & 0x3F) << 2) | nb]

    def want(f, N):
        hl = 7 if f["pa"] else 9
        if N < 7:
            return ("err", "FrameTooShort")
        if f["sync"] != 0xFFF:
            return ("err", "MissingSyncword")
        if f["ID"] != 0:
            return ("err", "InvalidMpegVersion")
        if f["layer"] != 0:
            return ("err", "InvalidLayer")
        if N < hl:
            return ("err", "InvalidHeaderLength")
        if f["sfi"] > 12:
            return ("err", "InvalidSampleRateIndex")
        if f["cc"] == 0:
            return ("err", "InvalidChannelConfig")
        if f["fl"] <= hl or f["fl"] > N:
            return ("err", "InvalidFrameLength")
        return ("ok", (hl, f["fl"]))

    def got(f, N):
        h = hdr(**f)
        m = E.Machine(u)
        m.lenient = True
        fr = E.Bytes(dict(enumerate((h + [0xAA] * 8)[:min(N, 15)])), exact=N, tag="frame")
        r = m.call_fn(fn_, [fr])
        if isinstance(r, E.Adt) and r.name == "Result":
            if r.variant == 0:
                x = r.fields[0]
                return ("ok", getattr(x, "range", None))
            e = r.fields[0]
            k = e.get("kind") if isinstance(e, E.Adt) else None
            if isinstance(k, E.Adt) and k.name in u.adts:
                return ("err", u.adts[k.name]["variants"][k.variant]["name"])
        raise E.Unsupported("result outside the model: %r" % (r,))
    base = dict(sync=0xFFF, ID=0, layer=0, pa=1, profile=1, sfi=4, priv=0, cc=2, orig=0, home=0, cpid=0, cpst=0, fl=16, full=0x7FF, nb=0)
    domains = [("sync", [(v << 4) | 0xF for v in range(256)] + [0xFF0 | v for v in range(16)]), ("ID", range(2)), ("layer", range(4)), ("pa", range(2)), ("profile", range(4)),
               ("sfi", range(16)), ("priv", range(2)), ("cc", range(8)), ("orig", range(2)), ("home", range(2)), ("cpid", range(2)), ("cpst", range(2)),
               ("fl", range(8192) if getattr(run, "tier", "quick") == "thorough" else sorted(set(range(0, 64)) | {(1 << k) + d_ for k in range(3, 13) for d_ in (-1, 0, 1)} | {8191, 5461, 2730})),
               ("full", [0, 1, 0x400, 0x7FF]), ("nb", range(4))]
    n = 0
    bad = {}
    try:
        for name, dom in domains:
            for v in dom:
                for pa in ((0, 1) if name == "fl" else (None,)):
                    f = dict(base)
                    f[name] = v
                    if pa is not None:
                        f["pa"] = pa
                    N = 40
                    g, w = got(f, N), want(f, N)
                    n += 1
                    if g != w and name not in bad:
                        bad[name] = (dict((k, f[k]) for k in (name, "pa")), N, g, w)
        for N in range(0, 13):
            for pa in (0, 1):
                f = dict(base)
                f["pa"] = pa
                f["fl"] = 10
                g, w = got(f, N), want(f, N)
                n += 1
                if g != w and "len" not in bad:
                    bad["len"] = ({"pa": pa, "fl": 10}, N, g, w)
    except E.Unsupported as ex:
        run.bad(R, "ADTS acceptance table", "cannot tabulate the ADTS validator (fail closed): %s" % ex, mir.loc_of(u.bodies[fn_]))
        return
    for name, _d in domains + [("len", None)]:
        b_ = bad.get(name)
        run.check(b_ is None, R, "ADTS %s" % {"len": "supplied length", "fl": "aac_frame_length", "sfi": "sampling_frequency_index", "cc": "channel_configuration", "pa": "protection_absent", "sync": "syncword"}.get(name, name),
                  "outcome as prescribed for every value of the field",
                  "" if b_ is None else "ADTS frame with %s, %d bytes supplied: the validator returns %s, the contract prescribes %s" % (b_[0], b_[1], b_[2], b_[3]), mir.loc_of(u.bodies[fn_]))
    run.floor(R, n, 500, "ADTS header evaluations")


def finish_refusals_rule(prog, run, cx, R="R10"):
    """finish has one documented precondition (not finished yet); besides it the finalisation code may fail only because the sink
    failed or because a size does not fit its 32-bit field (C16).  Every explicit error exit of the functions between the writer's
    finalize entry and the sink helper must be guarded by the finished flag or by a comparison with u32::MAX, and every `?` must
    propagate the sink helper, a checked addition or another function of that tree."""
    u, g, an = cx.u, cx.g, cx.an
    if an.G is None or an.F is None:
        run.bad(R, "anchor finalize", "finalize entry / sink helper not identified")
        return
    tree = sorted(p for p in g.reach([an.G]) if an.F in g.reach([p]) and p != an.F and u.bodies[p].get("kind") != "Closure")
    n = 0
    for p in tree:
        b = u.bodies[p]
        ROLE_NAMES.clear()
        for i in range(1, b["argc"] + 1):
            ROLE_NAMES[i] = mir.debug_name(b, i)
        CUR_BODY[:] = [b]
        for ex in flow.exits(b):
            if ex["kind"] != "err":
                continue
            n += 1
            gs = guards.guards_of(b, ex["bb"])
            sigs = [signature(d, t) for (s_, d, t) in gs]
            last = sigs[-1] if sigs else "unconditional"
            ok = last in ("state:%s" % an.flag_field,) or last.endswith("> const:4294967295") or last.endswith(">= const:4294967296")
            run.check(ok, R, "%s refusal <= %s" % (mir.norm(p).split("::")[-1], last), "already finished / a size exceeds its 32-bit field",
                      "%s returns an error under `%s` (guard chain %s): finish has no such precondition - a muxer that is not finished and whose sizes fit must finish successfully" % (mir.norm(p), last, sigs[-3:]), mir.loc_of(ex["node"]))
        for t in flow.try_sites(b):
            n += 1
            src = t["src"]
            nm = src[1] if isinstance(src, tuple) and src and src[0] == "call" else "?"
            raw = src[3] if isinstance(src, tuple) and len(src) > 3 else None
            ok = raw == an.F or raw in tree or nm.split("::")[-1] in ("checked_add", "checked_mul", "checked_sub", "ok_or_else", "ok_or", "try_from", "try_into") or \
                (raw in u.bodies and _size_helper(u, raw))
            run.check(ok, R, "%s ? %s" % (mir.norm(p).split("::")[-1], nm.split("::")[-1]), "propagates a sink error or a size overflow",
                      "%s propagates a failure of `%s`: not a sink error and not a size check" % (mir.norm(p), nm), t["loc"])
    CUR_BODY[:] = []
    run.floor(R, n, 20, "error exits and `?` sites in the finalisation tree")


# a `?`-propagated rejection may equally be written as an explicit guarded early return: needle -> (variant, documented predicate)
TRY_ALT = {W + "write_audio_sample": {"ok_or": ("AudioNotEnabled", "is_none(state:audio_track)")}}


def _size_helper(u, p, depth=0):
    """a local helper whose every failure is a size check: explicit error exits under `> u32::MAX`-style guards, `?` only on checked
    arithmetic / checked conversions / other such helpers"""
    if depth > 4:
        return False
    b = u.bodies[p]
    for ex in flow.exits(b):
        if ex["kind"] != "err":
            continue
        gs = guards.guards_of(b, ex["bb"])
        if not gs:
            return False
        s_, d, tk = gs[-1]
        if not (d[0] == "bin" and d[1] in ("Gt", "Ge", "Lt", "Le") and any(isinstance(y, tuple) and y[:1] == ("const",) and isinstance(y[1], int) and y[1] >= 0xFFFF for y in sym.walk(d))):
            return False
    for t in flow.try_sites(b):
        src = t["src"]
        nm = src[1] if isinstance(src, tuple) and src and src[0] == "call" else "?"
        raw = src[3] if isinstance(src, tuple) and len(src) > 3 else None
        if nm.split("::")[-1] in ("checked_add", "checked_mul", "checked_sub", "ok_or_else", "ok_or", "try_from", "try_into"):
            continue
        if raw in u.bodies and _size_helper(u, raw, depth + 1):
            continue
        return False
    return True


def vp9_sibling_rule(prog, run, R="R9"):
    """VP9: the first video frame must be a keyframe that carries its configuration.  The crate has two readers of the VP9
    frame-header byte: the keyframe classifier and the configuration extractor.  They must accept the same header bytes: for all
    256 values of byte 3 (frame marker valid, the rest of a well-formed short header fixed), `is_vp9_keyframe == Ok(true)` iff
    `extract_vp9_config != None` (contradiction rule: if they differ, one of them is wrong)."""
    from .. import minieval as E
    u = prog.lib
    kf = [k for k in u.bodies if mir.norm(k) == "codec::vp9::is_vp9_keyframe" and not u.bodies[k]["in_test_cfg"]]
    ex = [k for k in u.bodies if mir.norm(k) == "codec::vp9::extract_vp9_config" and not u.bodies[k]["in_test_cfg"]]
    if len(kf) != 1 or len(ex) != 1:
        run.bad(R, "anchor vp9", "VP9 keyframe classifier / configuration extractor not found")
        return
    diff = []
    n = 0
    try:
        shapes = [([0x49, 0x83, 0x42, None] + t, 3) for t in ([0x00, 0x00, 0x10, 0x10, 0x00, 0x00, 0x00, 0x00], [0x00, 0x00, 0x85, 0x01, 0x10, 0x0C, 0x20, 0x20, 0x13, 0x01])]
        # the frame marker bytes: both readers must refuse the same frames
        for pos in (0, 1, 2):
            d0 = [0x49, 0x83, 0x42, 0x00, 0x00, 0x00, 0x10, 0x10, 0x00, 0x00, 0x00, 0x00]
            d0[pos] = None
            shapes.append((d0, pos))
        for tmpl, pos in shapes:
            for b3 in range(256):
                data = list(tmpl)
                data[pos] = b3
                res = []
                for f in (kf[0], ex[0]):
                    m = E.Machine(u)
                    m.lenient = True
                    res.append(m.call_fn(f, [E.Bytes(dict(enumerate(data)), exact=len(data))]))
                n += 1
                a1 = isinstance(res[0], E.Adt) and res[0].name == "Result" and res[0].variant == 0 and res[0].fields[0] == 1
                if not (isinstance(res[1], E.Adt) and res[1].name == "Option"):
                    raise E.Unsupported("extract_vp9_config result outside the model: %r" % (res[1],))
                a2 = res[1].variant == 1
                if a1 != a2:
                    diff.append((b3, a1, a2, pos))
    except E.Unsupported as e:
        run.bad(R, "vp9 keyframe/config agreement", "cannot tabulate the VP9 header readers (fail closed): %s" % e)
        return
    run.check(not diff, R, "vp9 keyframe/config agreement", "same acceptance on all 256 frame-header bytes (2 header shapes)",
              "for VP9 frame byte %d = 0x%02x the keyframe classifier says %s but the configuration extractor %s a configuration: a frame of that kind flagged as first keyframe is %s although it is %s" %
              ((diff[0][3], diff[0][0], "keyframe" if diff[0][1] else "not a keyframe", "returns" if diff[0][2] else "refuses", "accepted" if diff[0][2] else "rejected", "not a keyframe" if not diff[0][1] else "a keyframe") if diff else (0, 0, "", "", "", "")),
              mir.loc_of(u.bodies[ex[0]]))
    run.floor(R, n, 512, "VP9 header-byte evaluations")


KEYFRAME_REFERENCE = {"H264": "codec::h264::is_h264_keyframe", "H265": "codec::h265::is_hevc_keyframe"}


def keyframe_classifier_rule(prog, run):
    """R7.  `encode_video` decides by itself whether the frame is a keyframe and then enters the explicit-flag form; the first-frame
    precondition it enforces is therefore the crate's definition of "keyframe" only if that decision is the same function of the NAL
    header byte as the codec module's public classifier (which `validation` and the documentation use).  Both are tabulated over all
    256 header bytes, for frames of one NAL unit and of two (keyframe NAL first / last), under the model "AnnexBNalIter yields the
    frame's NAL units" (C14), and compared (contradiction rule: two definitions of one notion that differ - one of them is wrong)."""
    from .. import minieval as E
    u = prog.lib
    ent = [f for f in u.bodies if mir.norm(f) == "api::Muxer::encode_video" and not u.bodies[f]["in_test_cfg"]]
    codec = u.adts.get("api::VideoCodec")
    if len(ent) != 1 or not codec:
        run.bad("R7", "anchor encode_video", "encode_video / VideoCodec not found")
        return
    names = [v["name"] for v in codec["variants"]]

    def machine(capture):
        m = E.Machine(u, models={"codec::common::AnnexBNalIter::new": lambda m_, a, d: E.OnceIter(list(getattr(a[0], "nals", [])))})
        m.pred_models.append((lambda n: "AnnexBNalIter" in n and n.endswith("::next"), E._next))

        def wv(m_, a, d):
            capture.append(a[3] if len(a) > 3 else None)
            return E.Adt("Result", 0, [E.UNIT])
        m.models["api::Muxer::write_video"] = wv
        return m

    def frame(heads):
        fr = E.Bytes([0, 0, 0, 1, heads[0]], minlen=5 * len(heads), tag="frame")
        fr.nals = [E.Bytes([h], minlen=1, tag="nal") for h in heads]
        return fr

    def api_flag(vi, heads):
        cap = []
        m = machine(cap)
        m.call_fn(ent[0], [E.Record({"video_track.codec": E.Adt("api::VideoCodec", vi)}), frame(heads), E.Opaque("duration")])
        if len(cap) != 1 or not isinstance(cap[0], int):
            raise E.Unsupported("encode_video does not pass one decided keyframe flag to write_video (captured %r)" % (cap,))
        return cap[0], m.trace

    def ref_flag(fn, heads):
        m = machine([])
        r = m.call_fn(fn, [frame(heads)])
        if not isinstance(r, int):
            raise E.Unsupported("%s does not return a decided bool" % fn)
        return r, m.trace
    n = 0
    for cname, ref in sorted(KEYFRAME_REFERENCE.items()):
        if cname not in names:
            run.bad("R7", "codec %s" % cname, "VideoCodec::%s not found" % cname)
            continue
        vi = names.index(cname)
        try:
            t_ref = [ref_flag(ref, [b])[0] for b in range(256)]
            # the codec module's classifier itself against the specification's unit types (H.264 7.4.1: nal_unit_type 5 = IDR slice;
            # H.265 table 7-1: 16..21 = BLA_W_LP, BLA_W_RADL, BLA_N_LP, IDR_W_RADL, IDR_N_LP, CRA_NUT, the IRAP types the crate documents)
            spec_set = [int((b & 0x1F) == 5) if cname == "H264" else int(16 <= ((b >> 1) & 0x3F) <= 21) for b in range(256)]
            wrong = [b for b in range(256) if t_ref[b] != spec_set[b]]
            run.check(not wrong, "R7", "keyframe NAL types %s" % cname, "%s == the specification's random-access unit types on all 256 header bytes" % ref,
                      "%s classifies NAL header byte 0x%02x (unit type %d) as %s, the specification's table says %s" %
                      ((ref, wrong[0], (wrong[0] & 0x1F) if cname == "H264" else ((wrong[0] >> 1) & 0x3F), "keyframe" if t_ref[wrong[0]] else "not a keyframe", "keyframe" if spec_set[wrong[0]] else "not a keyframe") if wrong else ("", 0, 0, "", "")),
                      mir.loc_of(u.bodies[ent[0]]))
            nonkey = t_ref.index(0)
            diffs = []
            fns = set()
            for b in range(256):
                for heads in ([b], [nonkey, b], [b, nonkey]):
                    a, tr = api_flag(vi, heads)
                    fns.update(tr)
                    r = t_ref[b] if len(heads) == 1 else ref_flag(ref, heads)[0]
                    if a != r:
                        diffs.append((heads, a, r))
                    n += 1
        except E.Unsupported as e:
            run.bad("R7", "keyframe classifier %s" % cname, "cannot tabulate the %s keyframe decision (fail closed): %s" % (cname, e), mir.loc_of(u.bodies[ent[0]]))
            continue
        if cname == "H264":
            types = sorted({h[-1 if len(h) == 1 else (1 if h[0] == nonkey else 0)] & 0x1F for h, a, r in diffs})
        else:
            types = sorted({(h[-1 if len(h) == 1 else (1 if h[0] == nonkey else 0)] >> 1) & 0x3F for h, a, r in diffs})
        run.check(not diffs, "R7", "encode_video keyframe decision %s" % cname, "equals %s on all 256 NAL header bytes, 1- and 2-NAL frames (interpreted: %s)" % (ref, ", ".join(sorted(fns))[:200]),
                  "for %s, encode_video's own keyframe decision differs from %s for NAL unit types %s (e.g. a frame with NAL header bytes %s: encode_video says %s, the codec module says %s): a first frame of such a type is %s by encode_video although write_video with the matching flag %s it"
                  % ((cname, ref, types, [hex(x) for x in diffs[0][0]], bool(diffs[0][1]), bool(diffs[0][2]), "rejected" if not diffs[0][1] else "accepted", "accepts" if not diffs[0][1] else "would reject") if diffs else ("",) * 8),
                  mir.loc_of(u.bodies[ent[0]]))
    run.floor("R7", n, 2 * 256 * 3, "(codec, frame shape, header byte) evaluations")



def builder_audio_table(prog, run, rule, none_only=False):
    """`MuxerBuilder::build` tabulated by finite-domain interpretation of its MIR over the audio configuration
    {absent} + {None, Opus, Aac(6 profiles)} x 7 sample rates x 5 channel counts (video configured): build succeeds; the muxer has an
    audio track - with exactly the configured codec, rate and channel count - iff an audio codec other than `None` was configured;
    and the writer's audio track is enabled exactly then, once, with the same three values.  (A configured stream is never dropped
    or refused for another reason; no track appears for a stream that was not configured.)"""
    from .. import minieval as E
    u = prog.lib
    bp = [k for k in u.bodies if mir.norm(k) == "api::MuxerBuilder::build" and not u.bodies[k]["in_test_cfg"]]
    ac, ap, mb = u.adts.get("api::AudioCodec"), u.adts.get("api::AacProfile"), u.adts.get("api::MuxerBuilder")
    en = [k for k in u.bodies if mir.norm(k) == "muxer::mp4::Mp4Writer::enable_audio"]
    if len(bp) != 1 or not ac or not ap or not mb or len(en) != 1:
        run.bad(rule, "anchor MuxerBuilder::build", "builder / audio codec types / Mp4Writer::enable_audio not found")
        return
    vnames = [v["name"] for v in ac["variants"]]
    codecs = []
    for i, v in enumerate(ac["variants"]):
        if v["fields"]:
            for j, pv in enumerate(ap["variants"]):
                codecs.append(("%s(%s)" % (v["name"], pv["name"]), lambda i=i, j=j: E.Adt("api::AudioCodec", i, [E.Adt("api::AacProfile", j, [])])))
        else:
            codecs.append((v["name"], lambda i=i: E.Adt("api::AudioCodec", i, [])))
    fields = [f["name"] for f in mb["variants"][0]["fields"]]
    n = 0
    bad = None
    try:
        scen = [None] + [(c, r, ch) for c in codecs for r in (0, 1, 8000, 44100, 48000, 96000, 0xFFFFFFFF) for ch in (0, 1, 2, 8, 0xFFFF)]
        if none_only:
            # the borrowing property (C17) speaks only about `codec None == no audio call`
            scen = [sc for sc in scen if sc is None or sc[0][0] == "None"]
        for sc in scen:
            calls = []

            def rec(m_, a, d, calls=calls):
                calls.append(a)
                return E.UNIT
            m = E.Machine(u, models={"muxer::mp4::Mp4Writer::enable_audio": rec})
            m.lenient = True
            vals = {"writer": E.Opaque("sink"), "video": E.some((E.Adt("api::VideoCodec", 0, []), 1920, 1080, E.Opaque("fps"))),
                    "audio": E.none() if sc is None else E.some((sc[0][1](), sc[1], sc[2])), "fast_start": 1}
            selfv = E.Adt("api::MuxerBuilder", 0, [vals.get(f, E.none()) for f in fields], fields)
            r = m.call_fn(bp[0], [selfv])
            n += 1
            if not (isinstance(r, E.Adt) and r.name == "Result"):
                raise E.Unsupported("result outside the model: %r" % (r,))
            want_track = sc is not None and sc[0][0] != "None"
            got = None
            why = None
            if r.variant != 0:
                why = "build fails"
            else:
                mux = r.fields[0]
                at = mux.get("audio_track") if isinstance(mux, E.Adt) else None
                if not (isinstance(at, E.Adt) and at.name == "Option"):
                    raise E.Unsupported("audio_track outside the model: %r" % (at,))
                if bool(at.variant) != want_track:
                    why = "the muxer has %s audio track" % ("an" if at.variant else "no")
                elif want_track:
                    cfg = at.fields[0]
                    got = (cfg.get("codec"), cfg.get("sample_rate"), cfg.get("channels")) if isinstance(cfg, E.Adt) else None
                    if got != (sc[0][1](), sc[1], sc[2]):
                        why = "the muxer's audio track is %r" % (got,)
                if why is None:
                    if len(calls) != (1 if want_track else 0):
                        why = "the writer's audio track is enabled %d time(s)" % len(calls)
                    elif want_track:
                        tr = calls[0][1]
                        got = (tr.get("codec"), tr.get("sample_rate"), tr.get("channels")) if isinstance(tr, E.Adt) else None
                        if got != (sc[0][1](), sc[1], sc[2]):
                            why = "the writer's audio track is enabled with %r" % (got,)
            if why and bad is None:
                bad = ("no audio configured" if sc is None else "audio(%s, %d, %d)" % (sc[0][0], sc[1], sc[2]), why)
    except E.Unsupported as ex:
        run.bad(rule, "builder audio table", "cannot tabulate MuxerBuilder::build (fail closed): %s" % ex)
        return
    run.check(bad is None, rule, "builder audio table", "audio track <=> configured codec != None, with the configured rate / channels; writer enabled exactly then (%d configurations)" % n,
              "" if bad is None else "with %s: %s" % bad, mir.loc_of(u.bodies[bp[0]]))
    run.floor(rule, n, 30 if none_only else 200, "builder configurations evaluated")

def check(prog, run):
    run.rule("R8", "ADTS acceptance table: for every value of every header field (others valid) and every short length, the validator's outcome (error kind / returned payload range) is the one the contract prescribes")
    adts_table_rule(prog, run)
    run.rule("R9", "VP9 siblings: the configuration extractor accepts exactly the frame-header bytes the keyframe classifier calls keyframes (all 256 values)")
    vp9_sibling_rule(prog, run)
    run.rule("R7", "sibling classifiers: encode_video's keyframe decision equals the codec module's public keyframe classifier as a function of the NAL header byte (all 256 values, H.264 and H.265)")
    keyframe_classifier_rule(prog, run)
    run.rule("R6", "Opus framing (RFC 6716 section 3.2): frame count and VBR flag per TOC code; code 3 reads M = byte1 & 0x3F, v = byte1 >> 7 (evaluated for all 256 values of the extracted expressions)")
    opus_rule(prog, run)
    run.rule("R1", "guard table: every documented precondition has an error exit of the documented variant under the documented predicate (canonical relation incl. strictness); no undocumented explicit rejection")
    run.rule("R2", "typestate: frame-writing and finish entry points reach a success exit only on the not-finished edge")
    run.rule("R3", "error map: the total internal->public conversion equals the documented table")
    run.rule("R4", "siblings: entry points feeding the same queue maintain the monotonicity state the other one judges against")
    run.rule("R5", "ADTS error kinds raised under guards reading the frame bytes; Opus validator on the Opus arm only")
    try:
        cx = common.Ctx(prog)
    except AnchorMissing as e:
        run.bad("R1", "anchor", "anchor missing: %s" % e)
        return
    u = cx.u
    nrows = 0
    state_reads = {}
    for ent in sorted(set(TABLE) | set(TRY_TABLE)):
        if ent not in u.bodies:
            run.bad("R1", "entry %s" % mir.norm(ent), "entry point not found")
            continue
        b = u.bodies[ent]
        ROLE_NAMES.clear()
        for i in range(1, b["argc"] + 1):
            ROLE_NAMES[i] = mir.debug_name(b, i)
        CUR_BODY[:] = [b]
        CUR_UNIT[:] = [u]
        found = {}
        for ex in flow.exits(b):
            if ex["kind"] != "err" or ex.get("variant") != "Err":
                continue
            v = variant_of(b, ex)
            sigs = err_sigs(b, ex["bb"])
            found.setdefault(v, []).append(sigs)
        # rejections delegated to a local helper through `?` (an explicit guard moved into its own function, a checked conversion)
        tries = flow.try_sites(b)
        wantt = TRY_TABLE.get(ent, [])
        helper_tries = set()
        for t in tries:
            if any(needle in sym.show(t["raw"]) for _, needle in wantt):
                continue
            hr = common.helper_rejections(u, t["src"]) or common.inline_conversion_rejection(u, t["src"], t["raw"])
            if not hr:
                continue
            at = t["src_call_bb"] if t["src_call_bb"] is not None else t["bb"]
            pre = [signature(d, tk) for (s_, d, tk) in guards.guards_of(b, at)]
            for (var, d, tk) in hr:
                found.setdefault(var, []).append(pre + [signature(d, tk)])
            helper_tries.add(t["bb"])
        want = TABLE.get(ent, {})
        for v, rows in want.items():
            for r in rows:
                nrows += 1
                hits = [s for s in found.get(v, []) if s and _match(r, s)]
                run.check(bool(hits), "R1", "%s %s <= %s" % (mir.norm(ent), v, r), "guarded by `%s`" % r,
                          "no `%s` rejection guarded by `%s` (found for this variant: %s)" % (v, r, [s[-1] if s else "-" for s in found.get(v, [])]), mir.loc_of(b))
                if "state:" in r and ("<" in r or ">" in r):
                    state_reads.setdefault(ent, set()).add(r.split("state:")[1].split()[0].rstrip(")"))
        for v, lst in found.items():
            for sigs in lst:
                ok = v in want and any(_match(r, sigs) for r in want[v])
                ok = ok or any(a_[0] == v and _match(a_[1], sigs) for a_ in TRY_ALT.get(ent, {}).values())
                if not ok:
                    run.bad("R1", "%s undocumented %s <= %s" % (mir.norm(ent), v, sigs[-1] if sigs else "unconditional"),
                            "explicit rejection `%s` under guard chain %s is not in the documented contract table" % (v, sigs[-3:]), mir.loc_of(b))
        for desc, needle in wantt:
            nrows += 1
            hits = [t for t in tries if needle in sym.show(t["raw"])]
            alt = TRY_ALT.get(ent, {}).get(needle)
            if not hits and alt and any(_match(alt[1], s_) for s_ in found.get(alt[0], []) if s_):
                hits = [True]        # the same rejection spelled as an explicit `match`/`if` with an early return
            run.check(bool(hits), "R1", "%s ?%s" % (mir.norm(ent), needle), "propagates the %s rejection" % desc, "the `?` propagating the %s rejection (%s) is gone" % (desc, needle), mir.loc_of(b))
        for t in tries:
            if not any(needle in sym.show(t["raw"]) for _, needle in wantt) and t["bb"] not in helper_tries:
                run.bad("R1", "%s undocumented ?%s" % (mir.norm(ent), sym.show(t["src"])[:40]), "a `?` propagates a rejection that is not in the documented contract table", t["loc"])
    CUR_BODY[:] = []
    run.floor("R1", nrows, 45, "documented guard rows")
    # ---- R2
    an = cx.an
    fin, wr = c06.api_entries(cx)
    flags = [an.flag_field] + c06.api_flags(cx) if an.flag_field else []
    for p in wr + fin:
        ok, why = cx.ok_requires_flag_false(p, flags)
        run.check(ok, "R2", "typestate %s" % mir.norm(p), "success only on the not-finished edge", why, mir.loc_of(u.bodies[p]))
    # ---- R3
    r3(cx, run)
    # ---- R4
    groups = [[M + "write_video", M + "write_video_with_dts"]]
    for g in groups:
        for a in g:
            for o in g:
                if a == o:
                    continue
                for f in sorted(state_reads.get(a, ())):
                    stores = {p[0] for (r, p) in cx.st.sum.get(o, ()) if r == ("arg", 1) and p}
                    run.check(f in stores, "R4", "%s maintains %s" % (mir.norm(o), f), "stored on success",
                              "%s rejects against `%s`, but its sibling %s (same queue) never updates it: mixing the two entry points mis-judges or mis-names the violation" % (mir.norm(a), f, mir.norm(o)),
                              mir.loc_of(u.bodies[o]))
    # state another entry point judges against: a field that any frame-writing entry reads in a rejection guard and that one video entry
    # point maintains must be maintained by its sibling as well (write_audio judges `first_video_pts`, written by both video entries)
    all_reads = set()
    for fs_ in state_reads.values():
        all_reads |= set(fs_)
    for ent_, want_ in TABLE.items():
        for rows_ in want_.values():
            for r_ in rows_:
                for tok in r_.replace("(", " ").replace(")", " ").replace(",", " ").split():
                    if tok.startswith("state:"):
                        all_reads.add(tok[len("state:"):])
    # ... or that another method of the muxer branches on / returns (the keyframe heuristic of the convenience path reads the frame count)
    members = {x_ for g_ in groups for x_ in g_}
    for p_, b_ in cx.live.items():
        if p_ in members or b_.get("kind") == "Closure" or not b_.get("impl_self", "").startswith("api::Muxer") or b_["argc"] < 1:
            continue
        exprs_ = [sym.expr(b_, blk_["term"]["discr"]) for blk_ in b_["blocks"] if blk_["term"]["k"] == "switch" and not blk_.get("cleanup")]
        if b_["locals"][0]["ty"] in ("bool", "u8", "u16", "u32", "u64", "usize"):
            exprs_.append(sym.expr_local(b_, 0))
        for e_ in exprs_:
            for y_ in sym.walk(e_):
                if isinstance(y_, tuple) and len(y_) > 1 and y_[0] == "load" and str(y_[1]).startswith("arg1.") and str(y_[1]).count(".") >= 1:
                    all_reads.add(str(y_[1]).split(".")[1])
    for g_ in groups:
        stored = {o_: {p_[0] for (r_, p_) in cx.st.sum.get(o_, ()) if r_ == ("arg", 1) and p_} for o_ in g_}
        anyone = set().union(*stored.values()) if stored else set()
        for f_ in sorted(anyone & all_reads):
            for o_ in g_:
                run.check(f_ in stored[o_], "R4", "%s maintains %s (judged elsewhere)" % (mir.norm(o_), f_), "stored on success",
                          "`%s` is read by a rejection guard of a frame-writing entry point or decides a branch / result of another method of the muxer, and is maintained by %s, but %s (same queue) never stores it: after frames written through %s the other calls are judged against stale state" %
                          (f_, ", ".join(mir.norm(x_).split("::")[-1] for x_ in g_ if f_ in stored[x_]), mir.norm(o_), mir.norm(o_).split("::")[-1]), mir.loc_of(u.bodies[o_]))
    # ... and in the same way: a field both video entries maintain from the same parameter is stored under the same guards with
    # the same value expression (`first_video_pts`: once, `Some(pts)`, in both)
    for g_ in groups:
        desc = {}
        for o_ in g_:
            ob_ = u.bodies[o_]
            ROLE_NAMES.clear()
            for i_ in range(1, ob_["argc"] + 1):
                ROLE_NAMES[i_] = mir.debug_name(ob_, i_)
            CUR_BODY[:] = [ob_]
            for (sbb_, si_, (root_, path_), why_, node_) in cx.st.sites.get(o_, []):
                if root_ == ("arg", 1) and len(path_) == 1 and why_.startswith("assign") and "rv" in node_ and path_[0] in all_reads:
                    ve_ = sym.expr_rv(ob_, node_["rv"])
                    params_ = frozenset(x_[2] for x_ in sym.sources(ve_) if x_[0] == "arg")
                    sg_ = tuple(signature(d_, t_) for (s__, d_, t_) in guards.guards_of(ob_, sbb_) if "state:" + path_[0] in signature(d_, t_))
                    if ve_[0] == "call" and ve_[1].split("::")[-1] == "or" and "Option" in ve_[1] and len(ve_[2]) == 2 and ve_[2][0][0] == "load" and ve_[2][0][1] == "arg1." + path_[0]:
                        # `f = f.or(v)` is `if f.is_none() { f = v }`
                        ve_, sg_ = ve_[2][1], sg_ + ("is_none(state:%s)" % path_[0],)
                    desc.setdefault(path_[0], {}).setdefault(o_, set()).add((sg_, sym.show(ve_)[:200], params_))
            CUR_BODY[:] = []
        for f_, per in sorted(desc.items()):
            if len(per) != len(g_):
                continue
            ps_ = [frozenset().union(*[d_[2] for d_ in ds_]) for ds_ in per.values()]
            if len(set(ps_)) != 1:
                continue            # maintained from different parameters (pts in one entry, dts in the other): not comparable by text
            vals_ = [frozenset((d_[0], d_[1]) for d_ in ds_) for ds_ in per.values()]
            run.check(len(set(vals_)) == 1, "R4", "siblings store %s alike" % f_, "same guard and value in %s" % ", ".join(mir.norm(x_).split("::")[-1] for x_ in g_),
                      "the video entry points maintain `%s` differently (%s): calls judged against it get a different answer depending on which entry point wrote the frames" % (
                          f_, "; ".join("%s: %s" % (mir.norm(o_).split("::")[-1], sorted(("%s => %s" % (" && ".join(d_[0]) or "always", d_[1])) for d_ in ds_)) for o_, ds_ in sorted(per.items()))), mir.loc_of(u.bodies[g_[-1]]))
    r5(cx, run)
    run.rule("R11", "a first keyframe carrying its parameter sets is accepted wherever they stand in the frame: the extractors find them for every header byte of any other unit before or after them (C07.R13 instances)")
    from . import c07
    c07.parameter_set_table_rule(prog, run, "R11")
    c07.av1_seq_position_rule(prog, run, "R11")
    c07.leb128_rule(prog, run, "R11")
    run.rule("R12", "the builder keeps every configured audio stream (codec other than None) with its rate and channel count, enables the writer's audio track exactly then, and never otherwise (tabulated over codecs x rates x channel counts)")
    builder_audio_table(prog, run, "R12")
    run.rule("R10", "finish refuses only when already finished, when the sink fails or when a size does not fit 32 bits: every error exit / `?` of the finalisation tree is of one of these kinds")
    finish_refusals_rule(prog, run, cx)


def _match(row, sigs):
    """the *nearest* dominating guard must be the documented predicate (an extra conjunct or disjunct changes it)"""
    return bool(sigs) and sigs[-1] == row


def r3(cx, run):
    u = cx.u
    # the conversion is found by its signature (internal error in, public error out), not by its name
    cands = [p_ for p_, h in u.hir.items() if h.get("ret", "").endswith("MuxerError") and any(pp.get("ty", "").endswith("Mp4WriterError") for pp in h.get("params", []))]
    if len(cands) != 1:
        run.bad("R3", "anchor", "internal->public error conversion not found (functions taking Mp4WriterError and returning MuxerError: %d)" % len(cands))
        return
    f = cands[0]
    it = L.Interp(u)
    try:
        v = it.call_value(f, [("param", p["pat"].get("name", "_")) for p in u.hir[f]["params"]])
    except L.Unanalysable as e:
        run.bad("R3", "unanalysable", str(e))
        return
    if v[0] != "matchv":
        run.bad("R3", "shape", "conversion is not a single match: %s" % L.show(v)[:120])
        return
    got = {}
    for p, val in v[2]:
        src = p.split("::")[-1]
        if val[0] == "struct":
            dst = str(val[1]).split("::")[-1]
        elif val[0] == "ctor":
            dst = val[1].split("::")[-1]
        else:
            dst = L.show(val)[:40]
        got[src] = dst
    for src, dst in ERROR_MAP.items():
        run.check(got.get(src) == dst, "R3", "map %s" % src, "-> %s" % dst, "internal error %s is converted to %s, documented: %s" % (src, got.get(src), dst))
    for src in got:
        run.check(src in ERROR_MAP, "R3", "map-known %s" % src, "documented", "internal error variant %s is not in the documented conversion table" % src, how="count")


def r5(cx, run):
    u = cx.u
    cands = [p for p, b in cx.live.items() if b["locals"][0]["ty"].startswith("std::result::Result<&[u8], muxer::mp4::AdtsValidationError>")]
    if len(cands) != 1:
        run.bad("R5", "anchor adts", "ADTS validator not found (%d candidates)" % len(cands))
        return
    b = u.bodies[cands[0]]
    kinds = {}
    for ex in flow.exits(b):
        if ex["kind"] != "err":
            continue
        e = sym.expr_rv(b, ex["node"]["rv"])
        kind = None
        for t in sym.walk(e):
            if isinstance(t, tuple) and t and t[0] == "agg" and "AdtsErrorKind::" in str(t[1]):
                kind = str(t[1]).split("::")[-1]
        gs = guards.guards_of(b, ex["bb"])
        last = gs[-1] if gs else None
        dep = False
        if last:
            srcs = sym.sources(last[1])
            dep = any(s[0] == "load" and s[1].startswith("arg1") for s in srcs) or any(s[0] == "arg" and s[1] == 1 for s in srcs) or \
                any(s[0] == "var" for s in srcs)
        kinds.setdefault(kind, []).append(dep)
    for k in ("FrameTooShort", "MissingSyncword", "InvalidMpegVersion", "InvalidLayer", "InvalidHeaderLength", "InvalidSampleRateIndex", "InvalidChannelConfig", "InvalidFrameLength"):
        run.check(k in kinds and all(kinds[k]), "R5", "adts %s" % k, "%d exit(s), each under a guard on the frame" % len(kinds.get(k, [])),
                  "ADTS error kind %s is %s" % (k, "never raised" if k not in kinds else "raised unconditionally / not under a guard that reads the frame"))
    # Opus validator on the Opus arm only
    wb = u.bodies.get(W + "write_audio_sample")
    ok = False
    if wb:
        for bb, t, name, info in mir.calls(wb):
            if name and name.endswith("is_valid_opus_packet"):
                sigs = [signature(d, tk) for (s, d, tk) in guards.guards_of(wb, bb)]
                ok = any(s.startswith("variant(") and s.endswith("=1") for s in sigs)
    run.check(ok, "R5", "opus-arm", "is_valid_opus_packet is called on the Opus arm of the codec match", "the Opus validator is not (only) applied on the Opus codec arm")
