"""C05 — rejected calls leave no trace.

R1 error-path purity (A4): in every fallible function that receives (part of) the muxer state by `&mut` on the
frame-writing paths, no store to that state lies on any CFG path that ends in an error exit.  This clause is
*sufficient* for the property: a call that returns Err has executed no store to muxer state, so every later
decision, the statistics and the file are those of the history without the call.  (The thread-local invariant
log is not muxer state: C17.R2 proves muxing never reads it.)"""
from .. import flow, mir, purity
from ..anchors import AnchorMissing
from . import common

EXPLANATION = (
    "error-path purity on MIR, interprocedural: starting from the public frame-writing entry points (Muxer::write_video, write_video_with_dts, write_audio, "
    "encode_video, encode_audio, FragmentedMuxer::write_video) every fallible callee that receives part of the receiver by &mut is analysed; a store site (direct field store, "
    "mutating std call such as Vec::push, infallible local call with a non-empty store summary, or the Continue edge of a fallible local call) must not reach an error exit "
    "(Err aggregate or `?` residual). All paths, all rejection reasons, all states. Infeasible-path reports are triaged by hand (none suppressed).")
TRUSTED = ["store inventory (pointer-origin analysis in lib/mx/mir.py)", "externals classification"]

ENTRIES = ["api::Muxer::<Writer>::write_video", "api::Muxer::<Writer>::write_video_with_dts", "api::Muxer::<Writer>::write_audio",
           "api::Muxer::<Writer>::encode_video", "api::Muxer::<Writer>::encode_audio", "fragmented::FragmentedMuxer::write_video"]


def state_functions(cx, entries):
    """entry points plus every local callee that is handed (a part of) the receiver by mutable reference"""
    u = cx.u
    todo = [e for e in entries if e in u.bodies]
    seen = set()
    while todo:
        f = todo.pop()
        if f in seen:
            continue
        seen.add(f)
        b = u.bodies[f]
        for bb, t, name, info in mir.calls(b):
            if name not in u.bodies or not t["args"]:
                continue
            for a in t["args"]:
                if a["k"] in ("copy", "move") and a["place"]["ty"].startswith("&mut "):
                    if any(r == ("arg", 1) for (r, p) in mir.place_value_origins(b, a["place"])):
                        todo.append(name)
    return seen


def fallible(b):
    t = b["locals"][0]["ty"]
    return t.startswith("std::result::Result<") or t.startswith("std::option::Option<")


def check(prog, run):
    run.rule("R1", "error-path purity: no store to receiver state reaches an error exit, in every fallible state-receiving function on the frame-writing paths")
    purity_rule(prog, run, "R1")


def purity_rule(prog, run, R, only=None):
    try:
        cx = common.Ctx(prog)
    except AnchorMissing as e:
        run.bad(R, "anchor", "anchor missing: %s" % e)
        return
    u = cx.u
    missing = [e for e in ENTRIES if e not in u.bodies]
    for m in missing:
        run.bad(R, "entry %s" % mir.norm(m), "public frame-writing entry point not found")
    fs = sorted(f for f in state_functions(cx, ENTRIES) if fallible(u.bodies[f]))
    run.floor(R, len(fs), 9, "fallible state-receiving functions")
    total_sites = total_exits = 0
    for f in fs:
        v, ns, ne = purity.check_function(cx, f)
        total_sites += ns
        total_exits += ne
        if not v:
            run.ok(R, "pure %s" % mir.norm(f), "%d store site(s) x %d error exit(s): no store reaches an error exit" % (ns, ne), mir.loc_of(u.bodies[f]))
        for x in v:
            if only is not None and not only(x["store"]):
                continue
            run.bad(R, "impure %s store=%s exit=%s" % (mir.norm(f), x["store"], x["exit"]),
                    "state `%s` is written (%s, %s) on a path that then fails with %s at %s: the rejected call leaves a trace"
                    % (x["store"], x["why"], x["loc_store"], x["exit"], x["loc_exit"]), x["loc_store"],
                    path={"function": mir.norm(f), "store_at": x["loc_store"], "error_exit_at": x["loc_exit"]})
    run.extra["store_sites"] = total_sites
    run.extra["error_exits"] = total_exits
    run.floor(R, total_exits, 40, "error exits examined")
