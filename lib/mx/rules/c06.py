"""C06 — finalisation happens exactly once and accounts for every byte and frame.

Structural clauses decided (see DESIGN §4 C06): R1 who-may-write, R2/R3 sink-guard (every sink write is
dominated by `finalized = true`, itself dominated by the `finalized` test; frame-writing entry points can
only succeed on the flag-false edge; the flag is never cleared), R4 byte counter updated only next to the
sink write with the length of the very buffer written, R5 provenance of the statistics.
Not decided: the +-1 tick numeric tolerance of duration_secs."""
from .. import flow, mir, sym
from ..anchors import AnchorMissing, is_type_param, strip_ref
from . import common

EXPLANATION = (
    "static analysis (who-may-call, dominance, store inventory, data-dependence slices over MIR): "
    "R1 the only function touching the generic sink is the counted helper and it only calls Write::write_all; "
    "R2/R3 every call path from any externally callable function to the helper passes the store finalized=true, "
    "which is dominated by the finalized test; every frame-writing API entry can reach a success exit only on the "
    "flag-false edge; the flag is never reset; R4 the byte counter is stored only in the helper, as counter (+) len(buf) "
    "of the buffer handed to write_all; R5 MuxerStats fields are sourced from the video queue length, the audio queue "
    "length, the byte counter, and a pure function of both queues, and are built only on the Ok edge of finalize. "
    "Declined: numeric tolerance of the duration statistic; R6 (last-sample end time is the max only for monotone pts) is a finding, see C06/R6.")
TRUSTED = ["std::io::Write::write_all contract", "mxlint fact extraction", "externals classification (lib/mx/externals.py)"]

FLOORS = {"sink_calls": 1, "helper_callsites": 10, "stats_sites": 1}


def check(prog, run):
    run.rule("R1", "only one function invokes std::io::Write on the sink; the method is write_all; no other external callee receives the sink")
    run.rule("R2", "sink-guard: every call path from an externally callable function to the sink helper passes `flag = true`, dominated by the flag test whose true edge leaves without writing")
    run.rule("R3", "typestate: the flag is only ever stored `true` through a reference; every frame-writing API entry reaches a success exit only on the flag-false edge")
    run.rule("R4", "byte counter: stored only inside the helper, value = counter (+) len(buf) of the buffer passed to write_all; all helper call sites pass (sink field, counter field) of the same object")
    run.rule("R6", "duration statistic: the end time of a track whose presentation times are not monotone in queue order is the maximum over every queued sample")
    run.rule("R5", "statistics provenance: video_frames<-len(video queue), audio_frames<-len(audio queue), bytes_written<-counter, duration<-pure function of both queues; built only on the Ok edge of finalize")
    run.rule("R7", "the statistics count accepted frames only: a refused write leaves no trace in the queues, durations and last-delta fields they are computed from (C05.R1 instances)")
    try:
        cx = common.Ctx(prog)
    except AnchorMissing as e:
        run.bad("R1", "anchor", "anchor missing: %s" % e)
        return
    an, u = cx.an, cx.u
    r1(cx, run)
    if an.F is None:
        return
    r2(cx, run)
    r3(cx, run)
    r4(cx, run)
    r5(cx, run)


# ------------------------------------------------------------------------------------------
def r1(cx, run):
    an, u = cx.an, cx.u
    for (p, bb, method, t) in an.sink_calls:
        run.check(method == "write_all", "R1", "sink-call %s::%s" % (mir.norm(p), method),
                  "sink reached through Write::write_all", "sink reached through Write::%s (partial writes/retry semantics not covered by write_all's contract)" % method,
                  mir.loc_of(t))
    run.check(len(an.sink_fns) == 1, "R1", "single-writer",
              "exactly one function touches the sink: %s" % mir.norm(an.sink_fns[0]),
              "several functions touch the sink: %s" % ", ".join(mir.norm(f) for f in an.sink_fns))
    run.floor("R1", len(an.sink_calls), FLOORS["sink_calls"], "sink calls")
    # no other external callee may receive the sink (by value or by reference)
    n = 0
    for p, b in cx.live.items():
        for bb, t, name, info in mir.calls(b):
            if name in u.bodies:
                continue
            for a in t["args"]:
                if a["k"] in ("copy", "move") and is_type_param(strip_ref(a["place"]["ty"])):
                    tp = strip_ref(a["place"]["ty"])
                    # only the sink's own parameter matters: the function must be generic over it
                    if not any(tp == ty for (_adt, _f, ty) in an.param_holders):
                        continue
                    n += 1
                    is_w = info and info.get("trait") == "std::io::Write"
                    run.check(bool(is_w), "R1", "sink-escape %s -> %s" % (mir.norm(p), mir.norm(name) if name else "?"),
                              "sink passed only to std::io::Write", "the sink is handed to an external function other than std::io::Write::*", mir.loc_of(t))
    run.extra["sink_external_uses"] = n


# ------------------------------------------------------------------------------------------
def r2(cx, run):
    an, u, g = cx.an, cx.u, cx.g
    F = an.F
    if an.flag_field is None or an.G is None:
        run.bad("R2", "anchor:flag", "cannot identify a unique bool field of %s that is stored `true` in exactly one function "
                "(setters: %s)" % (an.sink_adt, {k: sorted({s[0] for s in v}) for k, v in an.flag_setters.items()}))
        return
    G = an.G
    gb = u.bodies[G]
    dom = mir.dominators(gb)
    # (a) the store flag=true in G
    stores = [s for s in an.flag_setters[an.flag_field] if s[0] == G and s[3] == 1]
    store_bbs = {s[1] for s in stores}
    tests = cx.flag_test(gb, an.flag_field)
    ok_test = False
    for (tbb, f, tr) in tests:
        # store dominated by the false edge; true edge must reach return without the store and without calls into the writer tree
        if all(f in dom[sb] for sb in store_bbs) and cx._edge_exclusive(gb, tbb, f, tr):
            tr_reach = mir.reachable(gb, [tr])
            if not (tr_reach & store_bbs):
                ok_test = True
    run.check(ok_test, "R2", "flag-test-dominates-store %s" % mir.norm(G),
              "`%s = true` is dominated by the false edge of the `%s` test" % (an.flag_field, an.flag_field),
              "the store `%s = true` in %s is not dominated by a test of the flag" % (an.flag_field, mir.norm(G)),
              mir.loc_of(stores[0][4]) if stores else None)
    # (b) functions that (transitively) reach F
    S = {p for p in g.edges if F in g.reach([p])} - {F}
    run.extra["writer_tree"] = sorted(mir.norm(x) for x in S)
    guarded = {}

    def call_sites(c, h):
        return [(bb, t) for bb, t, name, info in mir.calls(u.bodies[c]) if name == h] + \
               [(bb, None) for bb in _closure_sites(u.bodies[c], h)]

    def is_guarded(h, stack=()):
        if h in guarded:
            return guarded[h]
        if h in stack:
            return (True, "cycle")
        b = u.bodies[h]
        if b["reachable_pub"]:
            guarded[h] = (False, "%s is externally callable" % mir.norm(h))
            return guarded[h]
        cs = g.callers(h)
        if not cs:
            guarded[h] = (True, "no callers")
            return guarded[h]
        for c in sorted(cs):
            if c == G:
                for (bb, t) in call_sites(c, h):
                    if not any(sb in dom[bb] for sb in store_bbs) and not _store_before_in_block(gb, bb, stores):
                        guarded[h] = (False, "call to %s in %s (bb%d) is not dominated by `%s = true`" % (mir.norm(h), mir.norm(G), bb, an.flag_field))
                        return guarded[h]
                continue
            ok, why = is_guarded(c, stack + (h,))
            if not ok:
                guarded[h] = (False, "via caller %s: %s" % (mir.norm(c), why))
                return guarded[h]
        guarded[h] = (True, "all callers guarded")
        return guarded[h]

    ok, why = is_guarded(F)
    run.check(ok, "R2", "sink-guard %s" % mir.norm(F), "every path to the sink helper passes `%s = true` in %s" % (an.flag_field, mir.norm(G)),
              "a sink write is reachable without passing the finalisation guard: " + why)
    for h in sorted(S):
        if h == G or G not in g.reach([h]) or True:
            pass
    # every function in the writer tree below G is only reachable through G
    below = {h for h in S if G not in g.reach([h])}
    for h in sorted(below):
        ok, why = is_guarded(h)
        run.check(ok, "R2", "below-guard %s" % mir.norm(h), "reachable only through the guard", why, mir.loc_of(u.bodies[h]))
    n_sites = sum(1 for p in S for bb, t, name, info in mir.calls(u.bodies[p]) if name == F)
    run.floor("R2", n_sites, FLOORS["helper_callsites"], "call sites of the sink helper")


def _closure_sites(body, h):
    out = []
    for blk in body["blocks"]:
        for st in blk["stmts"]:
            if st["k"] == "assign" and st["rv"]["k"] == "aggregate" and st["rv"].get("closure") == h:
                out.append(blk["i"])
    return out


def _store_before_in_block(body, bb, stores):
    return False


# ------------------------------------------------------------------------------------------
API_WRITE_ENTRIES = ["api::Muxer::<Writer>::write_video", "api::Muxer::<Writer>::write_video_with_dts",
                     "api::Muxer::<Writer>::write_audio", "api::Muxer::<Writer>::encode_video",
                     "api::Muxer::<Writer>::encode_audio"]


def api_entries(cx):
    """public `&mut self` Result-returning methods of the API muxer type, split into the finish family
    (reach the sink helper) and the frame-writing family (do not)."""
    an, u, g = cx.an, cx.u, cx.g
    fin, wr = [], []
    for p, b in cx.live.items():
        if not b["reachable_pub"] or b["kind"] != "AssocFn":
            continue
        if not b.get("impl_self", "").startswith("api::Muxer<"):
            continue
        if b.get("impl_trait"):
            continue
        if not b["locals"][0]["ty"].startswith("std::result::Result<"):
            continue
        if an.F in g.reach([p]):
            fin.append(p)
        else:
            wr.append(p)
    return sorted(fin), sorted(wr)


def r3(cx, run):
    an, u = cx.an, cx.u
    if an.flag_field is None:
        return
    for f, ss in an.flag_setters.items():
        if f != an.flag_field:
            continue
        for (p, bb, i, val, node) in ss:
            run.check(val == 1, "R3", "flag-store %s" % mir.norm(p), "stores `true`",
                      "the finalisation flag is stored a value other than `true` (cleared?) through a reference", mir.loc_of(node))
    fin, wr = api_entries(cx)
    run.extra["finish_family"] = [mir.norm(x) for x in fin]
    run.extra["write_family"] = [mir.norm(x) for x in wr]
    flags = [an.flag_field] + api_flags(cx)
    for p in wr:
        ok, why = cx.ok_requires_flag_false(p, flags)
        run.check(ok, "R3", "ok-needs-unfinished %s" % mir.norm(p),
                  "success exit only on the flag-false edge (flags: %s)" % ", ".join(flags), why, mir.loc_of(u.bodies[p]))
    for p in fin:
        ok, why = cx.ok_requires_flag_false(p, flags)
        run.check(ok, "R3", "finish-once %s" % mir.norm(p),
                  "success exit only on the flag-false edge", why, mir.loc_of(u.bodies[p]))
    run.floor("R3", len(wr), 5, "frame-writing API entry points")
    run.floor("R3", len(fin), 5, "finish-family API entry points")


def api_flags(cx):
    """bool fields of the API muxer type that are stored `true` through a reference"""
    out = set()
    for p, b in cx.live.items():
        for (bb, i, (root, path), why, node) in cx.st.sites[p]:
            if why.startswith("assign") and node["k"] == "assign" and node["rv"]["k"] == "use" and \
                    node["rv"]["op"].get("k") == "const" and node["rv"]["op"].get("ty") == "bool" and node["rv"]["op"].get("v") == 1:
                last = [e for e in node["place"]["p"] if e["k"] == "field"]
                if last and last[-1].get("adt") == "api::Muxer":
                    out.add(last[-1]["name"])
    return sorted(out)


# ------------------------------------------------------------------------------------------
def r4(cx, run):
    an, u = cx.an, cx.u
    F = an.F
    fb = u.bodies[F]
    if an.counter_field is None or an.sink_field is None:
        run.bad("R4", "anchor:counter", "helper call sites do not agree on one (sink, counter) field pair: sinks=%s counters=%s"
                % (sorted(getattr(an, "sink_paths", [])), sorted(getattr(an, "ctr_paths", []))))
        return
    ordn = {}
    for (p, bb, t, tg) in sorted(an.F_callsites, key=lambda x: (x[0], x[1])):
        ordn[p] = ordn.get(p, 0) + 1
        s, c = tg[0], tg[1]
        same_obj = len(s) == 1 and len(c) == 1 and s[0].rsplit(".", 1)[0] == c[0].rsplit(".", 1)[0]
        run.check(same_obj and s[0].endswith("." + an.sink_field) and c[0].endswith("." + an.counter_field),
                  "R4", "helper-args %s #%d" % (mir.norm(p), ordn[p]), "(%s, %s)" % (s[0] if s else "?", c[0] if c else "?"),
                  "helper called with sink=%s counter=%s (not the sink/counter pair of one object)" % (s, c), mir.loc_of(t))
    # inside F: the write_all buffer and the counter update
    wa = [(bb, t) for (p, bb, m, t) in an.sink_calls if p == F]
    bufs = set()
    for bb, t in wa:
        if len(t["args"]) >= 2:
            e = sym.expr(fb, t["args"][1])
            bufs |= {s[1] for s in sym.sources(e) if s[0] == "load"} | {"arg%d" % s[1] for s in sym.sources(e) if s[0] == "arg"}
    ctr_sites = [s for s in cx.st.sites[F] if s[3].startswith("assign") and s[2][0][0] == "arg"]
    run.check(len(ctr_sites) == 1, "R4", "helper-counter-store", "one store through an argument reference in the helper",
              "expected exactly one counter store in the helper, found %d" % len(ctr_sites))
    for (bb, i, (root, path), why, node) in ctr_sites:
        e = sym.expr_rv(fb, node["rv"])
        srcs = sym.sources(e)
        ops_ = sym.ops(e)
        ctr_arg = root[1]
        allsrc = {s[1] for s in srcs if s[0] == "load"} | {"arg%d" % s[1] for s in srcs if s[0] == "arg"}
        want_loads = {"arg%d" % ctr_arg}
        load_srcs = allsrc & want_loads
        arg_srcs = allsrc - want_loads
        has_len = any(o in ("call:core::slice::len", "un:PtrMetadata", "PtrMetadata") for o in ops_)
        has_add = any(o in ("call:core::num::saturating_add", "call:core::num::checked_add", "Add", "AddWithOverflow") for o in ops_)
        noncast = [o for o in ops_ if not o.startswith("cast:IntToInt")]
        exact = len(noncast) == 2 and not any(s[0] == "const" for s in srcs)
        good = load_srcs == want_loads and arg_srcs == bufs and len(bufs) == 1 and has_len and has_add and exact
        run.check(good, "R4", "helper-counter-value", "counter := %s" % sym.show(e),
                  "counter update is not `counter (+) len(buf)` of the buffer written: %s (write_all buffer sources: %s)" % (sym.show(e), sorted(bufs)),
                  mir.loc_of(node))
    # no other store to the counter field anywhere
    n = 0
    for p, b in cx.live.items():
        if p == F:
            continue
        for (bb, i, (root, path), why, node) in cx.st.sites[p]:
            if path and path[-1] == an.counter_field and not why.startswith("call"):
                last = [e for e in node.get("place", {}).get("p", []) if e["k"] == "field"] if node.get("k") == "assign" else []
                if node.get("k") == "assign" and last and last[-1].get("adt") != an.sink_adt:
                    continue
                n += 1
                run.bad("R4", "counter-store %s" % mir.norm(p), "the byte counter is written outside the sink helper (%s)" % why, mir.loc_of(node))
    run.check(n == 0, "R4", "counter-single-writer", "no store to `%s` outside %s" % (an.counter_field, mir.norm(F)), "see counter-store findings")


# ------------------------------------------------------------------------------------------
def queues(cx):
    """Vec fields of the sink ADT that receive Vec::push, keyed by which API write entry reaches the push"""
    an, u, g = cx.an, cx.u, cx.g
    rv = g.reach(["api::Muxer::<Writer>::write_video"]) | g.reach(["api::Muxer::<Writer>::write_video_with_dts"])
    ra = g.reach(["api::Muxer::<Writer>::write_audio"])
    vq, aq = set(), set()
    for p, b in cx.live.items():
        if not b.get("impl_self", "").startswith(an.sink_adt):
            continue
        for (bb, i, (root, path), why, node) in cx.st.sites[p]:
            if why == "extcall std::vec::Vec::push" and root == ("arg", 1) and len(path) == 1:
                if p in rv and p not in ra:
                    vq.add(path[0])
                if p in ra and p not in rv:
                    aq.add(path[0])
    return vq, aq


APPEND_ONLY = {"std::vec::Vec::push", "std::vec::Vec::extend_from_slice", "std::vec::Vec::reserve", "std::vec::Vec::shrink_to_fit",
               "<std::vec::Vec<T, A> as std::iter::Extend<T>>::extend"}


def queue_append_only(cx, run, rule, qs):
    """the statistics (and the sample tables) are computed from the queues *after* the file has been written: they equal the accepted
    frames only if nothing ever removes or replaces queue entries.  Store inventory: every direct mutation of a queue field itself
    (not of an element's field) anywhere in the live library is an append."""
    n = 0
    for p in sorted(cx.live):
        for (bb, i, (root, path), why, node) in cx.st.sites[p]:
            if len(path) != 1 or path[0] not in qs or why.startswith("call "):
                continue
            n += 1
            what = why[len("extcall "):] if why.startswith("extcall ") else why
            run.check(what in APPEND_ONLY, rule, "queue append-only %s.%s <- %s" % (mir.norm(p).split("::")[-1], path[0], what.split("::")[-1]), "append",
                      "%s mutates the sample queue `%s` through `%s`: entries of accepted frames are removed or replaced, so frame counts / duration read from the queue afterwards (statistics after finish, tables at finalize) no longer equal what was accepted"
                      % (mir.norm(p), path[0], what), mir.loc_of(node))
    run.floor(rule, n, 2, "direct queue mutations")


def accepted_is_queued(cx, run, rule, qs, entries=None, floor=6):
    """Every accepted frame is accounted: on every path through a frame-writing entry that ends in a success exit, exactly the thing
    that makes the frame exist later happened - a push onto the track's sample queue, directly or through a callee of which the same
    holds (must-pass-through on the CFG, fixpoint over the local call graph).  `Ok` without queuing is a frame the caller was told was
    accepted and that neither the file nor the statistics contain."""
    an, u, g = cx.an, cx.u, cx.g
    vq, aq = qs
    entry_set = set(entries) if entries is not None else None
    push_blocks = {}
    for p in cx.live:
        for (bb, i, (root, path), why, node) in cx.st.sites[p]:
            if why == "extcall std::vec::Vec::push" and len(path) == 1 and path[0] in (vq, aq) and (entry_set is None or p in entry_set or cx.live[p].get("impl_self", "") == cx.live[next(iter(entry_set))].get("impl_self", "")):
                push_blocks.setdefault(p, set()).add(bb)
    cands = {p for p in cx.live if (g.reach([p]) & set(push_blocks)) and cx.live[p]["locals"][0]["ty"].startswith("std::result::Result<")}
    queuer = set(cands)

    def violations(p):
        b = u.bodies[p]
        qb = set(push_blocks.get(p, ()))
        for bb, t, name, info in mir.calls(b):
            if name in queuer and name != p:
                qb.add(bb)
        out = []
        free = mir.reachable(b, [0], avoid=qb)
        for e in flow.exits(b):
            if e["kind"] in ("err", "residual"):
                continue
            if e["kind"] == "deleg" and e.get("callee") in queuer:
                continue
            if e["bb"] in free:
                out.append(e)
        return out
    changed = True
    while changed:
        changed = False
        for p in sorted(queuer):
            if violations(p):
                queuer.discard(p)
                changed = True
    if entries is None:
        entries = [p for p in API_WRITE_ENTRIES if p in cx.live] + sorted(p for p in push_blocks)
    n = 0
    for p in entries:
        n += 1
        v = [] if p in queuer else violations(p)
        run.check(p in queuer, rule, "accepted => queued %s" % mir.norm(p), "every success exit lies behind a push onto the sample queue (directly or through a callee that guarantees it)",
                  "%s can return success without the frame having been pushed onto a sample queue (success exit in bb %s reachable around every queuing call): the caller is told the frame was accepted, but the file and the statistics will not contain it"
                  % (mir.norm(p), ", ".join(str(e["bb"]) for e in v[:3])), mir.loc_of(v[0]["node"]) if v else mir.loc_of(u.bodies[p]))
    run.floor(rule, n, floor, "frame-writing entries checked for accepted => queued")


def r5(cx, run):
    an, u, g = cx.an, cx.u, cx.g
    vq, aq = queues(cx)
    if len(vq) != 1 or len(aq) != 1:
        run.bad("R5", "anchor:queues", "cannot identify the per-track sample queues (video=%s audio=%s)" % (sorted(vq), sorted(aq)))
        return
    vq, aq = next(iter(vq)), next(iter(aq))
    run.extra["queues"] = {"video": vq, "audio": aq}
    queue_append_only(cx, run, "R5", (vq, aq))
    run.rule("R8", "accepted => queued: every success exit of a frame-writing entry (API and writer level) is reachable only through a push onto the track's sample queue")
    accepted_is_queued(cx, run, "R8", (vq, aq))
    # R7: only stores into what the statistics are computed from matter here (the queues and the last-delta fields paired with them)
    from . import c05
    stat_state = {vq, aq} | set(last_delta_pairing(cx, (vq, aq)).values())
    c05.purity_rule(cx.prog, run, "R7", only=lambda store: str(store).split(".")[0] in stat_state)
    sites = []
    for p, b in cx.live.items():
        for blk in b["blocks"]:
            for st in blk["stmts"]:
                if st["k"] == "assign" and st["rv"]["k"] == "aggregate" and st["rv"].get("adt") == "api::MuxerStats":
                    sites.append((p, blk["i"], st))
    run.floor("R5", len(sites), FLOORS["stats_sites"], "MuxerStats construction sites")
    for (p, bb, st) in sites:
        b = u.bodies[p]
        rv = st["rv"]
        fields = dict(zip(rv["fields"], rv["ops"]))
        key = "stats %s" % mir.norm(p)
        # which field of `self` holds the sink-owning writer?
        def src_of(fname):
            e = sym.expr(b, fields[fname])
            return common.inline_expr(u, e)
        for fname, q in (("video_frames", vq), ("audio_frames", aq)):
            e = src_of(fname)
            loads = {s[1] for s in sym.sources(e) if s[0] == "load"}
            has_len = any(o in ("call:std::vec::Vec::len", "call:core::slice::len") for o in sym.ops(e))
            good = len(loads) == 1 and next(iter(loads)).endswith("." + q) and has_len
            run.check(good, "R5", key + " " + fname, "%s := %s" % (fname, sym.show(e)),
                      "%s is not the length of the %s queue `%s`: %s" % (fname, fname.split("_")[0], q, sym.show(e)), mir.loc_of(st))
        e = src_of("bytes_written")
        loads = {s[1] for s in sym.sources(e) if s[0] == "load"}
        good = len(loads) == 1 and next(iter(loads)).endswith("." + an.counter_field) and not [o for o in sym.ops(e) if not o.startswith("cast")]
        run.check(good, "R5", key + " bytes_written", "bytes_written := %s" % sym.show(e),
                  "bytes_written is not the sink helper's counter `%s`: %s" % (an.counter_field, sym.show(e)), mir.loc_of(st))
        # duration: depends on a pure local function that reads both queues
        e = sym.expand_phi(b, sym.expr(b, fields["duration_secs"]))
        callees = {t[3] for t in sym.walk(e) if isinstance(t, tuple) and t and t[0] == "call" and len(t) > 3 and t[3] in u.bodies}
        reads = set()
        pure = True
        for c in callees:
            for f in g.reach([c]):
                if cx.st.sum[f]:
                    pure = False
                reads |= field_reads(u.bodies[f])
        good = pure and vq in reads and aq in reads

        def outside(x):
            if isinstance(x, tuple) and x and x[0] == "call" and len(x) > 3 and x[3] in callees:
                return []
            if isinstance(x, tuple) and len(x) > 1 and x[0] in ("load", "refplace") and str(x[1]).startswith("arg"):
                return [x[1]]
            out = []
            if isinstance(x, (tuple, list)):
                for y in x:
                    out += outside(y)
            return out
        other = sorted(set(outside(e)))
        run.check(not other, "R5", key + " duration_secs only-from-samples", "no other state or parameter enters the duration",
                  "duration_secs also depends on %s, which is not derived from the accepted samples' presentation times and durations" % other, mir.loc_of(st))
        run.check(good, "R5", key + " duration_secs", "duration := %s ; reads %s" % (sym.show(e), sorted(reads & {vq, aq})),
                  "duration_secs does not derive from a pure function of both sample queues (callees %s, reads %s, pure=%s)" % (sorted(callees), sorted(reads), pure), mir.loc_of(st))
        # each track's end time pairs the queue with its *own* last-delta field (the field the queue's writer updates
        # together with the previous sample's duration)
        pairing = last_delta_pairing(cx, (vq, aq))
        deltas = set(pairing.values())
        npair = 0
        for c in sorted(callees):
            for f in sorted(g.reach([c])):
                fb = u.bodies[f]
                for cbb, ct, cname, cinfo in mir.calls(fb):
                    args = [sym.expr(fb, a) for a in ct["args"]]
                    qs = {q for q in (vq, aq) for a in args for y in sym.walk(a) if isinstance(y, tuple) and len(y) > 1 and y[0] in ("load", "refplace") and y[1] == "arg1." + q}
                    ds = {d for d in deltas for a in args for y in sym.walk(a) if isinstance(y, tuple) and len(y) > 1 and y[0] in ("load", "refplace") and y[1] == "arg1." + d}
                    if len(qs) == 1 and ds:
                        q = next(iter(qs))
                        npair += 1
                        run.check(ds == {pairing.get(q)}, "R5", key + " end-time pairing " + q, "end of `%s` uses its own last delta `%s`" % (q, pairing.get(q)),
                                  "the end time of queue `%s` is computed with %s, but the delta its writer maintains is `%s`" % (q, sorted(ds), pairing.get(q)), mir.loc_of(ct))
        # R6: the end time of a queue whose presentation times are not monotone in queue order must range over every sample
        mono = queue_monotone_fields(cx, (vq, aq))
        for c in sorted(callees):
            for f in sorted(g.reach([c])):
                fb = u.bodies[f]
                for cbb, ct, cname, cinfo in mir.calls(fb):
                    if cname not in u.bodies:
                        continue
                    args = [sym.expr(fb, a) for a in ct["args"]]
                    qs = {q for q in (vq, aq) for a in args for y in sym.walk(a) if isinstance(y, tuple) and len(y) > 1 and y[0] in ("load", "refplace") and y[1] == "arg1." + q}
                    if len(qs) != 1:
                        continue
                    q = next(iter(qs))
                    sel = selector_field_reads(u, g, cname, "pts")
                    if mono.get(q) is None:
                        run.bad("R6", key + " monotone-fields " + q, "cannot determine which timestamp the writer of `%s` keeps monotone" % q, mir.loc_of(ct))
                    elif "pts" in mono[q]:
                        run.ok("R6", key + " end-time " + q, "presentation times of `%s` are monotone in queue order: the last sample ends last" % q, mir.loc_of(ct))
                    else:
                        run.check(not sel, "R6", key + " end-time " + q, "maximum over every sample of `%s` (its presentation times are not monotone in queue order: writer enforces %s only)" % (q, sorted(mono[q])),
                                  "the end time of `%s` is taken from a single selected sample (%s), but only %s is monotone in queue order: with reordered (B-frame) video the sample presented last is not the one queued last" % (q, ", ".join(sel), sorted(mono[q])), mir.loc_of(ct))
        # R6: the two tracks' end times are combined by maximum (the file ends when its last track ends)
        for c in sorted(callees):
            for f in sorted(g.reach([c])):
                fb = u.bodies[f]
                for cbb, ct, cname, cinfo in mir.calls(fb):
                    last_ = mir.norm(cname or "").split("::")[-1]
                    if last_ not in ("max", "min", "clamp") or len(ct["args"]) < 2:
                        continue
                    args = [sym.expr(fb, a) for a in ct["args"]]
                    per = [{q for q in (vq, aq) for y in sym.walk(a) if isinstance(y, tuple) and len(y) > 1 and y[0] in ("load", "refplace") and y[1] == "arg1." + q} for a in args]
                    if {vq} in per and {aq} in per:
                        run.check(last_ == "max", "R6", key + " tracks combined by maximum", "end = max(video end, audio end)",
                                  "the end times of the two tracks are combined with `%s`: the statistic is not the largest presentation end over all accepted samples" % last_, mir.loc_of(ct))
        # R6: ... and nothing is subtracted from / added to the combined end afterwards (the statistic is an end time, not a length)
        for c in sorted(callees):
            fb = u.bodies[c]
            ret = sym.expand_phi(fb, sym.expr_local(fb, 0), 3)

            def is_end(x):
                # a per-track end (call of a local function that is handed a queue) or the maximum of such
                return isinstance(x, tuple) and x and x[0] == "call" and ((len(x) > 3 and x[3] in u.bodies) or x[1].split("::")[-1] == "max") and \
                    any(isinstance(y, tuple) and len(y) > 1 and y[0] in ("load", "refplace") and y[1] in ("arg1." + vq, "arg1." + aq) for y in sym.walk(x))
            arith = []
            for y in sym.walk(ret):
                if not (isinstance(y, tuple) and y):
                    continue
                opn = None
                if y[0] == "bin" and y[1].replace("WithOverflow", "").replace("Unchecked", "") in ("Sub", "Add", "Mul", "Div", "Rem", "Shl", "Shr"):
                    opn, kids = y[1], y[2:4]
                elif y[0] == "call" and y[1].split("::")[-1] in ("saturating_sub", "wrapping_sub", "checked_sub", "saturating_add", "wrapping_add", "checked_add", "abs_diff", "min", "clamp"):
                    opn, kids = y[1].split("::")[-1], y[2]
                if opn and any(is_end(z) for k_ in kids for z in sym.walk(k_)):
                    arith.append(opn)
            run.check(not arith, "R6", key + " end time returned as it is", "the combined end of the tracks is returned without further arithmetic",
                      "`%s` is applied to the tracks' end time before it is returned: the statistic is no longer the largest presentation end (presentation time plus duration) over the accepted samples" % (arith[0] if arith else ""), mir.loc_of(fb))
        if len(pairing) == 2 and callees:
            run.check(npair >= 2, "R5", key + " end-time pairing sites", "%d queue/last-delta pairings found in the duration function" % npair,
                      "could not find where the duration function combines each queue with a last-delta field (found %d)" % npair, mir.loc_of(st))
        # built only on the Ok edge of the finalize call
        dom = mir.dominators(b)
        ts = [t for t in flow.try_sites(b) if t["src"] and t["src"][0] == "call" and len(t["src"]) > 3 and t["src"][3] in cx.u.bodies
              and an.F in g.reach([t["src"][3]])]
        good = any(t["cont"] in dom[bb] for t in ts)
        run.check(good, "R5", key + " after-ok-finalize", "statistics built only on the Continue edge of `finalize(..)?`",
                  "MuxerStats is built on a path that does not pass the Ok edge of the finalising call", mir.loc_of(st))


def queue_monotone_fields(cx, qs):
    from .. import filemodel as FM
    out = {}
    for q in qs:
        try:
            out[q] = set(FM.monotone_fields(cx, q)[0])
        except Exception:
            out[q] = None
    return out


def selector_field_reads(u, g, fn, field):
    """reads of `<element>.<field>` in fn where the element is a single sample picked by last/first/get/index of a slice
    parameter (as opposed to the element of an iteration over it)"""
    out = []
    b = u.bodies[fn]
    selectors, iterated = {}, set()
    for bb, t, name, info in mir.calls(b):
        last = mir.norm(name or "").split("::")[-1]
        if not t["args"]:
            continue
        a0 = sym.expr(b, t["args"][0])
        roots = {y[1] for y in sym.walk(a0) if isinstance(y, tuple) and len(y) > 1 and y[0] == "arg"} | \
                {int(str(y[1])[3:].split(".")[0]) for y in sym.walk(a0) if isinstance(y, tuple) and len(y) > 1 and y[0] in ("load", "refplace") and str(y[1]).startswith("arg") and str(y[1])[3:].split(".")[0].isdigit()}
        if last in ("last", "first", "last_mut", "first_mut", "get", "index", "get_unchecked"):
            for r in roots:
                selectors.setdefault(r, []).append(last)
        if last in ("iter", "into_iter", "iter_mut"):
            iterated |= roots
    for blk in b["blocks"]:
        if blk["cleanup"]:
            continue
        for st in blk["stmts"]:
            if st["k"] != "assign":
                continue
            e = sym.expr_rv(b, st["rv"])
            for y in sym.walk(e):
                if isinstance(y, tuple) and len(y) > 1 and y[0] == "load" and isinstance(y[1], str) and y[1].endswith(".[]." + field) and y[1].startswith("arg"):
                    r = y[1][3:].split(".")[0]
                    if r.isdigit() and int(r) in selectors and int(r) not in iterated:
                        out.append("%s(..).%s in %s" % ("/".join(sorted(set(selectors[int(r)]))), field, mir.norm(fn).split("::")[-1]))
    return sorted(set(out))


def last_delta_pairing(cx, qs):
    """{queue field: state field that receives the same delta as the previous sample's patched duration in the queue's writer}"""
    u = cx.u
    out = {}
    for q in qs:
        cands = set()
        for p, b in cx.live.items():
            sites = cx.st.sites.get(p, [])
            durs = [s_ for s_ in sites if s_[2][0] == ("arg", 1) and s_[2][1][:1] == (q,) and s_[2][1][-1:] == ("duration",) and s_[3].startswith("assign") and s_[4].get("k") == "assign"]
            for d in durs:
                e1 = sym.expr_rv(b, d[4]["rv"])
                for s_ in sites:
                    if s_[2][0] == ("arg", 1) and len(s_[2][1]) == 1 and s_[2][1][0] != q and s_[3].startswith("assign") and s_[4].get("k") == "assign" and sym.expr_rv(b, s_[4]["rv"]) == e1:
                        cands.add(s_[2][1][0])
        if len(cands) == 1:
            out[q] = next(iter(cands))
    return out


def field_reads(body):
    out = set()
    for blk in body["blocks"]:
        if blk["cleanup"]:
            continue
        nodes = [st for st in blk["stmts"] if st["k"] == "assign"]
        for st in nodes:
            for pl in _places_of_rv(st["rv"]):
                for e in pl["p"]:
                    if e["k"] == "field" and "name" in e:
                        out.add(e["name"])
        t = blk["term"]
        if t["k"] == "call":
            for a in t["args"]:
                if a["k"] in ("copy", "move"):
                    for e in a["place"]["p"]:
                        if e["k"] == "field" and "name" in e:
                            out.add(e["name"])
    return out


def _places_of_rv(rv):
    k = rv["k"]
    if k in ("ref", "rawptr", "discr", "copyderef"):
        return [rv["place"]]
    out = []
    for op in mir._rv_operands(rv):
        if op["k"] in ("copy", "move"):
            out.append(op["place"])
    return out
