"""C07 — the codec configuration in the file is exactly that of the submitted stream.

R1 fourcc <=> codec: (a) the stsd production selects avc1>avcC | hvc1>hvcC | av01>av1C | vp09>vpcC by the config variant;
   (b) the writer builds the variant from the configured codec with the matching extractor; (c) every fall-back that fabricates
   a configuration selects its variant by the codec; (d) fragmented: for each codec the builder sets exactly the optional fields that
   make the init-segment selection chain pick that codec's sample entry;
R2 dimensions at the sample-entry offsets come from the configured width/height (C19.R1 instances for the 4+4 sample entries);
R3 parameter sets verbatim: records carry len16(x) ++ x for x in {sps,pps,vps} of the config (C19.R3 instances) and the config's
   slots are filled with the iterated NAL unit itself;
R4 first wins: every slot assignment is guarded by `slot is still empty` and `unit type == the slot's type constant` (7/8; 32/33/34);
R5 audio entry: channel count / sample rate / decoder configuration derive from the one audio configuration;
R6 AV1/VP9 record fields are values of the parsed configuration, not constants.
Not decided: that the AV1 sequence-header / VP9 header parsers compute the right field values (bit-level, value-level)."""
from .. import boxcheck as B
from .. import flow, guards, mir, sym
from .. import layout as L
from .. import bitreader as BR
from ..anchors import AnchorMissing
from . import c04, common

EXPLANATION = (
    "layout interpretation (moov / init-segment productions, writer and builder functions) and MIR guard extraction: R1 sample-entry type selected by the config variant, variant built from the configured codec by the matching "
    "extractor, fall-backs and the fragmented selection chain checked per codec; R3/R4 every parameter-set slot is assigned the iterated NAL unit only under `slot empty` and `NAL type == spec constant`; R5 audio entry "
    "fields and decoder configuration derive from the same audio configuration; R6 av1C/vpcC field bytes are value-of(config) expressions.")
TRUSTED = ["layout interpreter", "NAL unit type constants of H.264 (7,8) and H.265 (32,33,34)"]

PAIR = {"Avc": (b"avc1", b"avcC"), "Hevc": (b"hvc1", b"hvcC"), "Av1": (b"av01", b"av1C"), "Vp9": (b"vp09", b"vpcC")}
CODEC_VARIANT = {"H264": "Avc", "H265": "Hevc", "Av1": "Av1", "Vp9": "Vp9"}
EXTRACTOR = {"H264": "extract_avc_config", "H265": "extract_hevc_config", "Av1": "extract_av1_config", "Vp9": "extract_vp9_config"}
SLOT_TYPES = {("extract_avc_config", "sps"): 7, ("extract_avc_config", "pps"): 8,
              ("extract_hevc_config", "vps"): 32, ("extract_hevc_config", "sps"): 33, ("extract_hevc_config", "pps"): 34}


def check(prog, run):
    run.rule("R1", "sample-entry type <=> codec on every path: stsd selection, writer's variant construction, fall-backs, fragmented selection chain")
    run.rule("R3", "parameter-set slots are filled with the iterated NAL unit itself (no copy of anything else)")
    run.rule("R4", "first wins: slot assignment guarded by `slot is empty` and `NAL type == spec constant`")
    run.rule("R5", "audio sample entry and decoder configuration derive from the one audio configuration")
    run.rule("R6", "AV1 / VP9 configuration record fields are values of the parsed configuration")
    run.rule("R7", "hvcC profile/tier/level bytes are bit-for-bit the SPS bytes they summarise (all 256 values of the extracted expression)")
    hvcc_profile_bytes(prog, run, "R7")
    hvcc_profile_bytes_init(prog, run, "R7")
    run.rule("R9", "AV1 sequence-header parser == specification syntax (5.5.1-5.5.5): same bit widths in the same order and the same configuration values on every enumerated syntax path")
    av1_reader_rule(prog, run, "R9")
    run.rule("R10", "offset-passing header parsers (VP9): every read starts at the offset returned by the read before it (+k) on every path; no field is read from bytes another field consumed")
    cursor_chain_rule(prog, run, "R10")
    run.rule("R14", "AV1 OBU header parsing == AV1 5.3.1/5.3.2 for all 256 header bytes (type, extension, payload offset and size; forbidden bit refused)")
    obu_header_rule(prog, run, "R14")
    run.rule("R17", "avcC / hvcC (progressive and fragmented) carry the stored parameter sets verbatim: each NAL blob of the record is the configuration's sps / pps / vps field itself, in that order, with no transformation on the way out")
    paramsets_written_verbatim(prog, run, "R17")
    run.rule("R15", "the AV1 sequence header is found wherever it stands among the OBUs of a temporal unit, and only it is parsed (tabulated over leading OBU sequences)")
    av1_seq_position_rule(prog, run, "R15")
    run.rule("R16", "AV1 leb128() (OBU sizes): value and length as in AV1 4.10.5 for all tabulated byte strings, zero-padded encodings accepted")
    leb128_rule(prog, run, "R16")
    run.rule("R13", "parameter-set slots by NAL type: for all 256 header bytes the unit lands in the slot of its specification type only; first wins (H.264, H.265)")
    parameter_set_table_rule(prog, run, "R13")
    run.rule("R12", "AV1 bit reader primitives (read_bit, read_bits, skip_bits) and the uvlc helper behave as the descriptors f(n) / uvlc() of the AV1 specification (complete tabulation of their finite state)")
    bitreader_primitives_rule(prog, run, "R12")
    run.rule("R11", "byte-packed header fields (VP9): fields taken from one byte occupy non-empty, pairwise disjoint bit ranges")
    bitfield_rule(prog, run, "R11")
    run.rule("R8", "table-driven configuration fields agree with their specification tables (AAC samplingFrequencyIndex; av1C flag bits per configuration field)")
    aac_frequency_index_rule(prog, run, "R8")
    av1c_flags_rule(prog, run, "R8")
    u = prog.lib
    it = L.Interp(u)
    try:
        moov = L.norm_segs(it.production("muxer::mp4::build_moov_box"))
    except (L.Unanalysable, KeyError) as e:
        run.bad("R1", "moov unanalysable", str(e))
        return
    # ---- R1a
    stsd = [(p, b, c) for (p, b, c) in B.walk_boxes(moov) if p[-1] == b"stsd"]
    vstsd = [x for x in stsd if any(s[0] == "match" and any(p_.split("::")[-1] in PAIR for p_, _ in s[2]) for s in x[1][2])]
    if len(vstsd) != 1:
        run.bad("R1", "stsd-selection", "video stsd is not a single match over the configuration variant")
    else:
        msg = [s for s in vstsd[0][1][2] if s[0] == "match"][0]
        arms = {p.split("::")[-1]: sg for p, sg in msg[2]}
        for var, (entry, rec) in PAIR.items():
            sg = arms.get(var, [])
            ok = len(sg) == 1 and sg[0][0] == "box" and L.fourcc(sg[0]) == entry and any(L.fourcc(x) == rec for x in sg[0][2] if x[0] == "box")
            run.check(ok, "R1", "stsd %s" % var, "%s > %s" % (B.fc_str(entry), B.fc_str(rec)), "configuration variant %s does not select %s>%s" % (var, B.fc_str(entry), B.fc_str(rec)))
        run.check(msg[1] == ("param", "video_config"), "R1", "stsd scrutinee", "selected by the video configuration", "stsd is selected by %s" % L.show(msg[1]))
    # ---- R1b / R1c on the writer and finalize
    try:
        cx = common.Ctx(prog)
    except AnchorMissing as e:
        run.bad("R1", "anchor", str(e))
        return
    from . import c06
    vq, aq = c06.queues(cx)
    from .. import filemodel as FMD
    w = FMD.monotone_fields(cx, next(iter(vq)))[1] if len(vq) == 1 else None
    if not w or w not in u.hir:
        run.bad("R1", "anchor writer", "video writer not found")
    else:
        it2 = L.Interp(u)
        it2.trace = []
        h = u.hir[w]
        env = {}
        for i, p in enumerate(h["params"]):
            it2.bind(p["pat"], ("param", p["pat"].get("name", "_%d" % i)), env)
        vals = []
        _collect_let(it2, h["body"], env, vals)
        cfg = [v for v in vals if v[0] == "matchv" and all(("VideoConfig::" in L.show(x[1])) for x in v[2])]
        if len(cfg) != 1:
            run.bad("R1", "writer-variant", "cannot find the `match codec { .. => extract(..).map(VideoConfig::..) }` in %s" % mir.norm(w))
        else:
            scr = cfg[0][1]
            run.check(scr[0] == "field" and scr[1] == ("param", "self") and "codec" in scr[2], "R1", "writer-variant scrutinee", "selected by self.%s" % scr[2], "variant is selected by %s" % L.show(scr))
            for p, v in cfg[0][2]:
                codec = p.split("::")[-1]
                want_v, want_x = CODEC_VARIANT.get(codec), EXTRACTOR.get(codec)
                ok = v[0] == "mcall" and v[1].endswith("Option::map") and v[2][0] == "call" and v[2][1].endswith("::" + str(want_x)) and v[2][2] == (("param", "data"),) and \
                    v[3] and str(v[3][0]).find("VideoConfig::%s" % want_v) >= 0
                run.check(ok, "R1", "writer-variant %s" % codec, "%s(data).map(VideoConfig::%s)" % (want_x, want_v), "codec %s builds its configuration as %s" % (codec, L.show(v)[:120]))
    G = cx.an.G
    if G and G in u.hir:
        it3 = L.Interp(u)
        h = u.hir[G]
        env = {}
        for i, p in enumerate(h["params"]):
            it3.bind(p["pat"], ("param", p["pat"].get("name", "_%d" % i)), env)
        vals = []
        _collect_let(it3, h["body"], env, vals)
        cands = [v for v in vals if "VideoConfig::" in L.show(v)]
        if not cands:
            run.bad("R1", "finalize-config", "cannot find the configuration value used by finalize")
        for v in cands[:1]:
            for (ctor, ctx_ok, where) in _ctor_contexts(v):
                run.check(ctx_ok, "R1", "fallback %s %s" % (ctor, where), "fabricated only on the matching codec arm",
                          "finalize fabricates a %s configuration %s: a muxer configured for another codec that reaches finalize without a stored configuration (zero accepted frames) "
                          "gets this sample entry" % (ctor, where))
    # ---- R1d fragmented selection chain
    frag_selection(u, run)
    # ---- R3 / R4
    slots(cx, run)
    # ---- R5
    audio_entry(moov, run)
    audio_config_writers(cx, run)
    # ---- R6
    for name, segs in (("progressive", moov), ("init", _init(u))):
        if segs is None:
            run.bad("R6", "%s production" % name, "cannot derive")
            continue
        for (p, b, c) in B.walk_boxes(segs):
            if p[-1] == b"av1C":
                alts = B.alternatives(b[2], B.facts_of(c))
                for a in alts:
                    view, rest = B.byte_view(a)
                    vals = [B.field_value(view, o, 1) for o in (1, 2)]
                    ok = all(v[0] == "expr" and L.field_names(v[1]) for v in vals)
                    run.check(ok, "R6", "%s av1C fields" % name, "profile/level and tier/bit-depth/chroma bytes are computed from the parsed sequence header",
                              "%s av1C profile/level/tier/bit-depth/chroma bytes are constants (%s), not the values of the supplied sequence header" % (name, [v[1].hex() if v[0] == "const" else "?" for v in vals]))
                    # configOBUs: the bytes that were stored / supplied, verbatim - not something re-derived by a parser on the way out
                    blobs = [sg for sg in (rest or []) if sg[0] == "blob"]
                    def derived(e):
                        return L.mentions(e, lambda y: isinstance(y, tuple) and y[:1] == ("call",) and any(str(y[1]).endswith(h_.split("::")[-1]) and h_ in u.hir for h_ in u.hir if h_.split("::")[-1] == str(y[1]).split("::")[-1]))
                    okb = len(blobs) == 1 and not derived(blobs[0][1]) and any("sequence_header" in f_ for f_ in L.field_names(blobs[0][1]))
                    run.check(okb, "R6", "%s av1C configOBUs" % name, "the stored / supplied sequence-header bytes themselves",
                              "%s av1C configOBUs is %s: not the sequence-header bytes that were supplied (a value re-derived by a local function drops or rewrites OBUs)" % (name, [L.show(x[1])[:100] for x in blobs] or "missing"))
            if p[-1] == b"vpcC":
                alts = B.alternatives(b[2], B.facts_of(c))
                for a in alts:
                    names = set()
                    for s in a:
                        if s[0] == "u8":
                            names |= L.field_names(s[1])
                    ok = {"profile", "bit_depth"} <= names and ({"color_space", "matrix_coefficients", "transfer_function"} & names)
                    run.check(bool(ok), "R6", "%s vpcC fields" % name, "profile, bit depth and colour fields come from the VP9 configuration", "%s vpcC does not carry the configuration's profile/bit depth/colour fields (%s)" % (name, sorted(names)))


def _init(u):
    try:
        return L.norm_segs(L.Interp(u).production("fragmented::FragmentedMuxer::init_segment"))
    except Exception:
        return None


def _collect_let(it, e, env, out):
    """evaluate the function body statement by statement and collect the values bound by top-level `let`s
    (best effort: statements the interpreter cannot handle are skipped)"""
    blk = e["b"] if e["k"] == "block" else None
    if blk is None:
        return
    for s in blk["stmts"]:
        if s["s"] == "let" and "init" in s:
            try:
                v = it.ev(s["init"], env)
            except Exception:
                try:
                    t = it.exec_expr_tree(s["init"], dict(env))
                    v = it.collapse_value(t)
                except Exception:
                    continue
            out.append(v)
            try:
                it.bind(s["pat"], v, env)
            except Exception:
                pass
        elif s["s"] in ("semi", "expr"):
            x = s["e"]
            while x["k"] in ("droptemps",):
                x = x["a"]
            if x["k"] == "if":
                for br in ("t", "e"):
                    if br in x:
                        _collect_let(it, x[br], dict(env), out)


def _ctor_contexts(v):
    """[(variant, ok, description)] for every VideoConfig constructor inside value v: ok iff it sits on a matchv arm of
    the codec whose variant it is"""
    out = []

    def rec(x, arm):
        if isinstance(x, tuple) and x:
            if x[0] == "ctor" and "VideoConfig::" in str(x[1]):
                var = str(x[1]).split("::")[-1]
                ok = arm is not None and CODEC_VARIANT.get(arm) == var
                out.append((var, ok, "on the %s arm" % arm if arm else "unconditionally (not under a match on the codec)"))
            if x[0] == "matchv" and isinstance(x[2], tuple):
                rec(x[1], arm)
                for p, val in x[2]:
                    rec(val, p.split("::")[-1] if "VideoCodec::" in p else arm)
                return
            for y in x:
                rec(y, arm)
    rec(v, None)
    return out


def frag_selection(u, run):
    f = "api::MuxerBuilder::<Writer>::new_with_fragment"
    if f not in u.hir:
        run.bad("R1", "anchor new_with_fragment", "not found")
        return
    it = L.Interp(u)
    it.trace = []
    h = u.hir[f]
    env = {}
    for i, p in enumerate(h["params"]):
        it.bind(p["pat"], ("param", p["pat"].get("name", "_%d" % i)), env)
    vals = []
    _collect_let(it, h["body"], env, vals)
    tup = [v for v in vals if v[0] == "tuple" and len(v[1]) == 5]
    mv = [v for v in vals if v[0] == "matchv" and all(x[1][0] == "tuple" for x in v[2])]
    per_codec = {}
    if mv:
        for p, t in mv[0][2]:
            per_codec[p.split("::")[-1]] = t[1]
    elif tup and all(x[0] in ("matchv",) for x in tup[0][1]):
        for i, comp in enumerate(tup[0][1]):
            for p, val in comp[2]:
                per_codec.setdefault(p.split("::")[-1], [None] * 5)[i] = val
    if set(per_codec) != {"H264", "H265", "Av1", "Vp9"}:
        run.bad("R1", "fragmented per-codec parameters", "cannot derive, per codec, which optional parameters new_with_fragment sets (got %s)" % sorted(per_codec))
        return
    # which struct fields do the 5 tuple components feed?  (sps, pps, vps, av1_sequence_header, vp9_config) by the FragmentConfig literal
    cfgs = [t for t in it.trace if t[0] == "struct" and str(t[1]).endswith("FragmentConfig")]
    # evaluate the selection chain of the init segment
    try:
        segs = L.norm_segs(L.Interp(u).production("fragmented::build_stsd_fmp4"))
    except Exception as e:
        run.bad("R1", "fragmented stsd", "cannot derive: %s" % e)
        return
    order = ["sps", "pps", "vps", "av1_sequence_header", "vp9_config"]
    want = {"H264": b"avc1", "H265": b"hvc1", "Av1": b"av01", "Vp9": b"vp09"}
    for codec, comps in sorted(per_codec.items()):
        facts = {}
        for name, v in zip(order, comps):
            if v is None:
                continue
            is_some = None
            if v[0] == "some":
                is_some = True
            elif v[0] == "none":
                is_some = False
            if is_some is not None:
                facts[L.freeze(("field", ("param", "config"), name))] = is_some
        picked = _pick(segs, facts)
        run.check(picked == want[codec], "R1", "fragmented %s" % codec, "builder parameters for %s make the init segment select %s" % (codec, B.fc_str(want[codec])),
                  "for codec %s the init segment selects %s (optional parameters set: %s)" % (codec, B.fc_str(picked) if picked else "an undetermined entry", {k[2]: v for k, v in facts.items()}))


def _pick(segs, facts):
    alts = B.alternatives([s for s in _stsd_tail(segs)], facts)
    if len(alts) != 1:
        return None
    bx = [L.fourcc(s) for s in alts[0] if s[0] == "box"]
    return bx[0] if len(bx) == 1 else None


def _stsd_tail(segs):
    for (p, b, c) in B.walk_boxes(segs):
        if p[-1] == b"stsd":
            return [s for s in b[2] if s[0] in ("alt", "box", "match")]
    return []


def slots(cx, run):
    u = cx.u
    n = 0
    for (fn, field), ty in sorted(SLOT_TYPES.items()):
        cands = [p for p in cx.live if p.endswith("::" + fn)]
        if len(cands) != 1:
            run.bad("R4", "anchor %s" % fn, "extractor not found")
            continue
        b = u.bodies[cands[0]]
        # the slot local: the one whose payload feeds `field` of the returned config aggregate
        slot = None
        feeds = []
        for blk in b["blocks"]:
            for st in blk["stmts"]:
                if st["k"] == "assign" and st["rv"]["k"] == "aggregate" and st["rv"].get("agg") == "adt" and field in st["rv"].get("fields", []):
                    feeds.append(sym.expr(b, dict(zip(st["rv"]["fields"], st["rv"]["ops"]))[field]))
        if not feeds:
            # the configuration is built by a local constructor function `Config::new(a, b, c)`: field <- parameter k of that function
            for bb_, t_, name_, info_ in mir.calls(b):
                cb = u.bodies.get(name_)
                if cb is None or cb["in_test_cfg"]:
                    continue
                for blk in cb["blocks"]:
                    for st in blk["stmts"]:
                        if st["k"] == "assign" and st["rv"]["k"] == "aggregate" and st["rv"].get("agg") == "adt" and field in st["rv"].get("fields", []):
                            pe = sym.expr(cb, dict(zip(st["rv"]["fields"], st["rv"]["ops"]))[field])
                            if pe[0] == "arg" and pe[1] - 1 < len(t_["args"]):
                                feeds.append(sym.expr(b, t_["args"][pe[1] - 1]))
        for e in feeds:
            for t in sym.walk(e):
                if isinstance(t, tuple) and t and t[0] == "var":
                    slot = t[1]
        if slot is None:
            run.bad("R4", "%s.%s slot" % (fn, field), "cannot find the local that feeds this field")
            continue
        c04.ROLE_NAMES.clear()
        for i in range(1, b["argc"] + 1):
            c04.ROLE_NAMES[i] = mir.debug_name(b, i)
        assigns = []
        for d in mir.defs(b).get(slot, []):
            if d[0] == "stmt":
                e = sym.expr_rv(b, d[3]["rv"])
                if e[0] == "agg" and str(e[1]).endswith("Option::Some"):
                    assigns.append((d[1], e, d[3]))
        run.check(len(assigns) >= 1, "R4", "%s.%s assigned" % (fn, field), "%d assignment(s)" % len(assigns), "the %s slot is never assigned" % field)
        for (bb, e, node) in assigns:
            n += 1
            gs = guards.guards_of(b, bb)
            sigs = [c04.signature(d_, t_) for (s_, d_, t_) in gs]
            name = mir.debug_name(b, slot) or "_%d" % slot
            empty = any(s_ == "is_none(local:%s)" % name for s_ in sigs)
            typed = False
            for (s_, d_, t_) in gs:
                # nal_type == CONST (comparison) or switch(nal_type) arm CONST
                if d_[0] == "bin" and d_[1] == "Eq" and guards.truth(t_) and any(x == ("const", ty, "u8") or (isinstance(x, tuple) and x[:2] == ("const", ty)) for x in (d_[2], d_[3])):
                    typed = True
                if t_ == ("eq", str(ty)) and d_[0] in ("var", "call", "bin", "proj", "cast"):
                    typed = True
            # value: the loop element itself
            v = e[3][0] if e[3] else None
            calls_ = [t_[1] for t_ in sym.walk(v) if isinstance(t_, tuple) and t_ and t_[0] == "call"] if v is not None else ["?"]
            unit = v is not None and all(c_.endswith("Iterator>::next") or c_.endswith("::into_iter") or c_.endswith("AnnexBNalIter::new") for c_ in calls_) and \
                (any(c_.endswith("Iterator>::next") for c_ in calls_) or v[0] == "var")
            run.check(empty and typed, "R4", "%s.%s first-wins" % (fn, field), "assigned only while empty and when the unit type is %d" % ty,
                      "slot `%s` is assigned without the guards `still empty` / `type == %d` (guards: %s)" % (field, ty, sigs[-4:]), mir.loc_of(node))
            run.check(unit, "R3", "%s.%s verbatim" % (fn, field), "slot := the iterated unit", "slot is assigned %s" % sym.show(v)[:100], mir.loc_of(node))
    run.floor("R4", n, 5, "slot assignments")


def audio_config_writers(cx, run):
    """the audio configuration the sample entry and the decoder configuration are computed from is the one the builder handed over:
    the writer's audio-track field is stored only by its constructor / enabling function, never by a frame-writing or finalising
    method (a value re-derived from the stream would replace what was configured)"""
    u = cx.u
    fld = None
    for p, b in cx.live.items():
        if mir.norm(p).endswith("Mp4Writer::enable_audio"):
            fs = sorted({pa[0] for (r, pa) in cx.st.sum.get(p, ()) if r == ("arg", 1) and pa})
            if len(fs) == 1:
                fld = fs[0]
    if fld is None:
        run.bad("R5", "anchor enable_audio", "cannot find the function that stores the writer's audio configuration")
        return
    others = sorted(mir.norm(p) for p, b in cx.live.items() if "Mp4Writer" in b.get("impl_self", "") and not mir.norm(p).endswith("::enable_audio") and not mir.norm(p).endswith("::new")
                    and any(r == ("arg", 1) and pa[:1] == (fld,) for (r, pa) in cx.st.sum.get(p, ())))
    run.check(not others, "R5", "audio configuration set once", "self.%s is stored by enable_audio only" % fld,
              "the writer's audio configuration `%s` is also modified by %s: the sample entry and decoder configuration no longer carry what was configured" % (fld, others))


def audio_entry(moov, run):
    for (p, b, c) in B.walk_boxes(moov):
        if p[-1] == b"esds":
            flat = [s for s in L.norm_segs(b[2]) if s[0] == "u8"]
            names = set()
            for s in flat:
                names |= L.field_names(s[1])
            run.check({"sample_rate", "channels"} <= names, "R5", "esds AudioSpecificConfig", "ASC bytes computed from the configured sample rate and channel count",
                      "the AudioSpecificConfig does not derive from the configured sample rate and channels (%s)" % sorted(names))
        if p[-1] in (b"mp4a", b"Opus"):
            view, rest = B.byte_view(b[2])
            ch, sr = B.field_value(view, 16, 2), B.field_value(view, 24, 4)
            chv = ch[1][1] if ch[0] == "expr" else None
            while chv is not None and chv[0] == "cast":
                chv = chv[2]
            run.check(chv is not None and chv[0] == "field" and chv[2] == "channels", "R5", "%s channelcount" % B.fc_str(p[-1]), "the configured channel count", "sample entry channel count is %s" % (L.show(ch[1])[:80] if ch[0] == "expr" else str(ch)))
            if p[-1] == b"Opus":
                ok = sr[0] == "const" and int.from_bytes(sr[1], "big") == 48000 << 16
                run.check(ok, "R5", "Opus samplerate", "48000 << 16 whatever the configured input rate", "the Opus sample entry's rate is %s, the binding prescribes 48000 Hz" % (L.show(sr[1])[:80] if sr[0] == "expr" else str(sr)))
            else:
                from .. import spec as S_
                ok = sr[0] == "expr" and S_.shl16_of("sample_rate")(sr[1][1])
                run.check(ok, "R5", "mp4a samplerate", "configured sample rate << 16", "the mp4a sample entry's rate is %s" % (L.show(sr[1])[:80] if sr[0] == "expr" else str(sr)))
        if p[-1] == b"dOps":
            view, rest = B.byte_view(b[2])
            ch = B.field_value(view, 1, 1)
            v = ch[1][1] if ch[0] == "expr" and ch[1][0] == "u8" else None
            while v is not None and v[0] == "cast":
                v = v[2]
            # the value itself (constructor and `with_channels` setter are looked through), not merely an expression that mentions it
            ok = v is not None and v[0] == "field" and v[2] == "channels"
            run.check(ok, "R5", "dOps channel count", "OutputChannelCount from the configured channels", "dOps channel count is %s" % (L.show(ch[1])[:80] if ch[0] == "expr" else ch))


# ---- hvcC profile/tier/level bytes as functions of the SPS bytes they are read from ---------------------------------------
def _byte_fn(expr, bvar):
    """python callable for a closure body over one byte (std operator-trait calls on &u8 included)"""
    def ev(x, b):
        h = x[0]
        if h == "const":
            return int(x[1])
        if h == "arg" and x[1] == bvar:
            return b
        if h == "load" and str(x[1]).startswith("arg%d" % bvar):
            return b
        if h in ("ref",):
            return ev(x[1], b)
        if h == "cast":
            return ev(x[4], b) & 0xFFFFFFFFFFFFFFFF
        if h == "bin":
            a, c = ev(x[2], b), ev(x[3], b)
            return _OPS[x[1]](a, c)
        if h == "call" and len(x[2]) == 2:
            last = x[1].split("::")[-1]
            m = {"shr": "Shr", "shl": "Shl", "bitand": "BitAnd", "bitor": "BitOr", "bitxor": "BitXor", "add": "Add", "sub": "Sub"}.get(last)
            if m and "std::ops::" in x[1]:
                return _OPS[m](ev(x[2][0], b), ev(x[2][1], b))
        if h == "call" and x[1].split("::")[-1] in ("clone", "deref", "copied") and x[2]:
            return ev(x[2][0], b)
        raise ValueError("cannot evaluate %s" % (x[:2],))
    return lambda b: ev(expr, b)


_OPS = {"Shr": lambda a, c: a >> c, "Shl": lambda a, c: (a << c), "BitAnd": lambda a, c: a & c, "BitOr": lambda a, c: a | c, "BitXor": lambda a, c: a ^ c,
        "Add": lambda a, c: a + c, "Sub": lambda a, c: a - c, "Ne": lambda a, c: int(a != c), "Eq": lambda a, c: int(a == c),
        "Lt": lambda a, c: int(a < c), "Le": lambda a, c: int(a <= c), "Gt": lambda a, c: int(a > c), "Ge": lambda a, c: int(a >= c)}


def accessor_table(u, fn):
    """for an accessor `self.<field>.get(K).map(|b| f(b)).unwrap_or(D)` / `.copied()`: (field, K, [f(0..255)])"""
    b = u.bodies.get(fn)
    if b is None:
        cands = [k for k in u.bodies if mir.norm(k) == fn]
        if len(cands) != 1:
            return None
        b = u.bodies[cands[0]]
    e = sym.expr_local(b, 0)
    if e[0] == "call" and e[1].split("::")[-1] == "is_some_and" and len(e[2]) == 2:
        # `opt.is_some_and(f)` == `opt.map(f).unwrap_or(false)`
        e = ("call", "std::option::Option::unwrap_or", (("call", "std::option::Option::map", (e[2][0], e[2][1]), "std::option::Option::map", 0), ("const", 0, "bool")), "std::option::Option::unwrap_or", 0)
    if not (e[0] == "call" and e[1].split("::")[-1] == "unwrap_or" and len(e[2]) == 2):
        return None
    inner = e[2][0]
    if not (inner[0] == "call" and inner[2]):
        return None
    kind = inner[1].split("::")[-1]
    get = inner[2][0]
    if not (get[0] == "call" and get[1].split("::")[-1] == "get" and len(get[2]) == 2 and get[2][1][0] == "const"):
        return None
    src = get[2][0]
    while src[0] in ("ref",) or (src[0] == "call" and src[1].split("::")[-1] == "deref" and src[2]):
        src = src[1] if src[0] == "ref" else src[2][0]
    if not (src[0] in ("refplace", "load") and str(src[1]).startswith("arg1.")):
        return None
    field, K = src[1][len("arg1."):], get[2][1][1]
    try:
        if kind in ("copied", "cloned"):
            return field, K, list(range(256))
        if kind == "map" and len(inner[2]) == 2 and inner[2][1][0] == "agg" and str(inner[2][1][1]).startswith("closure "):
            cn = [k for k in u.bodies if mir.norm(k) == mir.norm(str(inner[2][1][1])[len("closure "):])]
            if len(cn) != 1:
                return None
            f = _byte_fn(sym.expr_local(u.bodies[cn[0]], 0), 2)
            return field, K, [f(x) for x in range(256)]
    except (ValueError, KeyError):
        return None
    return None


def layout_byte_function(u, expr, param):
    """if the layout expression is a function of accessor calls on `param` that all read the same (field, index): (field, index,
    [value for byte 0..255]); else None"""
    keys = set()

    def ev(x, b):
        h = x[0]
        if h == "lit":
            return int(x[1])
        if h == "mcall" and x[2] == ("param", param) and not x[3]:
            t = accessor_table(u, x[1])
            if t is None:
                raise ValueError("accessor " + x[1])
            keys.add((t[0], t[1]))
            return t[2][b]
        if h == "bin":
            return _OPS[x[1]](ev(x[2], b), ev(x[3], b))
        if h == "if":
            return ev(x[2], b) if ev(x[1], b) else ev(x[3], b)
        if h == "cast":
            return ev(x[2], b)
        if h == "call" and x[1].split("::")[-1] in ("from", "into") and len(x[2]) == 1:
            return ev(x[2][0], b)
        if h == "bool":
            return int(bool(x[1]))
        raise ValueError("node " + str(h))
    try:
        vals = [ev(expr, b) & 0xFF for b in range(256)]
    except (ValueError, KeyError, IndexError):
        return None
    if len(keys) != 1:
        return None
    (field, K), = keys
    return field, K, vals


def hvcc_profile_bytes(prog, run, rule):
    """hvcC byte 1 (general_profile_space(2) tier(1) profile_idc(5)) and byte 12 (general_level_idc) have the same bit layout as the
    first and twelfth byte of the SPS's profile_tier_level(), which starts at SPS NAL byte 3: each must be the identity function of
    that SPS byte.  Decided by evaluating the *extracted* expression (builder + accessor closures) for all 256 byte values."""
    u = prog.lib
    it = L.Interp(u)
    name = "muxer::mp4::build_hvcc_box"
    if name not in u.hir:
        run.bad(rule, "hvcC anchor", "hvcC builder not found")
        return
    pname = u.hir[name]["params"][0]["pat"].get("name", "hevc_config")
    try:
        segs = it.production(name, [("param", pname)])
    except L.Unanalysable as e:
        run.bad(rule, "hvcC unanalysable", str(e))
        return
    body = segs[0][2] if segs and segs[0][0] == "box" else []
    view, _ = B.byte_view(body)
    for off, want_k, what in ((1, 3, "general_profile_space/tier/profile_idc"), (12, 14, "general_level_idc")):
        fv = B.field_value(view, off, 1)
        ex = fv[1][1] if fv[0] == "expr" else None
        res = layout_byte_function(u, ex, pname) if ex is not None else None
        ok = res is not None and res[0] == "sps" and res[1] == want_k and res[2] == list(range(256))
        bad = None
        if res is not None and res[2] != list(range(256)):
            bad = next(i for i in range(256) if res[2][i] != i)
        run.check(ok, rule, "hvcC@%d %s == SPS byte %d" % (off, what, want_k), "identity on all 256 byte values",
                  "hvcC byte %d is not the SPS byte %d bit for bit (%s)" % (off, want_k, ("reads %s[%s]; e.g. SPS byte 0x%02x -> 0x%02x" % (res[0], res[1], bad, res[2][bad])) if (res and bad is not None) else ("reads %s" % (res[:2],) if res else "expression not a function of one SPS byte: %s" % (L.show(ex)[:120] if ex else fv,))))


def hvcc_profile_bytes_init(prog, run, rule):
    """the same two bytes in the fragmented init segment's hvcC: each must be the SPS byte itself (`sps[k]` / `sps.get(k)..unwrap_or(d)`)"""
    from . import c19
    u = prog.lib
    segs = _init(u)
    if segs is None:
        run.bad(rule, "init hvcC anchor", "init-segment production not derivable")
        return
    n = 0
    for (p, b, c) in B.walk_boxes(segs):
        if p[-1] != b"hvcC":
            continue
        for a in B.alternatives(b[2], B.facts_of(c)):
            view, rest = B.byte_view(a)
            n += 1
            for off, want_k, what in ((1, 3, "general_profile_space/tier/profile_idc"), (12, 14, "general_level_idc")):
                fv = B.field_value(view, off, 1)
                src = c19._indexed_byte(fv[1][1]) if fv[0] == "expr" and fv[1][0] == "u8" else None
                ok = src is not None and src[1] == want_k and "sps" in L.field_names(src[0])
                run.check(ok, rule, "init hvcC@%d %s == SPS byte %d" % (off, what, want_k), "the SPS byte itself",
                          "the init segment's hvcC byte %d (%s) is %s, not byte %d of the supplied SPS (ISO/IEC 14496-15 8.3.3.1.2: the general_* fields repeat the stream's profile_tier_level)" %
                          (off, what, ("the constant 0x%s" % fv[1].hex()) if fv[0] == "const" else L.show(fv[1])[:100], want_k))
            break
    if not n:
        run.bad(rule, "init hvcC anchor", "no hvcC box in the init-segment production")


# ---- table-driven fields: the code's match table must be the specification's table -------------------------------------
AAC_SFI = {96000: 0, 88200: 1, 64000: 2, 48000: 3, 44100: 4, 32000: 5, 24000: 6, 22050: 7, 16000: 8, 12000: 9, 11025: 10, 8000: 11, 7350: 12}   # ISO/IEC 14496-3 table 1.18


def switch_table(b, param):
    """{case value: constant assigned} for the first switch on parameter `param` whose every arm assigns a constant to one local"""
    for blk in b["blocks"]:
        t = blk["term"]
        if t["k"] != "switch" or not t.get("arms"):
            continue
        d = sym.expr(b, t["discr"])
        if not (d[0] == "arg" and d[1] == param):
            continue
        out, target = {}, None
        ok = True
        for v, tgt in t["arms"] + [["default", t["otherwise"]]]:
            asg = [st for st in b["blocks"][tgt]["stmts"] if st["k"] == "assign"]
            if len(asg) != 1:
                ok = False
                break
            e = sym.expr_rv(b, asg[0]["rv"])
            if e[0] != "const" or (target not in (None, asg[0]["place"]["l"])):
                ok = False
                break
            target = asg[0]["place"]["l"]
            out[v if v == "default" else int(v)] = e[1]
        if ok:
            return out
    return None


def aac_frequency_index_rule(prog, run, rule):
    u = prog.lib
    fns = [f for f in u.bodies if mir.norm(f).split("::")[-1] == "build_audio_specific_config" and not u.bodies[f]["in_test_cfg"]]
    if len(fns) != 1:
        run.bad(rule, "anchor AudioSpecificConfig", "builder not found")
        return
    tab = switch_table(u.bodies[fns[0]], 1)
    if tab is None:
        run.bad(rule, "AAC samplingFrequencyIndex table", "the sample-rate -> samplingFrequencyIndex mapping is not a match table of constants any more: cannot compare it with ISO/IEC 14496-3 table 1.18 (fail closed)")
        return
    got = {k: v for k, v in tab.items() if k != "default"}
    diff = sorted(k for k in set(got) | set(AAC_SFI) if got.get(k) != AAC_SFI.get(k))
    run.check(not diff, rule, "AAC samplingFrequencyIndex table", "13 standard rates map to the indices of ISO/IEC 14496-3 table 1.18",
              "samplingFrequencyIndex differs from ISO/IEC 14496-3 table 1.18 for %s" % ", ".join("%s Hz: code %s, spec %s" % (k, got.get(k), AAC_SFI.get(k)) for k in diff), mir.loc_of(u.bodies[fns[0]]))


AV1C_BITS = [("seq_tier", 0x80), ("high_bitdepth", 0x40), ("twelve_bit", 0x20), ("monochrome", 0x10), ("chroma_subsampling_x", 0x08), ("chroma_subsampling_y", 0x04)]   # AV1-ISOBMFF 2.3.3


def av1c_flags_rule(prog, run, rule):
    """av1C byte 2: seq_tier_0(1) high_bitdepth(1) twelve_bit(1) monochrome(1) chroma_subsampling_x(1) chroma_subsampling_y(1) chroma_sample_position(2)
    and byte 1: seq_profile(3) seq_level_idx_0(5): evaluated from the extracted builder expression per configuration field, for the
    progressive record and for the init segment's record"""
    u = prog.lib
    it = L.Interp(u)
    name = "muxer::mp4::build_av1c_box"
    if name not in u.hir:
        run.bad(rule, "av1C anchor", "av1C builder not found")
        return
    pname = u.hir[name]["params"][0]["pat"].get("name", "av1_config")
    try:
        segs = it.production(name, [("param", pname)])
    except L.Unanalysable as e:
        run.bad(rule, "av1C unanalysable", str(e))
        return
    body = segs[0][2] if segs and segs[0][0] == "box" else []
    view, _ = B.byte_view(body)
    _av1c_bytes(run, rule, "av1C", view)
    init = _init(u)
    found = False
    for (p, b, c) in (B.walk_boxes(init) if init is not None else []):
        if p[-1] == b"av1C":
            for a in B.alternatives(b[2], B.facts_of(c)):
                v2, _r = B.byte_view(a)
                _av1c_bytes(run, rule, "init av1C", v2)
                found = True
                break
    if not found:
        run.bad(rule, "init av1C anchor", "no av1C box in the init-segment production")


def _av1c_bytes(run, rule, label, view):
    bases = []

    def ev(x, env):
        h = x[0]
        if h == "lit":
            return int(x[1])
        if h == "bool":
            return int(bool(x[1]))
        if h == "field":
            if x[1] not in bases:
                bases.append(x[1])
            return env.get(x[2], 0)
        if h == "bin":
            return _OPS[x[1]](ev(x[2], env), ev(x[3], env))
        if h == "if":
            return ev(x[2], env) if ev(x[1], env) else ev(x[3], env)
        if h == "cast":
            return ev(x[2], env)
        if h == "call" and x[1].split("::")[-1] in ("from", "into") and len(x[2]) == 1:
            return ev(x[2][0], env)
        raise ValueError("node %s" % (h,))
    for off, fields in ((2, AV1C_BITS + [("chroma_sample_position", None)]), (1, [("seq_profile", None), ("seq_level_idx", None)])):
        fv = B.field_value(view, off, 1)
        ex = fv[1][1] if fv[0] == "expr" else None
        if ex is None:
            run.bad(rule, "%s@%d" % (label, off), "byte %d of %s is not a computed value: %s" % (off, label, fv))
            continue
        try:
            if off == 2:
                for fname, mask in AV1C_BITS:
                    got = ev(ex, {fname: 1}) & 0xFF
                    run.check(got == mask, rule, "%s@2 %s" % (label, fname), "sets exactly bit 0x%02x" % mask, "configuration field `%s` alone sets %s byte 2 to 0x%02x, the specification puts it at 0x%02x" % (fname, label, got, mask))
                got = [ev(ex, {"chroma_sample_position": v}) & 0xFF for v in range(4)]
                run.check(got == [0, 1, 2, 3], rule, "%s@2 chroma_sample_position" % label, "low two bits", "chroma_sample_position 0..3 gives %s, expected [0, 1, 2, 3]" % got)
                got0 = ev(ex, {}) & 0xFF
                run.check(got0 == 0, rule, "%s@2 all-zero configuration" % label, "0x00", "an all-zero configuration gives byte 2 = 0x%02x" % got0)
            else:
                got = [(p, l, ev(ex, {"seq_profile": p, "seq_level_idx": l}) & 0xFF) for p in range(8) for l in range(32)]
                bad = [(p, l, g) for (p, l, g) in got if g != ((p << 5) | l)]
                run.check(not bad, rule, "%s@1 seq_profile/seq_level_idx_0" % label, "(profile << 5) | level for all 256 combinations", "%s byte 1 for profile %s level %s is 0x%02x" % ((label,) + bad[0]) if bad else "")
        except (ValueError, KeyError) as e:
            run.bad(rule, "%s@%d evaluable" % (label, off), "cannot evaluate the extracted expression: %s" % e)
    run.check(len(bases) == 1, rule, "%s one configuration" % label, "all fields are read from one parsed configuration", "the record's fields are read from %d different values" % len(bases))



def av1_reader_rule(prog, run, rule):
    """The parser's *read program* (syntax-directed transcription of parse_sequence_header and the parsers it hands the bit reader
    to, from typed HIR) is compared with a transcription of the specification's syntax tables: for every enumerated combination of
    the syntax elements that steer the syntax (flags, profile, counts, lengths), both programs must read the same sequence of bit
    widths and produce the same configuration values.  Scenarios are enumerated per syntax section with the other sections at
    two default settings."""
    from .. import bitreader as BR
    u = prog.lib
    name = "codec::av1::parse_sequence_header"
    if name not in u.hir:
        run.bad(rule, "anchor AV1 sequence header parser", "parser not found")
        return
    try:
        code = BR.Extractor(u).extract(name)
    except (BR.Unsupported, KeyError, IndexError, TypeError) as e:
        run.bad(rule, "AV1 parser extraction", "cannot transcribe the parser into a read program (%s: %s): fail closed" % (type(e).__name__, e))
        return
    nreads = sum(1 for _ in _walk_nodes(code) if _[0] == "rd")
    run.floor(rule, nreads, 50, "bit reads in the extracted AV1 sequence-header program")
    spec, cands = BR.av1_sequence_header_spec()
    fields = ["seq_profile", "seq_level_idx", "seq_tier", "high_bitdepth", "twelve_bit", "monochrome", "chroma_subsampling_x", "chroma_subsampling_y", "chroma_sample_position"]

    def mono(sc):
        return sc.get("mono_chrome") == 1 and sc.get("seq_profile") != 1
    total = 0
    for label, keep in (("colour streams", lambda sc: not mono(sc)), ("monochrome streams", mono)):
        try:
            n, mm = BR.compare(code, spec, cands, fields, keep=keep)
        except (BR.Unsupported, KeyError, TypeError) as e:
            run.bad(rule, "AV1 parser evaluation (%s)" % label, "cannot evaluate the extracted read program: %s" % e)
            continue
        total += n
        if mm is None:
            run.ok(rule, "AV1 sequence header == spec syntax (%s)" % label, "%d syntax paths: same widths, same values" % n)
        else:
            run.bad(rule, "AV1 sequence header (%s): %s" % (label, mm["what"]), "on the syntax path %s the parser deviates from the specification: %s" % (
                {k: v for k, v in mm["scenario"].items() if v}, mm["what"]), mir.loc_of(u.bodies[name]) if name in u.bodies else None)
    run.extra["av1_syntax_paths_compared"] = total


# ---- R14: the OBU header --------------------------------------------------------------------------------------------------------
def obu_header_rule(prog, run, rule):
    """AV1 5.3.1 / 5.3.2: obu_forbidden_bit(1) obu_type(4) obu_extension_flag(1) obu_has_size_field(1) obu_reserved_1bit(1), an extension
    byte iff the flag is set, then leb128(obu_size) iff has_size.  `parse_obu_header` is tabulated for all 256 header bytes, with a
    one- and a two-byte leb128 size and without size field; it must report the type, the extension flag, the offset of the payload
    and the payload size the specification prescribes, and refuse exactly the headers with the forbidden bit (well-formed inputs
    of sufficient length; reserved bit 0 and 1 both accepted by the specification's syntax)."""
    from .. import minieval as E
    u = prog.lib
    fns = [k for k in u.bodies if mir.norm(k) == "codec::av1::parse_obu_header" and not u.bodies[k]["in_test_cfg"]]
    if len(fns) != 1:
        run.bad(rule, "anchor parse_obu_header", "OBU header parser not found")
        return
    n = 0
    bad = None
    try:
        for b0 in range(256):
            ext, has_size = (b0 >> 2) & 1, (b0 >> 1) & 1
            for leb, size in (([0x05], 5), ([0x85, 0x01], 133)):
                data = [b0] + ([0x00] if ext else []) + (leb if has_size else []) + [0xAB] * 140
                m = E.Machine(u)
                m.lenient = True
                r = m.call_fn(fns[0], [E.Bytes(dict(enumerate(data)), exact=len(data))])
                n += 1
                if not (isinstance(r, E.Adt) and r.name == "Option"):
                    raise E.Unsupported("result outside the model: %r" % (r,))
                if b0 & 0x80:
                    want = None
                else:
                    hs = 1 + ext + (len(leb) if has_size else 0)
                    ps = size if has_size else len(data) - 1 - ext
                    want = {"obu_type": (b0 >> 3) & 0xF, "has_extension": ext, "header_size": hs, "payload_size": ps, "total_size": hs + ps}
                got = None
                if r.variant == 1 and isinstance(r.fields[0], E.Adt) and r.fields[0].names:
                    got = {k_: r.fields[0].get(k_) for k_ in r.fields[0].names}
                if want is None:
                    ok = got is None
                else:
                    ok = got is not None and all(got.get(k_) == v_ for k_, v_ in want.items())
                if not ok and bad is None:
                    bad = (b0, has_size, size, got, want)
    except E.Unsupported as ex:
        run.bad(rule, "OBU header table", "cannot tabulate parse_obu_header (fail closed): %s" % ex)
        return
    run.check(bad is None, rule, "OBU header table", "type / extension / payload offset / payload size as in AV1 5.3 for all 256 header bytes (2 size encodings)",
              "" if bad is None else "OBU header byte 0x%02x (%s): parse_obu_header gives %s, AV1 5.3.1-5.3.2 prescribes %s" % (bad[0], ("obu_size %d" % bad[2]) if bad[1] else "no size field", bad[3], bad[4]),
              mir.loc_of(u.bodies[fns[0]]))
    run.floor(rule, n, 512, "OBU header evaluations")


def leb128_rule(prog, run, rule):
    """AV1 4.10.5 leb128(): value = sum of (byte & 0x7f) << 7i over the bytes up to and including the first one without the top bit; at most
    8 bytes; the encoding may be padded with zero groups (`8C 80 80 00` is 12: encoders with fixed-width size fields write that).
    `read_leb128` is tabulated over every byte string of length 1..4 over {00, 01, 7F, 80, 81, FF} and over padded 5..8-byte forms:
    (value, length) as the specification computes them, None iff the string ends before a terminating byte."""
    from .. import minieval as E
    import itertools
    u = prog.lib
    fns = [k for k in u.bodies if mir.norm(k) == "codec::av1::read_leb128" and not u.bodies[k]["in_test_cfg"]]
    if len(fns) != 1:
        run.bad(rule, "anchor read_leb128", "LEB128 reader not found")
        return
    alpha = (0x00, 0x01, 0x7F, 0x80, 0x81, 0xFF)
    cases = [list(t) for n_ in range(1, 5) for t in itertools.product(alpha, repeat=n_)]
    for k in range(4, 8):
        cases.append([0x80] * k + [0x00])
        cases.append([0x85] + [0x80] * (k - 1) + [0x00])
        cases.append([0xFF] * k + [0x7F])
    n = 0
    bad = None
    try:
        for data in cases:
            want = None
            val = 0
            for i, b in enumerate(data[:8]):
                val |= (b & 0x7F) << (7 * i)
                if not b & 0x80:
                    want = (val & 0xFFFFFFFFFFFFFFFF, i + 1)
                    break
            m = E.Machine(u)
            m.lenient = True
            r = m.call_fn(fns[0], [E.Bytes(dict(enumerate(data + [0xAA] * 0)), exact=len(data))])
            n += 1
            if not (isinstance(r, E.Adt) and r.name == "Option"):
                raise E.Unsupported("result outside the model: %r" % (r,))
            got = None
            if r.variant == 1:
                pl = r.fields[0]
                got = tuple(pl) if isinstance(pl, tuple) else (tuple(pl.fields) if isinstance(pl, E.Adt) else pl)
            if got != want and bad is None:
                bad = (data, got, want)
    except E.Unsupported as ex:
        run.bad(rule, "leb128 table", "cannot tabulate read_leb128 (fail closed): %s" % ex)
        return
    run.check(bad is None, rule, "leb128 table", "(value, length) as AV1 4.10.5 computes them, padded encodings included (%d byte strings)" % n,
              "" if bad is None else "read_leb128(%s) gives %s, AV1 4.10.5 gives %s" % (" ".join("%02X" % b for b in bad[0]), bad[1], bad[2]), mir.loc_of(u.bodies[fns[0]]))
    run.floor(rule, n, 1500, "byte strings evaluated")


def av1_seq_position_rule(prog, run, rule):
    """An AV1 temporal unit may carry temporal-delimiter, metadata, padding (and, for a later unit, frame) OBUs before its sequence
    header (AV1 7.5 only orders it before the first frame header).  `extract_av1_config` is tabulated by finite-domain interpretation
    of its MIR on units [prefix OBUs..., sequence header, frame] for every prefix of at most two OBUs drawn from {temporal delimiter,
    metadata, padding, tile list} with and without extension byte, and on the same units without sequence header: it must hand
    exactly the sequence-header OBU (its bytes from its own header on, and its header size) to the sequence-header parser, and
    report `None` iff there is none.  (Model: the sequence-header parser is replaced by a recorder; ObuIter and the OBU header
    parser are interpreted - R14 decides the header table.)"""
    from .. import minieval as E
    import itertools
    u = prog.lib
    fns = [k for k in u.bodies if mir.norm(k) == "codec::av1::extract_av1_config" and not u.bodies[k]["in_test_cfg"]]
    psh = [k for k in u.bodies if mir.norm(k) == "codec::av1::parse_sequence_header" and not u.bodies[k]["in_test_cfg"]]
    if len(fns) != 1 or len(psh) != 1:
        run.bad(rule, "anchor extract_av1_config", "AV1 configuration extractor / sequence-header parser not found")
        return

    def obu(t, payload, ext=False):
        return [(t << 3) | (4 if ext else 0) | 2] + ([0x00] if ext else []) + [len(payload)] + list(payload)
    seq_payload = [0x0A, 0x0B, 0x0C]
    prefixes = [()]
    kinds = [(2, []), (5, [0x01, 0x02]), (15, [0x00, 0x00, 0x00]), (8, [0x07])]
    for k in kinds:
        for e in (False, True):
            prefixes.append(((k, e),))
    for a, b in itertools.product(kinds, kinds):
        prefixes.append(((a, False), (b, False)))
    n = 0
    bad = None
    bad2 = None
    try:
        for pre in prefixes:
            for with_seq in (True, False):
                for seq_ext in (False, True):
                    data = []
                    for (t, pl), e in pre:
                        data += obu(t, pl, e)
                    seq_at = len(data)
                    if with_seq:
                        data += obu(1, seq_payload, seq_ext)
                    data += obu(6, [0x33, 0x44, 0x55, 0x66])
                    seen = []

                    def rec(m_, args, depth, seen=seen):
                        seen.append(args)
                        return E.some(E.Adt("Av1Config", 0, [7], ["marker"]))
                    m = E.Machine(u, models={"codec::av1::parse_sequence_header": rec})
                    m.lenient = True
                    r = m.call_fn(fns[0], [E.Bytes(dict(enumerate(data)), exact=len(data))])
                    n += 1
                    if not (isinstance(r, E.Adt) and r.name == "Option"):
                        raise E.Unsupported("result outside the model: %r" % (r,))
                    if with_seq:
                        ok = r.variant == 1 and len(seen) == 1
                        if ok:
                            a0, a1 = seen[0][0], seen[0][1]
                            hs = 2 + (1 if seq_ext else 0)
                            want_b = obu(1, seq_payload, seq_ext)
                            ok = isinstance(a0, E.Bytes) and a1 == hs and [a0.known.get(i_) for i_ in range(len(want_b))] == want_b and a0.minlen >= len(want_b)
                    else:
                        ok = r.variant == 0 and not seen
                    if not ok and bad is None:
                        bad = ([("%d%s" % (t, "+ext" if e else "")) for (t, pl), e in pre], with_seq, r.variant, [([x[0].known.get(i_) for i_ in range(6)] if isinstance(x[0], E.Bytes) else x[0], x[1]) for x in seen])
            # two sequence headers in one unit: the first one is the stream's configuration.  If it parses, it is the one stored; if the
            # parser refuses it, the unit is refused (None) - a later header must not silently stand in for a malformed first one.
            for first_parses in (True, False):
                data = []
                for (t, pl), e in pre:
                    data += obu(t, pl, e)
                first = obu(1, seq_payload)
                data += first + obu(1, [0x1A, 0x1B, 0x1C, 0x1D]) + obu(6, [0x33, 0x44, 0x55, 0x66])
                seen = []

                def rec2(m_, args, depth, seen=seen, first_parses=first_parses):
                    seen.append(args)
                    if len(seen) == 1 and not first_parses:
                        return E.none()
                    return E.some(E.Adt("Av1Config", 0, [len(seen)], ["marker"]))
                m = E.Machine(u, models={"codec::av1::parse_sequence_header": rec2})
                m.lenient = True
                r = m.call_fn(fns[0], [E.Bytes(dict(enumerate(data)), exact=len(data))])
                n += 1
                if not (isinstance(r, E.Adt) and r.name == "Option"):
                    raise E.Unsupported("result outside the model: %r" % (r,))
                ok = len(seen) == 1 and isinstance(seen[0][0], E.Bytes) and [seen[0][0].known.get(i_) for i_ in range(len(first))] == first and r.variant == (1 if first_parses else 0)
                if not ok and bad2 is None:
                    bad2 = ([("%d%s" % (t, "+ext" if e else "")) for (t, pl), e in pre], first_parses, r.variant, len(seen))
    except E.Unsupported as ex:
        run.bad(rule, "AV1 sequence header position", "cannot tabulate extract_av1_config (fail closed): %s" % ex)
        return
    run.check(bad is None, rule, "AV1 sequence header position", "found after any leading temporal-delimiter / metadata / padding / tile-list OBUs; None iff absent (%d units)" % n,
              "" if bad is None else "temporal unit with leading OBU types %s %s a sequence header: extract_av1_config returns %s and hands the parser %s" % (
                  bad[0], "and" if bad[1] else "without", "Some" if bad[2] else "None", bad[3] or "nothing"), mir.loc_of(u.bodies[fns[0]]))
    run.check(bad2 is None, rule, "AV1 first sequence header wins", "of two sequence headers in a unit the first is the one parsed and stored; when the parser refuses it the unit is refused",
              "" if bad2 is None else "unit with leading OBU types %s and two sequence headers, the first of which %s: extract_av1_config returns %s after %d parser call(s) - the stream's first sequence header is not the configuration source" % (
                  bad2[0], "parses" if bad2[1] else "is refused by the parser", "Some" if bad2[2] else "None", bad2[3]), mir.loc_of(u.bodies[fns[0]]))
    run.floor(rule, n, 120, "temporal units evaluated")



# ---- R17: the records carry the stored parameter sets themselves -------------------------------------------------------------------
_IDENTITY_VIEWS = ("as_slice", "clone", "to_vec", "as_ref", "deref", "to_owned", "borrow", "as_deref")


def _pure_field_path(e):
    """the field name a byte blob is taken from when it is nothing but a place of the configuration (field / enum payload / parameter
    chains, through identity views such as as_slice / clone); None when anything computes the bytes"""
    last = None
    while isinstance(e, tuple) and e:
        if e[0] == "field":
            last = last or e[2]
            e = e[1]
        elif e[0] == "payload":
            e = e[1]
        elif e[0] == "mcall" and str(e[1]).split("::")[-1] in _IDENTITY_VIEWS:
            e = e[2]
        elif e[0] in ("ref", "deref") and len(e) == 2:
            e = e[1]
        elif e[0] == "param":
            return last
        else:
            return None
    return None


def paramsets_written_verbatim(prog, run, rule):
    from . import c19
    u = prog.lib
    it = L.Interp(u)
    n = 0
    for r in c19.roots(u, it):
        try:
            segs = L.norm_segs(it.production(r))
        except L.Unanalysable as e:
            run.bad(rule, "unanalysable %s" % r, "layout interpreter cannot derive this producer (fail closed): %s" % e)
            continue
        for (path, box, cond) in B.walk_boxes(segs):
            fc = path[-1]
            if fc not in (b"avcC", b"hvcC"):
                continue
            n += 1
            key = "%s %s" % (r.split("::")[-1], B.fc_str(fc))
            tail = c19._after(box[2], 6 if fc == b"avcC" else 23)
            flat = []
            for sg in tail or []:
                if sg[0] == "alt" and not sg[3]:
                    flat += list(sg[2])
                else:
                    flat.append(sg)
            blobs = [sg for sg in flat if sg[0] not in ("c", "be")]
            names = [_pure_field_path(sg[1]) if sg[0] == "blob" else None for sg in blobs]
            want = ["sps", "pps"] if fc == b"avcC" else ["vps", "sps", "pps"]
            good = tail is not None and None not in names and names == want[-len(names):] and len(names) >= 2
            run.check(good, rule, key, "NAL blobs are the configuration's %s fields themselves" % "/".join(names if good else want),
                      "the %s record does not carry the stored parameter sets verbatim: its variable part is %s (expected the configuration's %s fields, untransformed)" % (
                          B.fc_str(fc), ", ".join(L.show(sg)[:90] for sg in blobs)[:300] or "not derivable", "/".join(want)))
    run.floor(rule, n, 4, "avcC / hvcC productions")


# ---- R13: which NAL unit goes into which parameter-set slot ------------------------------------------------------------------------
PS_CODECS = {"codec::h264::extract_avc_config": (lambda b: b & 0x1F, {"sps": 7, "pps": 8}),
             "codec::h265::extract_hevc_config": (lambda b: (b >> 1) & 0x3F, {"vps": 32, "sps": 33, "pps": 34})}


def parameter_set_table_rule(prog, run, rule):
    """For all 256 values of a NAL unit's header byte, the unit is stored in the slot the codec specification assigns to its type
    (H.264 7.3.1: nal_unit_type = b & 0x1F, 7 = SPS, 8 = PPS; H.265 7.3.1.2: (b >> 1) & 0x3F, 32/33/34 = VPS/SPS/PPS), in no
    other slot, and a later unit of the same type never replaces it (first wins).  The extractors are tabulated by finite-domain
    interpretation of their MIR on frames [unit under test, one canonical unit per slot] and [canonical units, unit under test]
    (model: AnnexBNalIter yields the frame's units - C14; `to_vec` keeps the unit's identity)."""
    from .. import minieval as E
    u = prog.lib
    n = 0
    for fn_name, (type_of, slots_) in sorted(PS_CODECS.items()):
        cands = [k for k in u.bodies if mir.norm(k) == fn_name and not u.bodies[k]["in_test_cfg"]]
        if len(cands) != 1:
            run.bad(rule, "anchor %s" % fn_name, "extractor not found")
            continue
        ex = cands[0]
        canon = {nm: [({7: 0x67, 8: 0x68, 32: 0x40, 33: 0x42, 34: 0x44}[t]), 0xC0 + t, 0x11] for nm, t in slots_.items()}
        bad = None
        try:
            for b in range(256):
                for first in (True, False):
                    test = [b, 0xEE, 0xDD]
                    order = sorted(slots_, key=lambda x: slots_[x])
                    units = ([test] if first else []) + [canon[s_] for s_ in order] + ([] if first else [test])
                    fr = E.Bytes([0, 0, 0, 1, units[0][0]], minlen=5 * len(units), tag="frame")
                    fr.nals = [E.Bytes(x, minlen=len(x), tag="nal%d" % i, exact=len(x)) for i, x in enumerate(units)]
                    m = E.Machine(u, models={"codec::common::AnnexBNalIter::new": lambda m_, a, d: E.OnceIter(list(getattr(a[0], "nals", [])))})
                    m.pred_models.append((lambda nn: "AnnexBNalIter" in nn and nn.endswith("::next"), E._next))
                    m.lenient = True
                    r = m.call_fn(ex, [fr])
                    n += 1
                    if isinstance(r, E.Adt) and r.name == "Option" and r.variant == 0:
                        if bad is None:
                            bad = (b, first, "*", None, -1, type_of(b))
                        continue
                    if not (isinstance(r, E.Adt) and r.name == "Option" and r.variant == 1 and isinstance(r.fields[0], E.Adt) and r.fields[0].names):
                        raise E.Unsupported("result outside the model for header byte 0x%02x: %r" % (b, r))
                    cfg = r.fields[0]
                    ti = 0 if first else len(units) - 1
                    for s_ in order:
                        got = cfg.get(s_)
                        idx = next((i for i, x in enumerate(fr.nals) if x is got), None)
                        want = ti if (first and type_of(b) == slots_[s_]) else (order.index(s_) + (1 if first else 0))
                        if idx != want and bad is None:
                            bad = (b, first, s_, idx, want, type_of(b))
        except E.Unsupported as e:
            run.bad(rule, "parameter-set table %s" % fn_name.split("::")[-1], "cannot tabulate the extractor (fail closed): %s" % e, mir.loc_of(u.bodies[ex]))
            continue
        run.check(bad is None, rule, "parameter-set table %s" % fn_name.split("::")[-1], "every header byte: unit stored in the slot of its type only, first unit of a type wins (256 x 2 frames)",
                  "" if bad is None else (("a frame that contains every parameter set plus a NAL unit with header byte 0x%02x (type %d) placed %s yields no configuration at all: such a first keyframe is rejected as `missing parameter sets`" % (bad[0], bad[5], "first" if bad[1] else "last")) if bad[4] == -1 else
                                          "a NAL unit with header byte 0x%02x (type %d) placed %s: slot `%s` holds unit #%s of the frame, the specification's unit is #%d" % (bad[0], bad[5], "first" if bad[1] else "last", bad[2], bad[3], bad[4])), mir.loc_of(u.bodies[ex]))
    run.floor(rule, n, 1024, "extractor evaluations")


# ---- R12: the bit reader the AV1 parser is written against --------------------------------------------------------------------------
def bitreader_primitives_rule(prog, run, rule):
    """R9 compares the sequence-header *read program* with the specification and treats the reader's primitives as given.  Here the
    primitives are tabulated by finite-domain interpretation of their MIR (lib/mx/minieval.py):
    read_bit for every byte value x every bit position (and at the end of the data), read_bits / skip_bits for every count 0..65
    (MSB first, position advances by the count, more than 64 bits refused), and the uvlc helper for 0..31 leading zeros
    (AV1 4.10.3: leadingZeros zero bits, a one bit, leadingZeros value bits => 2*lz+1 bits consumed) and for 32 (no value bits)."""
    from .. import minieval as E
    u = prog.lib
    adts = [k for k, a in u.adts.items() if k.startswith("codec::av1::") and a.get("kind") == "Struct" and
            sorted(f["name"] for f in a["variants"][0]["fields"]) == ["bit_pos", "byte_pos", "data"]]
    if len(adts) != 1:
        run.bad(rule, "anchor BitReader", "bit reader type not found")
        return
    adt = adts[0]
    names = [f["name"] for f in u.adts[adt]["variants"][0]["fields"]]
    methods = {}
    for k, b in u.bodies.items():
        if b["in_test_cfg"] or b.get("kind") == "Closure":
            continue
        n = mir.norm(k)
        if n.startswith(mir.norm(adt) + "::"):
            # by signature, so that renaming the private methods does not lose the anchor
            tys = [b["locals"][i]["ty"] for i in range(1, b["argc"] + 1)]
            ret = b["locals"][0]["ty"]
            if len(tys) == 1 and tys[0].startswith("&mut") and ret == "std::option::Option<bool>":
                methods["read_bit"] = k
            elif len(tys) == 2 and tys[0].startswith("&mut") and tys[1] == "usize" and ret == "std::option::Option<u64>":
                methods["read_bits"] = k
            elif len(tys) == 2 and tys[0].startswith("&mut") and tys[1] == "usize" and ret == "std::option::Option<()>":
                methods["skip_bits"] = k
    uv = [k for k, b in u.bodies.items() if not b["in_test_cfg"] and b["argc"] == 1 and "BitReader" in b["locals"][1]["ty"] and b["locals"][0]["ty"].startswith("std::option::Option<") and
          mir.norm(k).startswith("codec::av1::") and not mir.norm(k).startswith("codec::av1::BitReader::") and b.get("kind") != "Closure" and
          k in u.hir and BR._has_open_loop(u.hir[k]["body"])]      # the helper with a `loop`/`while` over read_bit: the variable-length code
    need = ("read_bit", "read_bits", "skip_bits")
    if any(m_ not in methods for m_ in need) or len(uv) != 1 or sorted(names) != ["bit_pos", "byte_pos", "data"]:
        run.bad(rule, "anchor BitReader methods", "expected read_bit/read_bits/skip_bits on a {data, byte_pos, bit_pos} reader and one uvlc helper (found methods %s, helpers %s, fields %s)" % (sorted(methods), [mir.norm(x) for x in uv], names))
        return

    def rd(data, pos=0):
        vals = {"data": E.Bytes(dict(enumerate(data)), exact=len(data)), "byte_pos": pos // 8, "bit_pos": pos % 8}
        return E.Adt(adt, 0, [vals[n_] for n_ in names], names)

    def pos_of(r):
        return r.get("byte_pos") * 8 + r.get("bit_pos")

    def opt(v):
        return ("none",) if isinstance(v, E.Adt) and v.name == "Option" and v.variant == 0 else (("some", v.fields[0]) if isinstance(v, E.Adt) and v.name == "Option" else ("?", v))
    n = 0
    try:
        bad = None
        for v in range(256):
            for k in range(8):
                r = rd([v, 0x5A], k)
                got = opt(E.Machine(u).call_fn(methods["read_bit"], [r]))
                n += 1
                if got != ("some", (v >> (7 - k)) & 1) or pos_of(r) != k + 1:
                    bad = bad or "read_bit on byte 0x%02x at bit %d returns %s and moves to bit %s (want %d, %d)" % (v, k, got, pos_of(r), (v >> (7 - k)) & 1, k + 1)
        r = rd([0xFF], 8)
        if opt(E.Machine(u).call_fn(methods["read_bit"], [r])) != ("none",):
            bad = bad or "read_bit past the end of the data does not return None"
        run.check(bad is None, rule, "read_bit", "bit (7 - bit_pos) of data[byte_pos], MSB first, position + 1, None at the end (256 x 8 states)", bad or "", mir.loc_of(u.bodies[methods["read_bit"]]))
        pattern = [0xA5, 0x3C, 0xF0, 0x0F, 0x96, 0x69, 0x81, 0x7E, 0xC3, 0x55]
        bits = "".join("{:08b}".format(x) for x in pattern)
        bad = None
        for start in (0, 3):
            for cnt in range(0, 66):
                r = rd(pattern, start)
                got = opt(E.Machine(u).call_fn(methods["read_bits"], [r, cnt]))
                n += 1
                want = ("none",) if cnt > 64 else ("some", int(bits[start:start + cnt] or "0", 2))
                if got != want or (cnt <= 64 and pos_of(r) != start + cnt):
                    bad = bad or "read_bits(%d) at bit %d returns %s, position %s (want %s, position %d)" % (cnt, start, got, pos_of(r), want, start + cnt)
                r = rd(pattern, start)
                got = opt(E.Machine(u).call_fn(methods["skip_bits"], [r, cnt]))
                n += 1
                if got[0] != "some" or pos_of(r) != start + cnt:
                    bad = bad or "skip_bits(%d) at bit %d ends at bit %s (%s)" % (cnt, start, pos_of(r), got[0])
        run.check(bad is None, rule, "read_bits / skip_bits", "MSB-first value of the next n bits, position + n, n > 64 refused (n = 0..65, two alignments)", bad or "", mir.loc_of(u.bodies[methods["read_bits"]]))
        bad = None
        for lz in range(0, 33):
            s_ = "0" * lz + "1" + "1" * lz + "1" * 24
            s_ += "0" * ((8 - len(s_) % 8) % 8)
            r = rd([int(s_[i:i + 8], 2) for i in range(0, len(s_), 8)])
            got = opt(E.Machine(u).call_fn(uv[0], [r]))
            n += 1
            want_pos = 2 * lz + 1 if lz < 32 else lz + 1
            if got[0] != "some" or pos_of(r) != want_pos:
                bad = bad or "uvlc with %d leading zeros consumes %s bits (%s), AV1 4.10.3 prescribes %d" % (lz, pos_of(r), got[0], want_pos)
        run.check(bad is None, rule, "uvlc", "leadingZeros zeros, a one, leadingZeros value bits (none for 32): lz = 0..32", bad or "", mir.loc_of(u.bodies[uv[0]]))
    except E.Unsupported as ex:
        run.bad(rule, "bit reader tabulation", "cannot tabulate the bit reader (fail closed): %s" % ex)
    run.floor(rule, n, 2000, "bit-reader evaluations")


# ---- R11: bit fields packed into one byte ---------------------------------------------------------------------------------------
def bitfield_rule(prog, run, rule):
    """Byte-oriented header parsers (VP9: frame-header byte, colour-configuration byte) take several fields out of one byte with
    `(byte >> s) & m`.  Fields taken from the same byte in the same function must occupy non-empty, pairwise disjoint bit ranges:
    an empty range is a field that is constant by construction, an overlap reads one header bit as two fields (bit-level
    counterpart of R10).  The field semantics themselves have no external specification and are not decided."""
    u = prog.lib
    n = 0
    for f, b in sorted(u.bodies.items()):
        if b["in_test_cfg"] or not mir.norm(f).startswith("codec::vp9::"):
            continue
        groups = {}
        for blk in b["blocks"]:
            if blk.get("cleanup"):
                continue
            for st in blk["stmts"]:
                if st["k"] != "assign":
                    continue
                e = sym.expr_rv(b, st["rv"])
                for t in sym.walk(e):
                    if not (isinstance(t, tuple) and t and t[0] == "bin" and t[1] == "BitAnd" and t[3][0] == "const" and isinstance(t[3][1], int)):
                        continue
                    x, m, sh = t[2], t[3][1], 0
                    if x[0] == "bin" and x[1] == "Shr" and x[3][0] == "const" and isinstance(x[3][1], int):
                        x, sh = x[2], x[3][1]
                    if not (x[0] == "load" and len(x) > 3 and x[2] == "u8"):
                        continue
                    bits = frozenset(sh + k for k in range(8) if (m >> k) & 1 and sh + k < 8)
                    if any((m >> k) & 1 and sh + k >= 8 for k in range(8)) and bits:
                        # the mask asks for more bits than the byte has left after the shift: the field is narrower than declared
                        bits = frozenset()
                    groups.setdefault((x[1], x[3]), {})[(sh, m)] = (bits, mir.loc_of(st))
        for (path, idx), fields in sorted(groups.items(), key=repr):
            items = sorted(fields.items())
            for (sh, m), (bits, loc) in items:
                n += 1
                others = [(o, ob) for (o, (ob, _l)) in items if o != (sh, m) and ob & bits]
                key = "bit field %s byte[%s] >>%d &0x%02x" % (mir.norm(f).split("::")[-1], sym.show(idx[0])[:30] if idx else "?", sh, m)
                run.check(bool(bits) and not others, rule, key, "bits %s, disjoint from the other fields of that byte" % sorted(bits),
                          ("`(byte >> %d) & 0x%02x` selects no bit of the byte, or asks for bits the byte does not have after the shift: the field is not what the mask declares" % (sh, m)) if not bits else
                          "`(byte >> %d) & 0x%02x` (bits %s) overlaps %s taken from the same byte: one header bit is read as two fields" % (sh, m, sorted(bits), ["(>>%d &0x%02x)" % o for o, _ in others]), loc)
    run.floor(rule, n, 6, "bit fields extracted from header bytes (VP9)")


# ---- R10: cursor discipline of offset-passing header parsers -------------------------------------------------------------------
def _cursor_readers(u):
    """local non-test functions `f(&[u8], usize, ..)`: {path: (slice param index, cursor param index, returns_cursor)} where returns_cursor
    means the return type is Option/Result of a tuple with exactly one usize component (value(s), next offset)"""
    out = {}
    for f, b in u.bodies.items():
        if b["in_test_cfg"] or b.get("kind") == "Closure":
            continue
        tys = [b["locals"][i]["ty"] for i in range(1, b["argc"] + 1)]
        if tys.count("usize") != 1 or not any(t in ("&[u8]", "&mut [u8]") for t in tys):
            continue
        ret = b["locals"][0]["ty"]
        inner = ret[ret.find("<(") + 2:ret.rfind(")>")] if "<(" in ret and ")>" in ret else None
        comps = [c.strip() for c in inner.split(",")] if inner else []
        out[f] = (tys.index("&[u8]") if "&[u8]" in tys else tys.index("&mut [u8]"), tys.index("usize"), comps.count("usize") == 1 and len(comps) >= 2)
    return out


def cursor_chain_rule(prog, run, rule):
    """An offset-passing parser reads consecutive fields: each read that returns `(value, next_offset)` hands the position after
    the bytes it consumed to the next read.  Abstractly interpreting the caller (worklist over (block, provenance of every usize /
    result local, last cursor-returning read); no values), every read must start at `next_offset(last read) + k`, k >= 0.  A read
    that starts from an older cursor re-reads bytes another field was taken from - the fields it yields are not those of the
    header (necessary condition of 'profile, bit depth and colour fields of the first VP9 keyframe'; the field semantics
    themselves are not decided: the crate's VP9 header layout has no external specification to compare with)."""
    u = prog.lib
    readers = _cursor_readers(u)
    nsites = 0
    for f, b in sorted(u.bodies.items()):
        if b["in_test_cfg"]:
            continue
        sites = [i for i, blk in enumerate(b["blocks"]) if blk["term"]["k"] == "call" and mir.callee(blk["term"])[0] in readers]
        if len(sites) < 2 or not any(readers[mir.callee(b["blocks"][i]["term"])[0]][2] for i in sites):
            continue
        nsites += len(sites)
        bad = _cursor_walk(b, readers)
        ords = {}
        for i in sites:
            t = b["blocks"][i]["term"]
            name = mir.norm(mir.callee(t)[0]).split("::")[-1]
            ords[i] = "%s#%d" % (name, sum(1 for j in sites if j <= i and mir.norm(mir.callee(b["blocks"][j]["term"])[0]).split("::")[-1] == name))
        for i in sites:
            t = b["blocks"][i]["term"]
            why = bad.get(i)
            run.check(why is None, rule, "cursor chain %s %s" % (mir.norm(f).split("::")[-1], ords[i]), "starts at the offset returned by the read before it (+k) on every path",
                      "" if why is None else "in %s the read %s (line %s) starts at %s although the read %s (line %s) was performed since: the bytes that read consumed are read again as a different field, so the values parsed from here on are not the header's"
                      % (mir.norm(f), ords[i], t["span"]["line"], _prov_str(b, ords, why[0]), ords.get(why[1], "?"), b["blocks"][why[1]]["term"]["span"]["line"]),
                      "%s:%s" % (t["span"]["file"], t["span"]["line"]))
    run.floor(rule, nsites, 5, "offset-passing read call sites in chained parsers")


def _prov_str(b, ords, v):
    if v is None:
        return "an offset of unknown origin"
    if v[0] == "k":
        return "the constant offset %d" % v[1]
    if v[0] == "cur":
        return "the offset returned by the earlier read %s%s" % (ords.get(v[1], "?"), " + %d" % v[2] if v[2] else "")
    return str(v)


def _cursor_walk(b, readers, limit=200000):
    """{read site block: (cursor provenance, last read block)} for reads that do not start after the last cursor-returning read"""
    def val_of(env, op):
        if op["k"] == "const":
            return ("k", op["v"]) if isinstance(op.get("v"), int) and not isinstance(op.get("v"), bool) else None
        pl = op["place"]
        v = env.get(pl["l"])
        return proj(v, pl)

    def proj(v, pl):
        if v is None or not pl["p"]:
            return v
        if v[0] == "pair":
            fs = [q for q in pl["p"] if q["k"] == "field"]
            return v[1] if len(fs) == 1 and fs[0]["i"] == 0 else None
        if v[0] == "res":
            ty = pl.get("ty", "")
            if ty == "usize":
                return ("cur", v[1], 0)
            return v if "usize" in ty else None
        if all(q["k"] == "deref" for q in pl["p"]):
            return v
        return None

    def add(a, c):
        if a is None or c is None:
            return None
        if a[0] == "k" and c[0] == "k":
            return ("k", a[1] + c[1])
        if a[0] == "cur" and c[0] == "k":
            return ("cur", a[1], a[2] + c[1]) if 0 <= a[2] + c[1] <= 64 else None
        if c[0] == "cur" and a[0] == "k":
            return add(c, a)
        return None
    bad = {}
    start = (0, frozenset(), None)
    seen = {start}
    work = [start]
    n = 0
    while work:
        bb, envf, last = work.pop()
        n += 1
        if n > limit:
            raise RuntimeError("cursor walk: state budget exhausted in %s" % b.get("path"))
        env = dict(envf)
        blk = b["blocks"][bb]
        for st in blk["stmts"]:
            if st["k"] != "assign" or st["place"]["p"]:
                continue
            rv = st["rv"]
            k = rv["k"]
            v = None
            if k == "use":
                v = val_of(env, rv["op"])
            elif k in ("ref", "copyderef"):
                v = proj(env.get(rv["place"]["l"]), rv["place"])
            elif k == "binop" and rv["op"] in ("Add", "AddWithOverflow", "AddUnchecked"):
                v = add(val_of(env, rv["a"]), val_of(env, rv["b"]))
                if rv["op"] == "AddWithOverflow":
                    v = ("pair", v) if v else None
            elif k == "binop" and rv["op"] in ("Sub", "SubWithOverflow"):
                a, c = val_of(env, rv["a"]), val_of(env, rv["b"])
                v = add(a, ("k", -c[1])) if c and c[0] == "k" else None
                if rv["op"] == "SubWithOverflow":
                    v = ("pair", v) if v else None
            if v is None:
                env.pop(st["place"]["l"], None)
            else:
                env[st["place"]["l"]] = v
        t = blk["term"]
        k = t["k"]
        succ = []
        if k == "goto":
            succ = [t["target"]]
        elif k == "switch":
            succ = [x[1] for x in t.get("arms") or []] + ([t["otherwise"]] if t.get("otherwise") is not None else [])
        elif k in ("assert", "drop"):
            succ = [t["target"]]
        elif k == "call":
            name, info = mir.callee(t)
            dest = t["dest"]["l"] if not t["dest"]["p"] else None
            v = None
            if name in readers:
                si, ci, rc = readers[name]
                cv = val_of(env, t["args"][ci]) if ci < len(t["args"]) else None
                if last is not None and not (cv and cv[0] == "cur" and cv[1] == last and cv[2] >= 0):
                    bad.setdefault(bb, (cv, last))
                if rc:
                    last = bb
                    v = ("res", bb)
            else:
                # pass-through of a read result by the `?` machinery and by value-preserving adaptors
                carried = [val_of(env, a) for a in t["args"]]
                carried = [c for c in carried if c and c[0] == "res"]
                if carried and "usize" in t["dest"].get("ty", ""):
                    v = carried[0]
            if dest is not None:
                if v is None:
                    env.pop(dest, None)
                else:
                    env[dest] = v
            if t.get("target") is not None:
                succ = [t["target"]]
        for s_ in succ:
            if b["blocks"][s_].get("cleanup"):
                continue
            stt = (s_, frozenset(env.items()), last)
            if stt not in seen:
                seen.add(stt)
                work.append(stt)
    return bad


def _walk_nodes(nodes):
    for n in nodes:
        yield n
        if n[0] == "if":
            yield from _walk_nodes(n[2])
            yield from _walk_nodes(n[3])
        elif n[0] == "for":
            yield from _walk_nodes(n[3])
