"""C08 — fast-start changes only the layout; both layouts address samples correctly.

R1 moov length independent of offset *values*; R2 placeholder moov and final moov have the same length;
R3 offset base == static offset of the sample region in each layout (C01.R3 instances);
R4 same description: apart from the chunk-offset values the moov of both layouts is the same production;
R5 order [ftyp, moov, mdat] vs [ftyp, mdat?, moov], selected by the flag plumbed unmodified from the builder."""
from .. import boxcheck as B
from .. import filemodel as FM
from .. import layout as L
from .. import mir, sym
from ..anchors import AnchorMissing
from . import c01, c15

EXPLANATION = (
    "on the symbolic file productions: R1 no width term of the moov box mentions a chunk-offset value (only list lengths); R2 the placeholder moov whose length feeds mdat_data_start has the same symbolic width as the "
    "final moov; R3 chunk-offset base == symbolic width of everything emitted before the sample region, in both layouts; R4 for every configuration the moov productions of the two layouts are identical after masking "
    "the chunk-offset values; R5 top-level order per layout and MIR data flow of the fast_start flag from the builder setter to the branch in finalize.")
TRUSTED = ["layout interpreter"]


def check(prog, run):
    run.rule("R1", "moov width is a function of table lengths / metadata / config only, never of chunk-offset values")
    run.rule("R2", "placeholder moov and final moov have identical symbolic width")
    run.rule("R3", "chunk-offset base == static offset of the sample region, per layout (C01.R3)")
    run.rule("R4", "same description: moov productions of both layouts are equal modulo chunk-offset values")
    run.rule("R5", "layout order: fast-start [ftyp, moov, mdat], standard [ftyp, mdat?, moov]; the flag flows unmodified from builder to finalize")
    try:
        m = c01.Model(prog)
    except AnchorMissing as e:
        run.bad("R1", "anchor", "anchor missing: %s" % e)
        return
    except L.Unanalysable as e:
        run.bad("R1", "unanalysable", "file production cannot be derived (fail closed): %s" % e)
        return
    by_cfg = {}
    for lf in m.leaves:
        segs = m.spec(lf)
        top = FM.top_structure(segs)
        key = m.key(lf)
        moov = next((t[2] for t in top if t[0] == "box" and t[1] == b"moov"), None)
        shape = [("%s" % B.fc_str(t[1]) if t[0] == "box" else t[0]) for t in top]
        fast = "fast" in lf.fn
        if fast:
            ok = shape[:2] == ["ftyp", "moov"] and shape[2:] in ([], ["mdat_hdr", "mdat_tag", "body"])
        else:
            ok = shape in (["ftyp", "mdat_hdr", "mdat_tag", "body", "moov"], ["ftyp", "moov"])
        run.check(ok, "R5", key + " order", " ".join(shape), "top-level order is %s" % shape)
        if moov is None:
            continue
        w = L.width([moov])
        offs = set()
        for (p_, b_, c_) in B.walk_boxes(moov[2]):
            if p_[-1] == b"stco":
                def grab(x):
                    if isinstance(x, tuple):
                        if len(x) == 3 and x[0] == "acc" and str(x[2]).startswith("P"):
                            offs.add(x[1])
                        for y in x:
                            grab(y)
                    elif isinstance(x, list):
                        for y in x:
                            grab(y)
                grab(b_[2])
        bad = [k for k in w.terms if L.mentions(k, lambda x: isinstance(x, tuple) and len(x) == 3 and x[0] == "acc" and x[1] in offs)]
        run.check(not bad, "R1", key + " moov-width", "width = %d + %d symbolic length term(s), none depends on an offset value" % (w.const, len(w.terms)),
                  "the moov length depends on chunk-offset values: %s" % [L.show(b)[:80] for b in bad])
        # R3 via C01
        c01.leaf_rules(m, lf, c15._Map(run, {"R3": "R3"}), ("R3",))
        by_cfg.setdefault(m.config_tag(lf), {})["fast" if fast else "std"] = (lf, moov)
        # R2: placeholder width inside the cursor/offset initial value
        if fast:
            ph = [x for x in _placeholder_lens(m, lf, moov)]
            for i, (pw) in enumerate(ph):
                fw = c01._strip_lin(L.width([moov]))
                run.check(pw is not None and pw == fw, "R2", key + " placeholder==final #%d" % i, "placeholder moov width == final moov width",
                          "the placeholder moov used to compute mdat_data_start has a different length than the moov actually written")
    for cfg, d in sorted(by_cfg.items()):
        if "fast" in d and "std" in d:
            a = _masked(d["fast"][1])
            b = _masked(d["std"][1])
            run.check(a == b, "R4", "same-moov [%s]" % cfg, "identical modulo chunk-offset values", "the two layouts describe different tracks/samples/timing/configuration for configuration [%s]" % cfg)
        else:
            run.bad("R4", "same-moov [%s]" % cfg, "configuration exists in only one layout: %s" % sorted(d))
    run.floor("R4", len(by_cfg), 3, "configurations compared")
    flag_flow(m, run)


def _masked(moov):
    def is_off(e):
        return L.mentions(e, lambda x: isinstance(x, tuple) and len(x) == 3 and x[0] == "acc" and str(x[2]).startswith("P"))
    segs = L.mask_values([moov], is_off)
    # the single-chunk offset is the only stco entry that is not an accumulator: mask every stco entry
    out = []

    def rec(sgs):
        res = []
        for s in sgs:
            if s[0] == "box":
                if L.fourcc(s) == b"stco":
                    res.append(("box", s[1], [("stco-entries", L.freeze(L.strip_ids(L.list_shape(_shape_only(s[2])))))]))
                else:
                    res.append(("box", s[1], rec(s[2])))
            elif s[0] == "alt":
                res.append(("alt", s[1], rec(s[2]), rec(s[3])))
            elif s[0] == "match":
                res.append(("match", s[1], [(p, rec(x)) for p, x in s[2]]))
            else:
                res.append(s)
        return res
    return L.strip_ids(L.freeze(rec(segs)))


def _shape_only(segs):
    from . import c19
    view, rest = B.byte_view(segs)
    n = max(0, (len(view) - 8) // 4)
    try:
        return [("item",)] * n + c19.entries_shape(rest, 4)
    except L.Unanalysable:
        return [("?",)]


def _placeholder_lens(m, lf, moov):
    """widths of every `len(<moov buffer value>)` that occurs in an offset base of this leaf"""
    facts = FM.cond_facts(lf.conds)
    out = []
    for (p, b, c) in B.walk_boxes(moov[2]):
        if p[-1] != b"stco":
            continue
        for s in b[2]:
            exprs = []
            if s[0] == "perm":
                for part in s[2]:
                    if part[0] == "rep":
                        for e in part[3]:
                            if e[0] == "be":
                                v = e[1]
                                while v[0] == "cast":
                                    v = v[2]
                                if v[0] == "acc":
                                    lp = m.it.loops.get(v[2])
                                    if lp:
                                        exprs.append(lp["init"].get(v[1]))
            elif s[0] == "be":
                exprs.append(s[1])
            for e in exprs:
                for sub in _walk(e):
                    if isinstance(sub, tuple) and len(sub) == 2 and sub[0] == "len" and isinstance(sub[1], tuple) and sub[1][:1] == ("bufval",):
                        sg = FM.specialise(L.norm_segs(c01._thaw(sub[1][1])), facts)
                        if any(x[0] == "box" and L.fourcc(x) == b"moov" for x in sg):
                            out.append(c01._strip_lin(L.width(sg)))
    return out


def _walk(x):
    if isinstance(x, tuple):
        yield x
        for y in x:
            yield from _walk(y)


def flag_flow(m, run):
    cx = m.cx
    u = cx.u
    an = cx.an
    G = an.G
    ok = False
    why = "finalize anchor missing"
    if G:
        gb = u.bodies[G]
        dom = mir.dominators(gb)
        writers = FM.writer_functions(cx)
        calls = {name: bb for bb, t, name, info in mir.calls(gb) if name in writers}
        for blk in gb["blocks"]:
            t = blk["term"]
            if t["k"] != "switch" or blk["cleanup"]:
                continue
            e = sym.expr(gb, t["discr"])
            if e[0] == "arg" and gb["locals"][e[1]]["ty"] == "bool":
                tr = t["otherwise"]
                fa = [tg for v, tg in t["arms"] if v == "0"][0]
                fast = [n for n, bb in calls.items() if tr in dom[bb]]
                std = [n for n, bb in calls.items() if fa in dom[bb]]
                if len(fast) == 1 and len(std) == 1 and fast != std:
                    fast_leaves = [lf for lf in m.leaves if lf.fn == fast[0]]
                    segs = m.spec(fast_leaves[0]) if fast_leaves else []
                    top = [t_[1] for t_ in FM.top_structure(segs) if t_[0] == "box"]
                    ok = top[:2] == [b"ftyp", b"moov"]
                    why = "flag parameter %s selects %s (moov first) on true, %s on false" % (e[2], mir.norm(fast[0]).split("::")[-1], mir.norm(std[0]).split("::")[-1])
                    flag_arg = e[1]
    run.check(ok, "R5", "flag-selects-layout", why, "the fast_start parameter of finalize does not select the moov-first writer on its true edge: " + why)
    if not ok:
        return
    # caller passes self.<flag field> unmodified; the field is initialised from the builder's field; the builder setter stores its parameter
    fin = "api::Muxer::<Writer>::finish_in_place_with_stats"
    fb = u.bodies.get(fin)
    good = False
    fld = None
    if fb:
        for bb, t, name, info in mir.calls(fb):
            if name == G:
                e = sym.expr(fb, t["args"][flag_arg - 1])
                if e[0] == "load" and e[1].startswith("arg1.") and "|" not in e[1]:
                    good, fld = True, e[1].split(".", 1)[1]
    run.check(good, "R5", "flag-passed-unmodified", "finalize(.., self.%s)" % fld, "finish does not pass the muxer's fast-start field unmodified to finalize")
    bb_ = u.bodies.get("api::MuxerBuilder::<Writer>::build")
    good = False
    if bb_ and fld:
        for blk in bb_["blocks"]:
            for st in blk["stmts"]:
                if st["k"] == "assign" and st["rv"]["k"] == "aggregate" and st["rv"].get("adt") == "api::Muxer":
                    f = dict(zip(st["rv"]["fields"], st["rv"]["ops"]))
                    if fld in f:
                        e = sym.expr(bb_, f[fld])
                        good = (e[0] == "proj" and e[1][0] == "arg" and e[2] == fld) or (e[0] == "load" and e[1].endswith("." + fld))
    run.check(good, "R5", "flag-from-builder", "Muxer.%s = builder.%s" % (fld, fld), "build() does not copy the builder's fast-start setting unmodified")
    sb = u.bodies.get("api::MuxerBuilder::<Writer>::with_fast_start")
    good = False
    if sb and fld:
        for (l, defs_) in mir.partial_defs(sb).items():
            for (bb, i, st) in defs_:
                last = [e for e in st["place"]["p"] if e["k"] == "field"]
                if last and last[-1].get("name") == fld:
                    e = sym.expr_rv(sb, st["rv"])
                    good = e[0] == "arg"
    run.check(good, "R5", "builder-setter", "with_fast_start(enabled) stores `enabled`", "MuxerBuilder::with_fast_start does not store its argument unmodified")
