"""C09 — audio/video synchronisation of the input is preserved.

Every track's timeline in the file is rebuilt from sample durations and starts at zero; a track whose first sample is not at the
movie's time origin can only be represented with a start-offset mechanism (an edit list `edts/elst`, or an equivalent leading
empty duration).  R1 (necessary condition): the audio trak production contains such a mechanism and it depends on both tracks'
first timestamps.  This decides only that the property cannot hold in general when the mechanism is absent; when present, its
arithmetic (the +-1 tick equality) is value-level and not decided."""
from .. import boxcheck as B
from .. import layout as L
from ..anchors import AnchorMissing
from . import c01

EXPLANATION = (
    "on the symbolic moov production of the A/V layouts: R1 the audio trak must contain an edit list (edts>elst) — or any field that depends on both queues' first timestamps — because stts-based timelines start at 0; "
    "the rule enumerates every box and value expression of the audio trak. Absence is a structural proof that audio submitted as starting later than the video plays from time zero.")
TRUSTED = ["layout interpreter", "ISO/IEC 14496-12: track timelines start at 0 unless an edit list shifts them"]


def check(prog, run):
    run.rule("R1", "a track-start offset mechanism exists in the audio trak (edts/elst or a field depending on both first timestamps)")
    run.rule("R2", "no drift: the stts/ctts run-length tables merge only exactly equal values, so each track's timeline is the exact sum of its per-sample deltas (C03.R2 gives the deltas)")
    from . import c03
    c03.rle_rule(prog, run, "R2")
    try:
        m = c01.Model(prog)
    except (AnchorMissing, L.Unanalysable) as e:
        run.bad("R1", "anchor", str(e))
        return
    run.rule("R4", "video presentation times keep their place relative to audio: the video ctts holds pts - dts of every sample and is present whenever any offset is non-zero (C03.R5 instances)")
    run.rule("R3", "no drift between the tracks: audio and video timestamps go through the one stateless tick conversion of the call's own timestamp (C03.R1 instances), so no per-call rounding error accumulates on one track")
    c03.tick_rule(m.cx, run, "R3", exact=False)
    run.rule("R5", "each track's timeline is the submitted one: per-sample durations are differences of the submitted timestamps (back-patched for every next sample; no duration taken from the payload or a nominal frame length) - C03.R2 instances")
    c03.duration_rule(m, run, "R5")
    n = 0
    for lf in m.leaves:
        if not m.audio_present(lf):
            continue
        n += 1
        segs = m.spec(lf)
        key = m.key(lf)
        for kind, trak in c01.traks(segs):
            if kind == "video":
                # the picture's place on the common timeline: composition offsets are pts - dts and present whenever one is non-zero
                from . import c15
                c03.ctts_rule(c15._Map(run, {"R5": "R4"}), key, trak, m, m.vq)
            if kind != "audio":
                continue
            paths = [B.path_str(p) for (p, b, c) in B.walk_boxes(trak[2])]
            has_elst = any(p.endswith("edts/elst") or p == "edts" for p in paths)
            cross = m.vq in c01.bases_in(trak[2])
            run.extra.setdefault("audio_trak_boxes", paths)
            stts_ = c01.find_box(trak, b"stts")
            if stts_ is not None:
                c03.stts_values_rule(run, "R2", key, kind, stts_)
            if has_elst and not cross:
                # an offset mechanism exists but cannot be the *relative* start: it does not look at the video track at all
                run.bad("R1", key + " edit list ignores the video start", "the audio trak has an edit list, but nothing in the trak depends on the video track's first timestamp: the delay it encodes cannot be "
                        "`first audio time - first video time` (a stream whose video does not start at 0 is shifted by the video's start)")
                continue
            run.check(has_elst or cross, "R1", key + " start-offset", "edit list present" if has_elst else "audio trak depends on the video queue's timestamps",
                      "the audio trak has no edit list and nothing in it depends on the video track's first timestamp: its timeline starts at 0, so audio whose first "
                      "timestamp differs from the first video timestamp is shifted (boxes: %s)" % sorted(set(p.split("/")[-1] for p in paths)))
    run.floor("R1", n, 2, "A/V layouts")
