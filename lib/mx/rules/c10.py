"""C10 — fragmented muxing conserves samples across any write/flush interleaving.

R1 take-all, R2 empty flush is a no-op, R3 numbering, R6 rejection guard, R7 pure queries (MIR rules);
R4 data offset and R5 same-samples-same-order are layout rules (lib/mx/layout, shared with C02/C19)."""
from .. import flow, mir, purity, sym
from ..anchors import AnchorMissing
from . import common

EXPLANATION = (
    "static rules on MIR for the ~130-line fragmented muxer: R1 the only stores to the sample queue are Vec::push in write_video and mem::take in flush_segment, and the vector handed to the "
    "segment builder is exactly the taken one; R2 the None exit of flush_segment is store-free; R3 the sequence counter is initialised to 1, its only other store is `field+1` after the builder call, "
    "and the builder receives the pre-increment value; R6 write_video's only error exit is guarded by `dts < last_dts` (operator and operand roles enforced) and is store-free; R7 the readiness queries "
    "take &self and store nothing, init_segment stores only its cache field. R4/R5 (data_offset = moof size + 8; trun and mdat iterate the same slice in the same order; sizes from the element's own data) "
    "are decided by the layout interpreter over the typed HIR of the segment builders.")
TRUSTED = ["std::mem::take / Vec::push contracts", "store inventory", "layout interpreter (lib/mx/layout.py) for R4/R5"]

FM = "fragmented::FragmentedMuxer"
WRITE = FM + "::write_video"
FLUSH = FM + "::flush_segment"
NEW = FM + "::new"
INIT = FM + "::init_segment"
QUERIES = [FM + "::ready_to_flush", FM + "::current_fragment_duration_ms"]


def immutable_samples(cx, run, R="R8"):
    u = cx.u
    adt = u.adts.get("fragmented::FragmentSample")
    if not adt:
        run.bad(R, "anchor FragmentSample", "sample record type not found")
        return
    fields = {f["name"] for f in adt["variants"][0]["fields"]}
    n = 0
    for p, b in u.bodies.items():
        if b["in_test_cfg"] or not mir.norm(p).startswith("fragmented::"):
            continue
        for (bb, i, (root, path), why, node) in cx.st.sites.get(p, []):
            n += 1
            pl = node.get("place") if node.get("k") == "assign" else None
            if pl and pl["p"] and pl["p"][-1].get("k") == "field" and pl["p"][-1].get("adt") == "fragmented::FragmentSample" and any(e_.get("k") == "deref" for e_ in pl["p"]):
                run.bad(R, "store %s <sample>.%s" % (mir.norm(p), pl["p"][-1].get("name")), "field `%s` of a queued sample is overwritten after it was accepted: what is written is no longer what was submitted" % pl["p"][-1].get("name"), mir.loc_of(node))
                continue
            if "[]" in path and path[-1] in fields and path.index("[]") == len(path) - 2:
                # element of a collection of samples: which collection? the muxer's queue or a vector taken from it
                owner = None
                if root == ("arg", 1) and path[0] == "samples":
                    owner = "self.samples"
                elif root[0] == "local":
                    ty = b["locals"][root[1]]["ty"]
                    if "FragmentSample" in ty:
                        owner = "a local vector of samples"
                if owner:
                    run.bad(R, "store %s %s.%s" % (mir.norm(p), owner, path[-1]), "field `%s` of a queued sample (%s) is overwritten after it was accepted: what is written is no longer what was submitted" % (path[-1], owner), mir.loc_of(node))
    run.floor(R, n, 3, "store sites examined in the fragmented muxer")
    if not any(o["rule"] == R and o["status"] == "violation" for o in run.obs):
        run.ok(R, "no store to a queued sample", "%d store sites in fragmented::*, none targets a field of a queued sample" % n)


COPY_FNS = {"std::slice::to_vec", "alloc::slice::to_vec", "std::borrow::ToOwned::to_owned", "std::clone::Clone::clone", "std::convert::From::from", "std::convert::Into::into",
            "std::vec::Vec::from", "core::slice::to_vec", "std::slice::to_owned", "<[T] as std::borrow::ToOwned>::to_owned"}


def verbatim_record(cx, run, R="R9"):
    """every record pushed onto the sample queue by the write entry point is built from that call's own parameters, unmodified:
    each scalar field is a parameter itself, the payload field is an exact copy (to_vec / to_owned / clone / into) of the slice
    parameter, and no two fields come from the same parameter"""
    u = cx.u
    b = u.bodies.get(WRITE)
    if b is None:
        run.bad(R, "anchor " + WRITE, "write entry point not found")
        return
    n = 0
    for bb, t, name, info in mir.calls(b):
        if not (name and mir.norm(name) == "std::vec::Vec::push" and len(t["args"]) == 2):
            continue
        v = sym.expr(b, t["args"][1])
        if not (v[0] == "agg" and "FragmentSample" in str(v[1])):
            continue
        n += 1
        used = {}
        for fname, val in zip(v[2], v[3]):
            e = val
            copied = False
            while e[0] == "call" and mir.norm(e[1]) in COPY_FNS and len(e[2]) == 1:
                e = e[2][0]
                copied = True
            while e[0] == "ref":
                e = e[1]
            src = None
            if e[0] == "arg":
                src = e[1]
            elif e[0] in ("refplace", "load") and str(e[1]).startswith("arg") and str(e[1])[3:].isdigit():
                src = int(str(e[1])[3:])
            ty = b["locals"][src]["ty"] if src is not None else ""
            is_slice = ty.lstrip("&").startswith("[") or "Vec<" in ty
            good = src is not None and src >= 2 and (copied == is_slice or (is_slice and copied)) and src not in used
            pname = mir.debug_name(b, src) if src is not None else None
            run.check(good, R, "queued %s <- parameter" % fname, "`%s` := %s`%s`" % (fname, "copy of " if copied else "", pname),
                      "the queued sample's `%s` is %s, not the call's own `%s` parameter unmodified: what the segments later describe is not what was submitted" % (fname, sym.show(val)[:140], fname), mir.loc_of(t))
            if src is not None:
                used[src] = fname
    run.floor(R, n, 1, "records pushed by the write entry point")


def check(prog, run):
    run.rule("R1", "take-all: stores to the sample queue are exactly {push in write_video, mem::take in flush_segment}; the segment builder receives the taken vector")
    run.rule("R2", "empty flush is a no-op: the None exit of flush_segment is store-free")
    run.rule("R3", "numbering: counter initialised to 1; only other store is counter+1 after the builder call; builder receives the pre-increment value")
    run.rule("R4", "data offset: trun.data_offset == len(moof) + 8 == static offset of the first sample byte relative to the start of moof; len(moof) does not depend on the data_offset value")
    run.rule("R5", "same samples, same order: trun records and mdat payload iterate the same slice in order; record size field = len(data) of its own element; mdat = exactly the payloads")
    run.rule("R6", "rejection: write_video's only error exit is guarded by `dts < last_dts` and is store-free")
    run.rule("R7", "queries are pure (&self, no stores); init_segment stores only its cache field and returns the cached clone when present")
    try:
        cx = common.Ctx(prog)
    except AnchorMissing as e:
        run.bad("R1", "anchor", "anchor missing: %s" % e)
        return
    run.rule("R8", "queued samples are immutable: no field of a queued/taken fragment sample is stored to after the push")
    immutable_samples(cx, run)
    run.rule("R9", "verbatim record: each field of the record queued by write_video is the call's own parameter (payload: an exact copy of the slice parameter)")
    verbatim_record(cx, run)
    u = cx.u
    for f in [WRITE, FLUSH, NEW, INIT] + QUERIES:
        if f not in u.bodies:
            run.bad("R1", "anchor %s" % f, "public fragmented-muxer entry point not found")
            return
    # the queue: the Vec field pushed by write_video
    pushes = [s for s in cx.st.sites[WRITE] if s[3] == "extcall std::vec::Vec::<T, A>::push" or s[3].startswith("extcall std::vec::Vec") and s[3].endswith("::push")]
    qs = {s[2][1][0] for s in pushes if s[2][0] == ("arg", 1) and len(s[2][1]) == 1}
    if len(qs) != 1:
        run.bad("R1", "anchor queue", "cannot identify the sample queue (fields pushed in write_video: %s)" % sorted(qs))
        return
    q = next(iter(qs))
    run.extra["queue_field"] = q
    run.rule("R10", "accepted => queued: every success exit of write_video is reachable only through the push onto the fragment's sample queue (an accepted sample cannot be dropped before it is ever queued)")
    from . import c06
    c06.accepted_is_queued(cx, run, "R10", (q, q), entries=[WRITE], floor=1)
    # ---- R1
    all_sites = []
    for p, b in cx.live.items():
        if not b.get("impl_self", "").startswith(FM):
            continue
        for s in cx.st.sites[p]:
            if s[2][0] == ("arg", 1) and s[2][1][:1] == (q,) and not s[3].startswith("call "):
                all_sites.append((p, s))
    for (p, s) in all_sites:
        what = mir.norm(s[3].split(" ", 1)[1]) if " " in s[3] else s[3]
        ok = (p == WRITE and what == "std::vec::Vec::push") or (p == FLUSH and what == "std::mem::take")
        run.check(ok, "R1", "queue-store %s %s" % (mir.norm(p), what), "allowed queue mutation",
                  "unexpected mutation of the sample queue `%s` (%s) — samples could be lost, duplicated or reordered" % (q, s[3]), mir.loc_of(s[4]))
    run.floor("R1", len(all_sites), 2, "queue mutation sites")
    fb = u.bodies[FLUSH]
    builder_calls = [(bb, t, name) for bb, t, name, info in mir.calls(fb) if name in u.bodies]
    took = False
    for bb, t, name in builder_calls:
        e = sym.expr(fb, t["args"][0]) if t["args"] else None
        if e is None:
            continue
        takes = [x for x in sym.walk(e) if isinstance(x, tuple) and x and x[0] == "call" and x[1] == "std::mem::take"]
        if takes:
            arg = takes[0][2][0]
            whole = e
            while whole[0] == "ref" or (whole[0] == "call" and whole[1].split("::")[-1] in ("deref", "as_slice", "as_ref", "borrow") and whole[2]):
                whole = whole[1] if whole[0] == "ref" else whole[2][0]
            once = t.get("target") is None or bb not in mir.reachable(fb, [t["target"]])
            took = arg[0] == "refplace" and arg[1] == "arg1." + q and whole is takes[0] and once
            if arg[0] == "refplace" and arg[1] == "arg1." + q and not (whole is takes[0] and once):
                run.bad("R1", "builder-gets-taken-queue", "the segment builder is handed %s%s: one flush must describe all taken samples in exactly one movie fragment" %
                        ("a part of the taken queue (%s)" % sym.show(e)[:100] if whole is not takes[0] else "the taken queue", "" if once else ", and it is called in a loop"), mir.loc_of(t))
                return
            run.check(took, "R1", "builder-gets-taken-queue", "%s(&mem::take(&mut self.%s), ..)" % (mir.norm(name).split("::")[-1], q),
                      "the segment builder is not handed the whole taken queue: %s" % sym.show(e), mir.loc_of(t))
            run.extra["segment_builder"] = mir.norm(name)
            builder = (bb, t, name)
    if not took:
        run.bad("R1", "builder-gets-taken-queue", "no local call in flush_segment receives mem::take(&mut self.%s)" % q)
        return
    # ---- R2
    # None exits: explicit `return None` and the residual of `opt?` (e.g. `self.samples.first()?`)
    v, ns, ne = purity.check_function(cx, FLUSH, exit_kinds=("err", "residual"), variant=("None",))
    run.check(ne >= 1, "R2", "flush-has-none-exit", "%d None exit(s)" % ne, "flush_segment has no None exit any more (anchor)")
    if not v:
        run.ok("R2", "none-exit-pure", "%d store site(s), none reaches the None exit" % ns)
    for x in v:
        run.bad("R2", "none-exit-impure store=%s" % x["store"], "flush_segment stores `%s` on a path that returns None (%s)" % (x["store"], x["loc_store"]), x["loc_store"])
    # ---- R3
    bb_b, t_b, name_b = builder
    # which argument of the builder is the counter? the one whose expression is a load of a u32/u64 field that is also stored field+1
    ctr_sites = [s for s in cx.st.sites[FLUSH] if s[3].startswith("assign") and s[2][0] == ("arg", 1) and len(s[2][1]) == 1]
    counters = []
    for s in ctr_sites:
        e = sym.expr_rv(fb, s[4]["rv"])
        loads = {x[1] for x in sym.sources(e) if x[0] == "load"}
        consts = {x[1] for x in sym.sources(e) if x[0] == "const"}
        ops_ = [o for o in sym.ops(e) if not o.startswith("cast")]
        if loads == {"arg1." + s[2][1][0]} and consts == {1} and ops_ in (["AddWithOverflow"], ["Add"]):
            counters.append((s[2][1][0], s))
    run.check(len(counters) == 1, "R3", "counter-increment", "one `field = field + 1` store in flush_segment: %s" % [c[0] for c in counters],
              "expected exactly one self-incrementing counter in flush_segment, found %s" % [c[0] for c in counters])
    if len(counters) == 1:
        cf, s = counters[0]
        run.extra["sequence_field"] = cf
        dom = mir.dominators(fb)
        run.check(bb_b in dom[s[0]], "R3", "increment-after-builder", "the builder call dominates the increment (pre-increment value is emitted)",
                  "the sequence counter is incremented on a path that does not pass the segment builder first", mir.loc_of(s[4]))
        passed = [i for i, a in enumerate(t_b["args"]) if sym.expr(fb, a) == ("load", "arg1." + cf, "u32") or
                  (sym.expr(fb, a)[0] == "load" and sym.expr(fb, a)[1] == "arg1." + cf)]
        run.check(len(passed) == 1, "R3", "builder-gets-counter", "builder argument %s = self.%s" % (passed, cf),
                  "the segment builder does not receive self.%s unmodified" % cf, mir.loc_of(t_b))
        # all other stores to the counter anywhere
        for p, b in cx.live.items():
            if not b.get("impl_self", "").startswith(FM):
                continue
            for s2 in cx.st.sites[p]:
                if s2[2][0] == ("arg", 1) and s2[2][1][:1] == (cf,) and not (p == FLUSH and s2[4] is s[4]) and not s2[3].startswith("call "):
                    run.bad("R3", "counter-store %s" % mir.norm(p), "the sequence counter `%s` is written elsewhere (%s)" % (cf, s2[3]), mir.loc_of(s2[4]))
        # constructor initialises it to 1
        nb = u.bodies[NEW]
        init = None
        for blk in nb["blocks"]:
            for st in blk["stmts"]:
                if st["k"] == "assign" and st["rv"]["k"] == "aggregate" and st["rv"].get("adt") == FM:
                    fields = dict(zip(st["rv"]["fields"], st["rv"]["ops"]))
                    if cf in fields:
                        init = sym.expr(nb, fields[cf])
        run.check(init is not None and init[0] == "const" and init[1] == 1, "R3", "counter-init", "constructed with %s = 1" % cf,
                  "the sequence counter is not initialised to the constant 1 (%s)" % (sym.show(init) if init else "not found"), mir.loc_of(nb))
    # ---- R6
    wb = u.bodies[WRITE]
    v, ns, ne = purity.check_function(cx, WRITE)
    if not v:
        run.ok("R6", "reject-pure", "%d store site(s), %d error exit(s): none reached" % (ns, ne))
    for x in v:
        run.bad("R6", "reject-impure store=%s exit=%s" % (x["store"], x["exit"]), "rejected fragmented write leaves state behind (%s)" % x["loc_store"], x["loc_store"])
    errs = flow.error_exits(wb)
    run.check(len(errs) == 1, "R6", "single-error-exit", "one error exit", "write_video has %d error exits (expected exactly the DTS-regression one)" % len(errs))
    dom = mir.dominators(wb)
    for e in errs:
        # nearest dominating switch on a comparison
        good = False
        desc = ""
        for blk in wb["blocks"]:
            t = blk["term"]
            if t["k"] != "switch" or blk["i"] not in dom[e["bb"]] or blk["cleanup"]:
                continue
            ex = sym.expr(wb, t["discr"])
            if ex[0] == "bin":
                desc = sym.show(ex)
                a, b = ex[2], ex[3]
                op = ex[1]
                if b[0] == "arg" and a[0] != "arg":
                    # mirrored spelling `last > dts` of `dts < last`
                    a, b = b, a
                    op = {"Gt": "Lt", "Lt": "Gt", "Ge": "Le", "Le": "Ge"}.get(op, op)
                    ex = (ex[0], op, a, b)
                lhs_param = a[0] == "arg" and a[2] == "dts"
                rhs_state = any(x[0] == "load" and x[1].startswith("arg1.") for x in sym.walk(b))
                # the error arm must be the comparison-true arm
                tr = t["otherwise"]
                true_side = tr in dom[e["bb"]] or tr == e["bb"]
                if ex[1] == "Lt" and lhs_param and rhs_state and true_side:
                    good = True
        run.check(good, "R6", "guard dts<last_dts", "error exit guarded by %s" % desc,
                  "the rejection is not guarded by `dts < last accepted dts` (found: %s) — the property demands rejection iff lower" % (desc or "no comparison"), mir.loc_of(e["node"]))
    # ok path stores: last_dts := Some(dts) and push
    # ---- R4 / R5 (layout)
    layout_rules(prog, run)
    # ---- R7
    for qf in QUERIES:
        b = u.bodies[qf]
        recv = b["locals"][1]["ty"] if len(b["locals"]) > 1 else ""
        run.check(recv.startswith("&") and not recv.startswith("&mut") and not cx.st.sum[qf], "R7", "pure-query %s" % mir.norm(qf),
                  "takes &self, empty store summary", "query mutates state or takes &mut self: %s %s" % (recv, sorted(cx.st.sum[qf])), mir.loc_of(b))
    st_init = {s[1][0] for s in cx.st.sum[INIT] if s[0] == ("arg", 1) and s[1]}
    run.check(len(st_init) == 1, "R7", "init-stores-cache-only", "init_segment stores only `%s`" % sorted(st_init),
              "init_segment stores into %s" % sorted(st_init), mir.loc_of(u.bodies[INIT]))


def layout_rules(prog, run):
    from .. import boxcheck as B
    from .. import filemodel as FMD
    from .. import layout as L
    from . import c01, c11
    u = prog.lib
    try:
        it, pn, segs = c11.segment_model(u)
    except Exception as e:
        run.bad("R4", "segment unanalysable", "cannot derive the media segment production (fail closed): %s" % e)
        return
    S = ("param", pn[0])
    top = FMD.top_structure(segs)
    moof = next((t[2] for t in top if t[0] == "box" and t[1] == b"moof"), None)
    body = next((t[1] for t in top if t[0] == "body"), None)
    if moof is None or body is None:
        run.bad("R4", "segment shape", "media segment is not moof + mdat")
        return
    trun = c11.find(segs, b"trun")[0]
    view, rest = B.byte_view(trun[2])
    vf = B.field_value(view, 0, 4)
    flags = int.from_bytes(vf[1][1:], "big") if vf[0] == "const" else 0
    off = B.field_value(view, 8, 4) if flags & 1 else None
    ok, detail = False, "data-offset-present flag not set"
    if off and off[0] == "expr":
        e = off[1][1]
        detail = L.show(e)[:120]
        # (len(first-pass moof) as u32) + 8
        if e[0] == "bin" and e[1] == "Add" and e[3] == ("lit", 8):
            x = e[2]
            while x[0] == "cast":
                x = x[2]
            if x[0] == "len" and x[1][0] == "bufval":
                w1 = c01._strip_lin(L.width(L.norm_segs(c01._thaw(x[1][1]))))
                w2 = c01._strip_lin(L.width([moof]))
                ok = w1 == w2
                detail = "len(first-pass moof) + 8, first-pass width %s == final moof width %s" % (w1, w2)
    run.check(ok, "R4", "data-offset", detail, "trun.data_offset is not `len(moof) + 8` with len(moof) independent of the offset value: %s" % detail)
    # static position of the first payload byte relative to moof start = width(moof) + 8 (mdat header): by construction of top_structure
    shape = [t[0] for t in top]
    run.check(shape == ["box", "mdat_hdr", "mdat_tag", "body"], "R4", "first-byte-position", "moof, 8-byte mdat header, payload", "segment layout is %s" % shape)
    reps = [s_ for s_ in trun[2] if s_[0] == "rep"]
    good = len(reps) == 1 and reps[0][1] == S and len(body) == 1 and body[0][0] == "rep" and body[0][1] == S and \
        body[0][3] == [("blob", ("field", ("elem", S, body[0][2]), "data"))]
    run.check(good, "R5", "same-slice-same-order", "trun records and mdat payload both iterate `samples` in order; payload = sample.data",
              "trun and mdat do not iterate the same sample slice in order (trun over %s, mdat: %s)" % (L.show(reps[0][1]) if reps else "?", ", ".join(L.show(s_) for s_ in body)[:160]))
