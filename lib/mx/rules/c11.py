"""C11 — fragmented segments carry a consistent timeline and a stable init segment.

R1 per-sample trun fields: duration = next.dts - this.dts when a next element exists; composition offset = pts - dts (signed);
   flags = one of two constants selected by the sync flag, the non-sync bit (0x0001_0000) set exactly on the non-sync one;
R2 base decode time must see the segment: the tfdt operand of segment k data-depends on a DTS of a sample of segment k;
R3 init segment: built only from the construct-time config; cached; a cached value is returned before any building;
R4 tfdt/trun are version-1 boxes (64-bit time, signed offsets).
Not decided: numeric monotonicity of base times, the 3000-tick default of a lone sample."""
from .. import boxcheck as B
from .. import layout as L
from .. import mir, sym
from ..anchors import AnchorMissing
from . import common

EXPLANATION = (
    "layout interpretation of the media-segment builders (symbolic production of moof/trun/mdat over the `samples` slice) and of init_segment, plus MIR slices in flush_segment: R1 the per-sample duration, composition-offset "
    "and flag expressions have the required operator shape; R2 the base-decode-time argument handed to the segment builder depends on the taken sample vector (non-interference argument: if it depended only on earlier "
    "segments, two histories differing in this segment's first DTS would get the same tfdt); R3 the init production mentions only `self.config`, whose only writer is the constructor, and the cache is consulted first; R4 version bytes.")
TRUSTED = ["layout interpreter", "sym slices"]

FM = "fragmented::FragmentedMuxer"
SEG = "fragmented::build_media_segment"


def segment_model(u):
    it = L.Interp(u)
    if SEG not in u.hir:
        raise AnchorMissing("segment builder")
    pn = [p["pat"].get("name", "_%d" % i) for i, p in enumerate(u.hir[SEG]["params"])]
    segs = L.norm_segs(it.production(SEG))
    return it, pn, segs


def find(segs, fc):
    return [b for (p, b, c) in B.walk_boxes(segs) if p[-1] == fc]



def _exact_shift(cx, u, fl, e, strict=True):
    """`e` is E := <a dts of the taken queue> | E - K (overflow-checked, wrapping, or saturating when K is a first DTS), K := constant | write-once
    state field.  Anything else (max/min/clamp, a K taken from another clock, a K that changes during the stream) is not a constant shift."""
    from .. import guards
    from . import c04
    if e[0] == "load" and str(e[1]).endswith(".dts"):
        return True, None
    a = k = None
    kind = None
    if e[0] == "proj" and e[2] == "0" and e[1][0] == "bin" and e[1][1] == "SubWithOverflow":
        a, k, kind = e[1][2], e[1][3], "checked"
    elif e[0] == "bin" and e[1] in ("Sub", "SubUnchecked"):
        a, k, kind = e[2], e[3], "checked"
    elif e[0] == "call" and e[1] in ("core::num::wrapping_sub", "core::num::saturating_sub") and len(e[2]) == 2:
        a, k, kind = e[2][0], e[2][1], e[1].rsplit("::", 1)[1]
    elif not strict and e[0] == "call" and e[1] in ("std::cmp::Ord::max", "std::cmp::Ord::min", "std::cmp::max", "std::cmp::min", "std::cmp::Ord::clamp"):
        # a clamp of the own first DTS against another value: equal to the first DTS whenever the other value does not bind (e.g. the
        # estimated end of the previous fragment for constant spacing); whether it binds is a value-level question
        return None, "`%s` of the first DTS and another value" % e[1].rsplit("::", 1)[1]
    else:
        return False, "it is computed with `%s`, which is not a subtraction of a constant" % (e[1] if e[0] in ("call", "bin") else e[0])
    ok, why = _exact_shift(cx, u, fl, a, strict)
    if not ok:
        return ok, why
    if k[0] == "call" and k[1].endswith("Option::unwrap_or") and k[2][1][0] == "const":
        k = k[2][0]
    if k[0] == "const":
        return True, None
    if not (k[0] == "load" and str(k[1]).startswith("arg1.")):
        return False, "the subtrahend `%s` is neither a constant nor a state field" % sym.show(k)[:60]
    fld = str(k[1]).split(".")[1]
    stores = []
    for p, b in cx.live.items():
        if b.get("impl_self", "").startswith(FM):
            for (sbb, si, (root, path), why_, node) in cx.st.sites.get(p, []):
                if root == ("arg", 1) and path[:1] == (fld,) and why_.startswith("assign"):
                    stores.append((p, b, sbb, node))
    for (p, b, sbb, node) in stores:
        sigs = [c04.signature(d_, t_) for (s_, d_, t_) in guards.guards_of(b, sbb) if guards.truth(t_)]
        if "is_none(state:%s)" % fld not in sigs:
            return False, "the subtrahend self.%s is stored in %s without the guard `still unset`: it is not one stream-wide constant" % (fld, p.rsplit("::", 1)[1])
        if kind == "saturating_sub":
            rv = sym.show(sym.expr_rv(b, node["rv"])) if "rv" in node else "?"
            if rv not in ("std::option::Option::Some{dts}", "dts"):
                return False, ("the subtraction saturates and the subtrahend self.%s is set from `%s`, not from the first decode time: when it exceeds a segment's first DTS the difference "
                               "is clamped to 0 and is no longer the same constant for every segment" % (fld, rv[:60]))
    return True, None


def _norm_if(e):
    """('if', cond, a, b) with the condition in one spelling: negations and `>=`/`>`/`<=` folded into `<` by mirroring the operands
    and / or swapping the arms (integer comparisons: a <= b  <=>  !(b < a))"""
    if not (isinstance(e, tuple) and e and e[0] == "if" and len(e) == 4):
        return e
    c, a, b = e[1], e[2], e[3]
    for _ in range(4):
        if c[0] == "un" and c[1] == "Not":
            c, a, b = c[2], b, a
        elif c[0] == "bin" and c[1] == "Gt":
            c = ("bin", "Lt", c[3], c[2])
        elif c[0] == "bin" and c[1] == "Ge":
            c = ("bin", "Le", c[3], c[2])
        elif c[0] == "bin" and c[1] == "Le":
            c, a, b = ("bin", "Lt", c[3], c[2]), b, a
        else:
            break
    return ("if", c, a, b)


def tfdt_value(cx, u):
    """what flush_segment hands the segment builder as base decode time: (depends on the own segment?, text, resolved expression, body)"""
    fl = FM + "::flush_segment"
    shape_e = None
    fb = u.bodies.get(fl)
    ok, detail = False, "flush_segment not found"
    if fb:
        for bb, t, name, info in mir.calls(fb):
            if name == SEG:
                e = sym.expr(fb, t["args"][2])
                srcs = sym.sources(e)
                detail = sym.show(e)[:160]
                ve_final = None
                dep_taken = any(isinstance(x, tuple) and x and x[0] == "call" and x[1] == "std::mem::take" for x in sym.walk(e))
                dep_dts = "dts" in detail
                # a local copy of an element of the taken vector (`let first = samples[0].dts`)
                for x in sym.walk(e):
                    if isinstance(x, tuple) and x and x[0] == "load" and str(x[1]).startswith("_") and str(x[1]).split(".")[0][1:].isdigit():
                        le = sym.expr_local(fb, int(str(x[1]).split(".")[0][1:]))
                        if le[0] == "call" and le[1] == "std::mem::take":
                            dep_taken = True
                # a state field that was assigned from the taken vector *before* the call also counts
                if not dep_taken:
                    for s_ in srcs:
                        if s_[0] == "load" and s_[1].startswith("arg1."):
                            fld = s_[1].split(".")[1]
                            dom = mir.dominators(fb)
                            for (sbb, si, (root, path), why, node) in cx.st.sites[fl]:
                                if root == ("arg", 1) and path[:1] == (fld,) and why.startswith("assign") and sbb in dom[bb] and sbb != bb:
                                    ve = sym.expr_rv(fb, node["rv"])
                                    from_taken = any(isinstance(x, tuple) and x and x[0] == "call" and x[1] == "std::mem::take" for x in sym.walk(ve))
                                    for x in sym.walk(ve):
                                        if isinstance(x, tuple) and x and x[0] == "load" and x[1].startswith("_") and x[1].split(".")[0][1:].isdigit():
                                            le = sym.expr_local(fb, int(x[1].split(".")[0][1:]))
                                            if le[0] == "call" and le[1] == "std::mem::take":
                                                from_taken = True
                                    # the queue itself, read before it is taken in the same call, is the same segment
                                    qs = set()
                                    for bb2, t2, name2, info2 in mir.calls(fb):
                                        if name2 and mir.norm(name2) in ("std::mem::take", "core::mem::take") and t2["args"]:
                                            a2 = sym.expr(fb, t2["args"][0])
                                            while a2[0] == "ref":
                                                a2 = a2[1]
                                            if a2[0] in ("refplace", "load"):
                                                qs.add(a2[1])
                                    if any(isinstance(x, tuple) and x and x[0] == "load" and any(str(x[1]).startswith(q_ + ".[]") for q_ in qs) for x in sym.walk(ve)):
                                        from_taken = True
                                    if from_taken and "dts" in sym.show(ve):
                                        dep_taken, dep_dts = True, True
                                        ve_final = ve
                                        detail += " where self.%s := %s" % (fld, sym.show(ve)[:100])
                ok = dep_taken and dep_dts
                if ok:
                    shape_e = ve_final if ve_final is not None else e
    return ok, detail, shape_e, fb


def tfdt_rule(cx, u, run, R, strict):
    """R2 of C11 (strict=False) / the value clause of C16 (strict=True)"""
    ok, detail, shape_e, fb = tfdt_value(cx, u)
    fl = FM + "::flush_segment"
    if ok and shape_e is not None:
        sh_ok, sh_why = _exact_shift(cx, u, fl, shape_e, strict)
        if sh_ok is None:
            run.ok(R, "tfdt-exact-shift", "not decided for this form: %s" % sh_why)
        else:
            run.check(sh_ok, R, "tfdt-exact-shift", "base decode time is the segment's first DTS, or that minus a write-once stream constant in exact arithmetic",
                      "the base decode time (%s) is not `own first DTS - one stream-wide constant`: %s" % (sym.show(shape_e)[:120], sh_why), mir.loc_of(fb))
    run.check(ok, R, "tfdt-depends-on-own-segment", "base decode time = %s" % detail,
              "the base decode time written into segment k (%s) does not depend on any sample of segment k: it is computed from earlier segments only, so for a non-zero "
              "first DTS or irregular spacing it is not `first DTS - constant`" % detail, mir.loc_of(fb) if fb else None)

def check(prog, run):
    run.rule("R5", "sample flags/times are the submitted ones: no field of a queued sample is overwritten between write and segment building")
    from . import c10, common as _common
    try:
        _cx = _common.Ctx(prog)
        c10.immutable_samples(_cx, run, "R5")
        c10.verbatim_record(_cx, run, "R5")
    except Exception as e:      # anchors of the shared context missing: reported by the rules below as well
        run.bad("R5", "anchor", "cannot build the analysis context: %s" % e)
    run.rule("R1", "trun per-sample fields: duration = next.dts - this.dts (when a next element exists), cts = pts - dts (signed), flags constants with the non-sync bit exactly on the non-sync arm")
    run.rule("R2", "tfdt of segment k depends on a DTS of segment k")
    run.rule("R3", "init segment depends only on the construct-time config and is cached")
    run.rule("R4", "tfdt and trun are version-1 boxes")
    u = prog.lib
    try:
        cx = common.Ctx(prog)
        it, pn, segs = segment_model(u)
    except (AnchorMissing, L.Unanalysable) as e:
        run.bad("R1", "anchor", "cannot derive the media segment: %s" % e)
        return
    S = ("param", pn[0])
    trun = find(segs, b"trun")
    tfdt = find(segs, b"tfdt")
    if len(trun) != 1 or len(tfdt) != 1:
        run.bad("R1", "anchor trun/tfdt", "expected one trun and one tfdt, found %d/%d" % (len(trun), len(tfdt)))
        return
    rep = [s for s in trun[0][2] if s[0] == "rep"]
    if len(rep) != 1 or rep[0][1] != S:
        run.bad("R1", "trun records", "per-sample records are not one repetition over the samples slice")
        return
    lid = rep[0][2]
    el, ix = ("elem", S, lid), ("idx", S, lid)
    fields = rep[0][3]
    view, rest = B.byte_view(trun[0][2])
    vf = B.field_value(view, 0, 4)
    flags = int.from_bytes(vf[1][1:], "big") if vf[0] == "const" else 0
    order = [n for bit, n in ((0x100, "duration"), (0x200, "size"), (0x400, "flags"), (0x800, "cts")) if flags & bit]
    got = dict(zip(order, fields))
    # duration
    d = got.get("duration")
    ok = False
    if d and d[0] == "be":
        e = _norm_if(d[1])
        nxt = ("field", ("index", S, ("bin", "Add", ix, ("lit", 1))), "dts")
        want_then = ("cast", "u32", ("bin", "Sub", nxt, ("field", el, "dts")))
        ok = e[0] == "if" and e[1] == ("bin", "Lt", ("bin", "Add", ix, ("lit", 1)), ("len", S)) and e[2] == want_then
    run.check(ok, "R1", "duration", "duration = samples[i+1].dts - samples[i].dts when i+1 < len", "trun sample_duration is %s" % (L.show(d)[:200] if d else "absent"))
    c = got.get("cts")
    ok = bool(c) and c[0] == "be" and c[1] == ("cast", "i32", ("bin", "Sub", ("cast", "i64", ("field", el, "pts")), ("cast", "i64", ("field", el, "dts"))))
    run.check(ok, "R1", "composition-offset", "cts = (pts as i64 - dts as i64) as i32", "trun composition offset is %s" % (L.show(c)[:200] if c else "absent"))
    f = got.get("flags")
    ok = False
    fi = _norm_if(f[1]) if f and f[0] == "be" else None
    if fi and fi[0] == "if" and fi[1] == ("field", el, "is_sync") and fi[2][0] == "lit" and fi[3][0] == "lit":
        sync_c, non_c = fi[2][1], fi[3][1]
        ok = (sync_c & 0x10000) == 0 and (non_c & 0x10000) != 0
    run.check(ok, "R1", "sample-flags", "is_non_sync bit clear on the sync arm, set on the other", "trun sample flags are %s" % (L.show(f)[:200] if f else "absent"))
    z = got.get("size")
    ok = bool(z) and z[0] == "be" and z[1] == ("cast", "u32", ("len", ("field", el, "data")))
    run.check(ok, "R1", "sample-size", "size = len(sample.data)", "trun sample size is %s" % (L.show(z)[:200] if z else "absent"))
    # R4 versions
    run.check(vf[0] == "const" and vf[1][0] == 1, "R4", "trun version", "version 1", "trun version is not 1 (signed composition offsets)")
    tv, _ = B.byte_view(tfdt[0][2])
    tvf = B.field_value(tv, 0, 4)
    tval = B.field_value(tv, 4, 8)
    run.check(tvf == ("const", b"\x01\x00\x00\x00") and tval[0] == "expr" and tval[1][1] == ("param", pn[2]), "R4", "tfdt version", "version 1, 64-bit base time = the builder's parameter",
              "tfdt is not a version-1 box carrying the builder's base-decode-time parameter unmodified")
    tfdt_rule(cx, u, run, "R2", strict=False)
    # R3 init segment
    ini = FM + "::init_segment"
    try:
        isegs = it.production(ini)
        cache = getattr(it, "cache_returns", {}).get(ini)
        used = set()

        def rec(x):
            if isinstance(x, tuple):
                if len(x) == 3 and x[0] == "field" and x[1] == ("param", "self"):
                    used.add(x[2])
                for y in x:
                    rec(y)
            elif isinstance(x, list):
                for y in x:
                    rec(y)
        rec(isegs)
        run.check(len(used) == 1, "R3", "init-from-config-only", "init segment mentions only self.%s" % sorted(used), "init segment is built from mutable state: %s" % sorted(used))
        cfg = next(iter(used)) if used else None
        writers = sorted(mir.norm(p) for p, b in cx.live.items() if b.get("impl_self", "").startswith(FM) and any(r == ("arg", 1) and pa[:1] == (cfg,) for (r, pa) in cx.st.sum[p]))
        run.check(not writers, "R3", "config-immutable", "no method stores to self.%s after construction" % cfg, "self.%s is modified by %s" % (cfg, writers))
        ok = cache is not None and cache[0][0] == "is" and cache[0][1][0] == "field" and str(cache[0][2]).endswith("Some")
        run.check(ok, "R3", "cache-first", "returns the cached segment when present", "init_segment does not return a cached copy first")
        if ok:
            cf = cache[0][1][2]
            st_init = {pa[0] for (r, pa) in cx.st.sum[ini] if r == ("arg", 1) and pa}
            run.check(st_init == {cf}, "R3", "cache-store", "stores only the cache field `%s`" % cf, "init_segment stores %s" % sorted(st_init))
    except L.Unanalysable as e:
        run.bad("R3", "init unanalysable", str(e))
