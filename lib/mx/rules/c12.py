"""C12 — no public entry point panics, overflows or hangs on any input.

Every panic-capable MIR site (Assert terminators: arithmetic overflow, bounds, division/remainder by zero; calls to panicking
std functions: slice/str indexing, Option/Result unwrap/expect, explicit panics; calls to the crate's own always-on
`assert_invariant!`) and every loop reachable from the public surface of api, fragmented, codec::*, validation is an
*obligation*.  Discharge classes: D1 constant evaluation; D2 proved by dominating-guard entailment (lib/mx/absint.py: guards and
passed asserts that dominate the site, type ranges, allocation bound on lengths; Fourier-Motzkin refutation); D3 a named lemma
whose applicability pattern is machine-checked (lib/mx/lemmas.py).  Anything else is open: a violation unless exactly listed as a
known finding.  Loops: L1 iterator-driven, L2 counter with a dominating bound test, L3 lemma; a loop bounded only by the
*magnitude* of an input integer is reported (not prompt).
Declared exclusions: allocation failure / capacity overflow, stack exhaustion, panics inside dependencies not caused by a
violated documented precondition; 64-bit usize."""
from .. import absint as A
from .. import flow, guards, mir, sym
from . import lemmas

EXPLANATION = (
    "whole-library obligation inventory on MIR (overflow-checks on): every Assert terminator and every call to a panicking std function or to the crate's always-on assert_invariant! reachable from a public entry "
    "point, plus every loop, is enumerated; each is discharged by constant evaluation, by entailment from the guards/asserts that dominate it (linear integer constraints over locals, loads and slice lengths, "
    "type ranges, allocation bound; Fourier-Motzkin refutation inside the checker), or by a named lemma with a machine-checked applicability pattern. Undischarged obligations are violations unless listed as known "
    "findings with a concrete failing input.")
TRUSTED = ["absint entailment engine", "lemma table (lib/mx/rules/lemmas.py)", "externals: which std functions can panic"]
ASSUMPTIONS = ["allocation failure, capacity overflow and stack exhaustion excluded", "no slice/Vec/String exceeds isize::MAX bytes (language guarantee); usize is 64 bits",
               "A1: fewer than 2^32 - 1 samples per track and fragments per muxer (counters and 1-based sample numbers; lemma L-COUNT)",
               "A2: the sizes of simultaneously live buffers sum to less than 2^62 bytes (lemma L-ALLOC: sums of payload lengths)"]

ENTRY_MODULES = ("api::", "fragmented::", "codec::", "validation::", "<api::", "<fragmented::", "<codec::", "<validation::", "muxer::mp4::AdtsValidationError", "<muxer::mp4::", "muxer::mp4::_::")

# std callees that can panic and the condition that must be proved
PANIC_CALLS = {
    "index": "index", "index_mut": "index", "unwrap": "unwrap", "expect": "unwrap", "copy_from_slice": "copy", "split_at": "split",
    "step_by": "nonzero-arg", "panic_fmt": "panic", "panic": "panic", "unreachable": "panic", "panic_display": "panic", "begin_panic": "panic",
    "borrow_mut": "borrow", "borrow": "borrow", "with": "tls", "sort_by_key": "sort", "sort_by": "sort", "sort": "sort",
    "remove": "index1", "swap_remove": "index1", "insert": "index1le", "drain": "range", "split_off": "index1le", "chunks": "nonzero-arg", "chunks_exact": "nonzero-arg",
    "windows": "nonzero-arg", "div_euclid": "nonzero-arg", "rem_euclid": "nonzero-arg", "pow": "pow", "abs": "abs", "from_str_radix": "radix", "repeat": "alloc", "clone_from_slice": "copy",
}


def _kname(fn):
    """function name for semantic keys: closure ordinals are dropped (they shift when an unrelated closure is added)"""
    import re as _re
    return _re.sub(r"\{closure#\d+\}", "{closure}", mir.norm(fn))


def entries(u):
    out = []
    for p, b in u.bodies.items():
        if b["in_test_cfg"] or not b["reachable_pub"]:
            continue
        n = mir.norm(p)
        if n.startswith("invariant_ppt::"):
            continue
        out.append(p)
    return sorted(out)


class Ob:
    def __init__(self, fn, bb, kind, desc, node, full=None):
        self.fn, self.bb, self.kind, self.desc, self.node = fn, bb, kind, desc, node
        self.full = full or desc
        self.status = "open"
        self.how = ""


def collect(u, g, reach):
    obs = []
    for p in sorted(reach):
        b = u.bodies[p]
        if b["in_test_cfg"]:
            continue
        live = mir.live_blocks(b)
        for blk in b["blocks"]:
            if blk["cleanup"] or blk["i"] not in live:
                continue
            t = blk["term"]
            if t["k"] == "assert":
                m = t["msg"]
                k = m["kind"]
                if k == "other":
                    continue     # compiler-inserted pointer alignment / null checks (debug assertions), not user-level panics
                if k == "overflow":
                    desc = "%s %s %s" % (sym.show(sym.expr(b, m["a"]))[:60], m["op"], sym.show(sym.expr(b, m["b"]))[:60])
                    full = "%s %s %s" % (sym.show(sym.expr(b, m["a"])), m["op"], sym.show(sym.expr(b, m["b"])))
                    obs.append(Ob(p, blk["i"], "overflow:" + m["op"], desc, t, full))
                elif k == "bounds":
                    obs.append(Ob(p, blk["i"], "bounds", "%s < %s" % (sym.show(sym.expr(b, m["index"]))[:60], sym.show(sym.expr(b, m["len"]))[:60]), t))
                elif k in ("div_zero", "rem_zero"):
                    obs.append(Ob(p, blk["i"], k, sym.show(sym.expr(b, m["a"]))[:80], t))
                elif k == "overflow_neg":
                    obs.append(Ob(p, blk["i"], "overflow:Neg", sym.show(sym.expr(b, m["a"]))[:80], t))
            elif t["k"] == "call":
                name, info = mir.callee(t)
                if name is None:
                    obs.append(Ob(p, blk["i"], "indirect-call", "call through a function pointer / dyn", t))
                    continue
                n = mir.norm(name)
                last = n.split("::")[-1]
                if n.endswith("invariant_ppt::__assert_invariant_impl"):
                    c = sym.expr(b, t["args"][0])
                    obs.append(Ob(p, blk["i"], "invariant", sym.show(c)[:100], t, sym.show(c)))
                    continue
                if name in u.bodies:
                    continue
                if last in PANIC_CALLS and _is_std(n):
                    kind = PANIC_CALLS[last]
                    if kind == "index" and not _indexable_panics(n):
                        continue
                    if last in ("insert", "remove") and ("HashSet" in n or "HashMap" in n or "Map::" in n or "BTree" in n):
                        continue
                    if last == "with" and "LocalKey" not in n:
                        continue
                    if last in ("borrow", "borrow_mut") and "RefCell" not in n:
                        continue
                    if last == "repeat" and "iter" in n:
                        continue
                    args = ", ".join(sym.show(sym.expr(b, a))[:50] for a in t["args"])
                    full = ", ".join(sym.show(sym.expr(b, a)) for a in t["args"])
                    obs.append(Ob(p, blk["i"], "call:" + last, args[:120], t, full))
    return obs


def _op_ty(op):
    if op.get("k") in ("copy", "move"):
        return op["place"]["ty"]
    if op.get("k") == "const":
        return op.get("ty")
    return None


def _is_std(n):
    return n.startswith("std::") or n.startswith("core::") or n.startswith("alloc::") or n.startswith("<")


def _indexable_panics(n):
    return True


def discharge(u, ob, cxs, st):
    b = u.bodies[ob.fn]
    if ob.fn not in cxs:
        cxs[ob.fn] = A.Ctx(b, u, st.sites.get(ob.fn) if st else None)
    cx = cxs[ob.fn]
    t = ob.node
    # hypotheses at the *entry* of the obligation's terminator = end of its block minus nothing (terminator is last)
    bb = ob.bb
    k = ob.kind
    try:
        if k.startswith("overflow:"):
            op = k.split(":")[1]
            m = t["msg"]
            a, c = sym.expr(b, m["a"]), sym.expr(b, m["b"])
            ty = _op_ty(m["a"]) or _op_ty(m["b"]) or cx.ty_of(a) or cx.ty_of(c)
            r = cx.rng(ty)
            if op in ("Shl", "Shr"):
                # the overflow condition of a shift is about the shift amount
                bits = {"u8": 8, "i8": 8, "u16": 16, "i16": 16, "u32": 32, "i32": 32, "u64": 64, "i64": 64, "usize": 64, "isize": 64, "u128": 128, "i128": 128}.get((_op_ty(m["a"]) or cx.ty_of(a) or "").lstrip("&"))
                amt = cx.lin(c)
                if bits is None:
                    return
                ok1, h1 = cx.prove_le0(amt - A.Lin(bits - 1), bb)
                ok2, h2 = cx.prove_le0(amt.scale(-1), bb)
                if ok1 and ok2:
                    ob.status, ob.how = ("D1" if amt.is_const() else "D2"), "shift amount < %d (%s)" % (bits, h1)
                return
            if r is None:
                return
            la, lc = cx.lin(a), cx.lin(c)
            if op == "Add":
                v = la + lc
            elif op == "Sub":
                v = la - lc
            elif op == "Mul":
                if la.is_const():
                    v = lc.scale(la.c)
                elif lc.is_const():
                    v = la.scale(lc.c)
                else:
                    ia, ic = cx.interval(a), cx.interval(c)
                    if ia and ic and ia[0] >= 0 and ic[0] >= 0 and ia[1] * ic[1] <= r[1]:
                        ob.status, ob.how = "D2", "interval product"
                    return
            else:
                return
            ok1, h1 = cx.prove_le0(v - A.Lin(r[1]), bb)
            ok2, h2 = cx.prove_le0(A.Lin(r[0]) - v, bb)
            if ok1 and ok2:
                ob.status = "D1" if v.is_const() else "D2"
                ob.how = "%s in [%d, %d] (%s/%s)" % (op, r[0], r[1], h1, h2)
                return
            # L-ALLOC (assumption A2): a sum of lengths of distinct simultaneously live buffers plus a small constant
            if op == "Add" and v.t and all(k[0] == "len" and co == 1 for k, co in v.t.items()) and 0 <= v.c and v.c + A.ALLOC_TOTAL <= r[1]:
                ob.status, ob.how = "D3", "L-ALLOC: sum of the lengths of %d live buffers + %d; bounded under assumption A2 (live buffers total < 2^62 bytes)" % (len(v.t), v.c)
                A.USED_LEMMAS["L-ALLOC"] = A.USED_LEMMAS.get("L-ALLOC", 0) + 1
                return
            # finite-domain evaluation: both operands are functions of one `x % c`
            whole = ("bin", op, a, c)
            lv = A.finite_leaves(whole, cx)
            if lv and len(lv) == 1:
                (key, n), = lv.items()
                try:
                    f = A.compile_expr(whole, [key])
                    good = all(r[0] <= f(i) <= r[1] for i in range(n))
                except A.NoEval:
                    good = False
                if good:
                    ob.status, ob.how = "D1", "evaluated for all %d values of the common `x %% %d` sub-expression: %s stays in [%d, %d]" % (n, n, op, r[0], r[1])
            return
        if k == "bounds":
            m = t["msg"]
            idx, ln = cx.lin(sym.expr(b, m["index"])), cx.lin(sym.expr(b, m["len"]))
            ok, h = cx.prove_le0(idx - ln + A.Lin(1), bb)
            if ok:
                ob.status, ob.how = ("D1" if idx.is_const() and ln.is_const() else "D2"), "index < len (%s)" % h
            return
        if k in ("div_zero", "rem_zero"):
            c = sym.expr(b, t["cond"])
            ok, h = (prove_bool(cx, c, bb) if t["expected"] else prove_false(cx, c, bb))
            if ok:
                ob.status, ob.how = ("D1" if h == "constant" or _all_const(c) else "D2"), "divisor != 0 (%s)" % h
            return
        if k == "invariant":
            c = sym.expr(b, t["args"][0])
            ok, h = prove_bool(cx, c, bb)
            if ok:
                ob.status, ob.how = "D2", "condition entailed (%s)" % h
            return
        if k == "call:index" or k == "call:index_mut":
            base, ix = sym.expr(b, t["args"][0]), sym.expr(b, t["args"][1])
            nm_ = mir.norm(mir.callee(t)[0] or "")
            if "std::string::String as std::ops::Index" in nm_ or "core::str::" in nm_ or "<str as std::ops::Index" in nm_ or nm_.startswith("core::str::traits::"):
                # slicing a str panics also when a bound is not a char boundary: only whole-string ranges (0 / len) are accepted
                def edge(x):
                    return x is None or x[:2] == ("const", 0) or (x[0] == "call" and x[1].split("::")[-1] == "len" and x[2] and sym.sources(x[2][0]) == sym.sources(base))
                rs = ix[3] if ix[0] == "agg" and "Range" in str(ix[1]) else None
                if rs is None or not all(edge(x) for x in rs):
                    return
            ok, h = prove_index(cx, base, ix, bb)
            if ok:
                ob.status, ob.how = "D2", h
            return
        if k in ("call:unwrap", "call:expect"):
            r = sym.expr(b, t["args"][0])
            ok, h = prove_some(cx, b, r, bb)
            if ok:
                ob.status, ob.how = "D2", h
            return
    except RecursionError:
        return


def _all_const(e):
    return not any(isinstance(t, tuple) and t and t[0] in ("arg", "var", "load", "call") for t in sym.walk(e))


def prove_bool(cx, c, bb):
    """prove that boolean expression c is true at the end of bb"""
    h = c[0]
    if h == "const":
        return (bool(c[1]), "constant")
    if h == "un" and c[1] == "Not":
        return prove_false(cx, c[2], bb)
    if h == "bin" and c[1] in ("Eq", "Ne", "Lt", "Le", "Gt", "Ge"):
        if cx.ty_of(c[2]) is not None and cx.rng(cx.ty_of(c[2])) is None:
            return False, "non-integer comparison"
        a, b_ = cx.lin(c[2]), cx.lin(c[3])
        d = a - b_
        op = c[1]
        if op == "Le":
            return cx.prove_le0(d, bb)
        if op == "Lt":
            return cx.prove_le0(d + A.Lin(1), bb)
        if op == "Ge":
            return cx.prove_le0(d.scale(-1), bb)
        if op == "Gt":
            return cx.prove_le0(d.scale(-1) + A.Lin(1), bb)
        if op == "Eq":
            o1, h1 = cx.prove_le0(d, bb)
            o2, h2 = cx.prove_le0(d.scale(-1), bb)
            return (o1 and o2), h1
        if op == "Ne":
            o1, h1 = cx.prove_le0(d + A.Lin(1), bb)
            if o1:
                return True, h1
            return cx.prove_le0(d.scale(-1) + A.Lin(1), bb)
    if h == "bin" and c[1] == "BitAnd" and cx.ty_of(c[2]) == "bool":
        o1, h1 = prove_bool(cx, c[2], bb)
        o2, h2 = prove_bool(cx, c[3], bb)
        return (o1 and o2), h1
    if h == "bin" and c[1] == "BitOr" and cx.ty_of(c[2]) == "bool":
        o1, h1 = prove_bool(cx, c[2], bb)
        if o1:
            return True, h1
        return prove_bool(cx, c[3], bb)
    if h == "call" and c[1].split("::")[-1] == "is_empty":
        return False, "is_empty"
    if h == "call":
        # the very same pure test was taken on a dominating branch (e.g. `if !check(x) { return }` ... `assert(check(x))`)
        for (s_, d, tk) in guards.guards_of(cx.b, bb):
            if _strip_bb(d) == _strip_bb(c) and guards.truth(tk) is True and not any(isinstance(y, tuple) and y and y[0] == "var" for y in sym.walk(c)) and _pure_local(cx, c):
                return True, "same test on a dominating branch"
        return False, "unsupported condition"
    if h == "var":
        # a bool local assigned on several paths (short-circuit && / ||): true iff every definition is a true constant or proved
        return prove_var_bool(cx, c, bb, True)
    return False, "unsupported condition"


def _strip_bb(e):
    """call expressions carry the block of their call site: drop it to compare two evaluations of the same call"""
    if isinstance(e, tuple):
        if len(e) == 5 and e[0] == "call" and isinstance(e[4], int):
            return tuple(_strip_bb(x) for x in e[:4])
        return tuple(_strip_bb(x) for x in e)
    return e


def _pure_local(cx, c):
    """call to a local function that writes nothing (store summary empty) on arguments that are shared references / values"""
    if cx.u is None or len(c) < 4 or c[3] not in cx.u.bodies:
        return False
    cb = cx.u.bodies[c[3]]
    if any(l["ty"].startswith("&mut") for l in cb["locals"][1:cb["argc"] + 1]):
        return False
    for blk in cb["blocks"]:
        t = blk["term"]
        if t["k"] == "call":
            name, info = mir.callee(t)
            if name and "invariant" in name:
                continue
    return True


def prove_false(cx, c, bb):
    h = c[0]
    if h == "call" and c[1].split("::")[-1] == "is_empty" and c[2]:
        k = cx.len_key(c[2][0])
        me = cx.atom(k, 0, A.LEN_MAX)
        ok, how = cx.prove_le0(A.Lin(1) - me, bb)
        if ok:
            return ok, how
        return option_payload_nonempty(cx, c[2][0])
    if h == "un" and c[1] == "Not":
        return prove_bool(cx, c[2], bb)
    if h == "bin" and c[1] in ("Eq", "Ne", "Lt", "Le", "Gt", "Ge"):
        neg = {"Eq": "Ne", "Ne": "Eq", "Lt": "Ge", "Le": "Gt", "Gt": "Le", "Ge": "Lt"}[c[1]]
        return prove_bool(cx, ("bin", neg, c[2], c[3]), bb)
    return False, "unsupported negation"


def prove_var_bool(cx, c, bb, want):
    b = cx.b
    ds = cx.defs.get(c[1], [])
    if not ds or len(ds) > 6:
        return False, "multi-def bool"
    for d in ds:
        if d[0] != "stmt":
            return False, "bool from call"
        e = sym.expr_rv(b, d[3]["rv"])
        if e[0] == "const":
            if bool(e[1]) != want:
                # this definition must be unreachable... or it is the short-circuit `false` arm: then the condition fails there
                ok, h = False, "constant %s arm" % e[1]
                # the arm is taken only when an earlier conjunct is false: every edge into this block must be impossible
                edges = _incoming_edges(cx, d[1])
                if not edges:
                    return False, h
                for (pb, de, tk) in edges:
                    if _exhausted(cx, de, tk):
                        continue      # the `otherwise` arm of a switch over every variant of the enum: unreachable
                    tr = guards.truth(tk)
                    if tr is None:
                        return False, h
                    okk, hh = (prove_bool(cx, de, pb) if not tr else prove_false(cx, de, pb))
                    if not okk:
                        return False, h
            continue
        ok, h = (prove_bool(cx, e, d[1]) if want else prove_false(cx, e, d[1]))
        if not ok:
            return False, h
    return True, "all definitions entail it"


def option_payload_nonempty(cx, x):
    """x = (<Option local>.as Some).0 : every definition of the local is None or Some(v) with len(v) >= 1 where it is made"""
    while x[0] == "ref":
        x = x[1]
    if not (x[0] == "proj" and x[2] == "0" and x[1][0] == "proj" and str(x[1][2]).startswith("as Some") and x[1][1][0] == "var"):
        return False, "no guard"
    l = x[1][1][1]
    ds = cx.defs.get(l, [])
    if not ds or cx.pdefs.get(l):
        return False, "no guard"
    n = 0
    for d in ds:
        if d[0] != "stmt":
            return False, "slot assigned from a call"
        e = sym.expr_rv(cx.b, d[3]["rv"], stop=(l,))
        if e[0] == "agg" and str(e[1]).endswith("Option::None"):
            continue
        if e[0] == "agg" and str(e[1]).endswith("Option::Some") and e[3]:
            k = cx.len_key(e[3][0])
            ok, _h = cx.prove_le0(A.Lin(1) - cx.atom(k, 0, A.LEN_MAX), d[1])
            if not ok:
                return False, "slot may receive an empty value"
            n += 1
            continue
        return False, "slot definition not understood"
    return n > 0, "every Some(v) stored in the slot has len(v) >= 1 where it is stored (%d sites)" % n


def _incoming_edges(cx, blk, depth=0):
    """switch edges that lead into blk, looking back through goto-only blocks: [(switch block, discr expr, taken)] or None"""
    b = cx.b
    out = []
    for pb in cx.preds.get(blk, []):
        t = b["blocks"][pb]["term"]
        if t["k"] == "switch":
            de = sym.expr(b, t["discr"])
            for v, tgt in t["arms"]:
                if tgt == blk:
                    out.append((pb, de, ("eq", v)))
            if t["otherwise"] == blk:
                out.append((pb, de, ("ne", [v for v, _ in t["arms"]])))
        elif t["k"] == "goto" and depth < 4:
            sub = _incoming_edges(cx, pb, depth + 1)
            if not sub:
                return None
            out += sub
        else:
            return None
    return out


def _exhausted(cx, de, tk):
    if not (tk[0] == "ne" and de[0] == "discr" and cx.u is not None):
        return False
    ty = cx.ty_of(de[1]) or (de[1][2] if de[1][0] == "load" and len(de[1]) > 2 else None)
    adt = cx.u.adts.get((ty or "").lstrip("&"))
    if not adt or adt.get("kind") != "Enum":
        return False
    n = len(adt["variants"])
    try:
        vals = {int(v) for v in tk[1]}
    except (TypeError, ValueError):
        return False
    return vals == set(range(n))


def prove_index(cx, base, ix, bb):
    x = base
    while x[0] == "ref":
        x = x[1]
    if x[0] == "call" and x[1] in ("std::mem::take", "core::mem::take") and len(x) > 4 and x[2] and isinstance(x[4], int):
        # the taken value has the length the place had when `take` ran: judge the index there (facts at the start of that block)
        k = cx.len_key(x[2][0])
        ln = cx.atom(k, 0, A.LEN_MAX)
        ty = cx.ty_of(ix)
        if cx.rng(ty) and not any(isinstance(y, tuple) and y and y[0] in ("var", "load") for y in sym.walk(ix)):
            o, h = cx.prove_le0(cx.lin(ix) - ln + A.Lin(1), x[4], entry=True)
            return o, "index < len of the value taken (%s)" % h
        return False, "index into a taken value"
    k = cx.len_key(base)
    ln = cx.atom(k, 0, A.LEN_MAX)
    cx.len_facts(base, k)
    if ix[0] == "agg" and "Range" in str(ix[1]):
        nm = str(ix[1])
        f = ix[3]
        if nm.endswith("ops::Range::Range") and len(f) == 2:
            a, b_ = cx.lin(f[0]), cx.lin(f[1])
            o1, h1 = cx.prove_le0(a - b_, bb)
            o2, h2 = cx.prove_le0(b_ - ln, bb)
            return (o1 and o2), "start <= end <= len (%s, %s)" % (h1, h2)
        if "RangeFrom" in nm and len(f) == 1:
            o, h = cx.prove_le0(cx.lin(f[0]) - ln, bb)
            return o, "start <= len (%s)" % h
        if "RangeTo::" in nm and len(f) == 1:
            o, h = cx.prove_le0(cx.lin(f[0]) - ln, bb)
            return o, "end <= len (%s)" % h
        if "RangeFull" in nm:
            return True, "full range"
        if "RangeInclusive" in nm:
            return False, "inclusive range"
    ty = cx.ty_of(ix)
    if cx.rng(ty):
        o, h = cx.prove_le0(cx.lin(ix) - ln + A.Lin(1), bb)
        return o, "index < len (%s)" % h
    return False, "unsupported index"


def prove_some(cx, b, r, bb):
    """the Option/Result receiver of unwrap/expect is Some/Ok on every path"""
    x = r
    # last()/first() of a non-empty slice
    if x[0] == "call" and x[1].split("::")[-1] in ("last", "first", "last_mut", "first_mut") and x[2]:
        k = cx.len_key(x[2][0])
        ln = cx.atom(k, 0, A.LEN_MAX)
        o, h = cx.prove_le0(A.Lin(1) - ln, bb)
        return o, "non-empty (%s)" % h
    # <[u8; N]>::try_from(slice) with len(slice) == N
    if x[0] == "call" and x[1].split("::")[-1] in ("try_into", "try_from") and x[2]:
        inner = x[2][0]
        ty = b["locals"][0]["ty"]
        k = cx.len_key(inner)
        ln = cx.atom(k, 0, A.LEN_MAX)
        cx.len_facts(inner, k)
        # target array length from the unwrap's result type: [u8; N]
        import re
        return False, "array conversion"
    # guarded by is_some / discriminant on the same place
    gs = guards.guards_of(b, bb)
    for (s_, d, tk) in gs:
        if d[0] == "call" and d[1].split("::")[-1] in ("is_some", "is_ok") and guards.truth(tk) and d[2] and _same_place(d[2][0], x):
            return True, "guarded by is_some"
        if d[0] == "call" and d[1].split("::")[-1] in ("is_none", "is_err") and guards.truth(tk) is False and d[2] and _same_place(d[2][0], x):
            return True, "guarded by !is_none"
    # L-CORRELATED: guarded by `T.k is Some` where the tuple T gets Some(..) in component k only under `is_some(receiver)`
    for (s_, d, tk) in gs:
        if not (d[0] == "discr" and tk == ("eq", "1") and d[1][0] == "proj" and d[1][1][0] == "var" and str(d[1][2]).isdigit()):
            continue
        l, comp = d[1][1][1], int(d[1][2])
        ds = cx.defs.get(l, [])
        if not ds or cx.pdefs.get(l):
            continue
        good = True
        nsome = 0
        for df in ds:
            if df[0] != "stmt":
                good = False
                break
            e = sym.expr_rv(b, df[3]["rv"], stop=(l,))
            if not (e[0] == "agg" and e[1] == "tuple" and comp < len(e[3])):
                good = False
                break
            c = e[3][comp]
            if c[0] == "agg" and str(c[1]).endswith("Option::None"):
                continue
            if c[0] == "agg" and str(c[1]).endswith("Option::Some"):
                dom = False
                for (s2, d2, tk2) in guards.guards_of(b, df[1]):
                    if d2[0] == "call" and d2[1].split("::")[-1] == "is_some" and guards.truth(tk2) and d2[2] and _same_place(d2[2][0], x):
                        dom = True
                if not dom:
                    good = False
                    break
                nsome += 1
                continue
            good = False
            break
        if not (good and nsome):
            continue
        # the receiver place is not written in this function
        pl = x
        while isinstance(pl, tuple) and pl and pl[0] == "ref":
            pl = pl[1]
        if pl[0] == "call" and pl[2]:
            pl = pl[2][0]
        while isinstance(pl, tuple) and pl and pl[0] == "ref":
            pl = pl[1]
        path = pl[1] if pl[0] in ("refplace", "load") else None
        if path is None or cx._mem_writers(path):
            continue
        return True, "L-CORRELATED: guarded by component %d of a tuple that is Some only where is_some(%s) held; %s is not written in this function" % (comp, path, path)
    return False, "no guard"


def _same_place(a, b):
    def norm(x):
        while isinstance(x, tuple) and x and x[0] in ("ref",):
            x = x[1]
        if x[0] == "call" and x[1].split("::")[-1] in ("as_ref", "as_mut", "as_deref") and x[2]:
            return norm(x[2][0])
        if x[0] in ("refplace", "load"):
            return ("p", x[1])
        return x
    return norm(a) == norm(b)


def loops(u, reach):
    """natural loops (back edges) of reachable bodies with their variant class"""
    out = []
    for p in sorted(reach):
        b = u.bodies[p]
        if b["in_test_cfg"]:
            continue
        dom = mir.dominators(b)
        for blk in b["blocks"]:
            if blk["cleanup"] or blk["i"] not in dom:
                continue
            for s in mir.succs(b, blk["i"]):
                if s in dom[blk["i"]]:
                    out.append((p, s, blk["i"]))
    return out


def loop_blocks(b, header, latch):
    pr = mir.preds(b)
    seen = {header}
    work = [latch]
    while work:
        x = work.pop()
        if x in seen:
            continue
        seen.add(x)
        work.extend(pr[x])
    return seen


STD_ITERS = ("std::slice::Iter", "std::iter::Enumerate", "std::vec::IntoIter", "std::array::IntoIter", "std::ops::Range", "std::iter::range", "std::str::Chars", "std::iter::Take",
             "std::iter::Filter", "std::iter::Map", "std::iter::StepBy", "std::iter::Rev", "std::iter::Copied", "std::iter::Cloned", "std::collections::hash", "std::iter::Skip", "std::iter::Zip")


def classify_loop(u, p, header, latch, cxs, st):
    b = u.bodies[p]
    blocks = loop_blocks(b, header, latch)
    # L1: a std iterator's next() inside the loop whose None arm leaves the loop
    for bb in sorted(blocks):
        t = b["blocks"][bb]["term"]
        if t["k"] == "call":
            name, info = mir.callee(t)
            n = name or ""
            if n.endswith("::next") and ("Iterator" in n):
                recv_ty = (t["args"][0]["place"]["ty"] if t["args"] and t["args"][0]["k"] in ("copy", "move") else "")
                if any(s in n or s in recv_ty for s in STD_ITERS):
                    return "L1", "std iterator %s" % mir.norm(n).split(">")[0][1:60]
                if name in u.bodies:
                    return "L1-local", mir.norm(name)
    # L2: a counter with a dominating bound test
    if p not in cxs:
        cxs[p] = A.Ctx(b, u, st.sites.get(p) if st else None)
    cx = cxs[p]
    # exit tests: switches inside the loop with a successor outside
    exits = []
    for bb in blocks:
        t = b["blocks"][bb]["term"]
        if t["k"] == "switch":
            for s in mir.succs(b, bb):
                if s not in blocks:
                    exits.append((bb, t))
    counters = []
    for l, ds in cx.defs.items():
        inloop = [d for d in ds if d[1] in blocks and d[0] == "stmt"]
        if not inloop or len(ds) < 2:
            continue
        steps = []
        for d in inloop:
            e = sym.expr_rv(b, d[3]["rv"])
            if e[0] == "proj" and e[1][0] == "bin" and e[1][1] in ("AddWithOverflow", "SubWithOverflow") and e[1][2][0] == "var" and e[1][2][1] == l:
                steps.append((e[1][1][:3], e[1][3], d[1]))
            else:
                steps = None
                break
        if steps:
            counters.append((l, steps))
    for (l, steps) in counters:
        name = mir.debug_name(b, l) or "_%d" % l
        # every step moves by >= 1 in one direction
        dirs = {s[0] for s in steps}
        if len(dirs) != 1:
            continue
        pos = True
        for (_d, amt, sbb) in steps:
            la = cx.lin(amt)
            ok, _h = cx.prove_le0(A.Lin(1) - la, sbb)
            if not ok:
                pos = False
        if not pos:
            continue
        # the step lies on every path round the loop: its block dominates the latch
        dom = mir.dominators(b)
        if not all(s[2] in dom[latch] for s in steps):
            # several alternative increments (if/else): accept when together they cut every cycle — approximate by: each path header->latch
            if not _every_cycle_steps(b, blocks, header, latch, {s[2] for s in steps}):
                continue
        # an exit test compares the counter with something
        for (ebb, t) in exits:
            e = sym.expr(b, t["discr"])
            srcs = sym.sources(e)
            if any(s[0] == "var" and s[1] == l for s in srcs):
                bound = "length" if any(isinstance(x, tuple) and x and ((x[0] == "call" and x[1].split("::")[-1] == "len") or (x[0] == "un" and x[1] == "PtrMetadata")) for x in sym.walk(e)) else \
                    ("constant" if all(s[0] in ("var", "const") and (s[0] == "const" or s[1] == l) for s in srcs) else "input magnitude")
                # the bound must be loop-invariant: no other source is assigned inside the loop
                for s in srcs:
                    if s[0] == "var" and s[1] != l and any(d[1] in blocks for d in cx.defs.get(s[1], [])):
                        bound = "varying"
                if bound in ("length", "constant"):
                    return "L2", "counter `%s` (%s by >=1) tested against a %s bound" % (name, dirs.pop(), bound)
                if bound == "input magnitude":
                    return "Lmag", "counter `%s` bounded only by the magnitude of an input value" % name
    return "open", "no variant found"


def _every_cycle_steps(b, blocks, header, latch, step_blocks):
    # is the latch reachable from the header inside the loop while avoiding all step blocks?
    seen, work = set(), [header]
    while work:
        x = work.pop()
        if x in seen or x in step_blocks or x not in blocks:
            continue
        seen.add(x)
        if x == latch:
            return False
        work.extend(s for s in mir.succs(b, x))
    return True


def check(prog, run):
    run.rule("R1", "panic obligations: every reachable Assert / panicking call / assert_invariant! is discharged (D1 const, D2 entailed by dominating guards, D3 lemma)")
    run.rule("R2", "termination: every reachable loop has a variant (L1 std iterator, L2 counter against a length/constant bound, L3 lemma); magnitude-bounded loops are reported")
    u = prog.lib
    g = mir.Graph(u)
    st = mir.Stores(g)
    ents = entries(u)
    reach = g.reach(ents)
    run.extra["entry_points"] = len(ents)
    run.extra["reachable_functions"] = len(reach)
    run.assumptions += ASSUMPTIONS
    obs = collect(u, g, reach)
    cxs = {}
    seen = {}
    seen_open = {}
    counts = {"D1": 0, "D2": 0, "D3": 0, "open": 0}
    lem = lemmas.Lemmas(u, g, st)
    for ob in obs:
        discharge(u, ob, cxs, st)
        if ob.status == "open":
            l = lem.try_discharge(ob, cxs)
            if l:
                ob.status, ob.how = "D3", l
        base = "%s %s %s" % (_kname(ob.fn), ob.kind, ob.desc)
        seen[base] = seen.get(base, 0) + 1
        key = base + (" #%d" % seen[base] if seen[base] > 1 else "")
        counts[ob.status] += 1
        if ob.status == "open":
            # undischarged obligations are keyed by *what* can go wrong, not by where the code lives (a moved or merged site keeps
            # its key; an additional site of the same kind gets the next ordinal and is new)
            sk = "%s %s" % (ob.kind, mir.site_free_desc(u.bodies[ob.fn], ob.full)[:150])
            seen_open[sk] = seen_open.get(sk, 0) + 1
            key = sk + (" #%d" % seen_open[sk] if seen_open[sk] > 1 else "")
            run.bad("R1", key, "cannot exclude a panic here: %s in %s" % (ob.kind, _kname(ob.fn)), mir.loc_of(ob.node))
        else:
            run.ok("R1", key, "%s: %s" % (ob.status, ob.how), mir.loc_of(ob.node), how="const" if ob.status == "D1" else "structural")
    run.extra["discharge"] = counts
    run.floor("R1", len(obs), 250, "panic obligations")
    lcount = {}
    seenl = {}
    for (p, header, latch) in loops(u, reach):
        cls, why = classify_loop(u, p, header, latch, cxs, st)
        if cls in ("open", "L1-local"):
            l = lem.try_loop(p, header, latch, cls, why)
            if l:
                cls, why = "L3", l
        lcount[cls] = lcount.get(cls, 0) + 1
        base = "loop %s" % _kname(p)
        seenl[base] = seenl.get(base, 0) + 1
        key = base + " #%d" % seenl[base]
        b = u.bodies[p]
        if cls in ("L1", "L2", "L3"):
            run.ok("R2", key, "%s: %s" % (cls, why), mir.loc_of(b["blocks"][header]["term"]))
        elif cls == "Lmag":
            run.bad("R2", key + " Lmag", "loop terminates but its trip count is bounded only by the magnitude of an input integer, not by a buffer length: not prompt (%s)" % why, mir.loc_of(b["blocks"][header]["term"]))
        else:
            run.bad("R2", key, "no termination argument found for this loop (%s)" % why, mir.loc_of(b["blocks"][header]["term"]))
    run.extra["loops"] = lcount
    used = dict(lem.used)
    for k_, v_ in A.USED_LEMMAS.items():
        used[k_] = used.get(k_, 0) + v_
    run.extra["lemmas_used"] = used
    run.floor("R2", sum(lcount.values()), 40, "loops")
