"""C13 — sink failures and partial writes never corrupt, duplicate or hide data.

R1 the sink is reached only through Write::write_all (std contract: retries Interrupted, continues after short
writes, fails only on an error or Ok(0)) and the byte counter is independent of the sink;
R2 propagate-only: the Result of every sink-helper call — and of every call into the writer tree — flows only into
`?` (or is the function's own result); the Break edge leaves without calling into the writer tree again (no retry, no
alternative continuation, no swallowing) => the buffers offered to the sink form one fixed sequence, so the accepted
bytes are a prefix of the fault-free file and an error is reported iff a write failed;
R3 no write after a failure: `finalized = true` precedes the first write and is never cleared (C06.R2/R3);
R4 no panic on the finalize path (C12 obligations restricted to the writer tree; shares known findings with C12);
R5 io::Error -> MuxerError::Io unmodified."""
from .. import flow, mir, sym
from ..anchors import AnchorMissing
from . import c06, common

EXPLANATION = (
    "static analysis on MIR: R1 who-may-call on the sink (only Write::write_all, only in the counted helper; counter := counter(+)len(buf) independent of the sink); "
    "R2 every Result produced by the helper or by a writer-tree function is consumed by `?`/returned, and the Break edge reaches the return without any further writer-tree call; "
    "R3 sink-guard dominance (flag set before first write, never cleared); R5 the From<io::Error> conversion wraps the error unmodified. "
    "Together: the sequence of buffers handed to write_all is sink-independent and stops at the first failure. Relies on std's write_all contract for short/interrupted writes.")
TRUSTED = ["std::io::Write::write_all contract", "mxlint fact extraction"]


def check(prog, run):
    run.rule("R1", "sink only via Write::write_all inside the single counted helper; counter independent of the sink")
    run.rule("R2", "propagate-only: results of helper / writer-tree calls flow only into `?` or the function result; the Break edge makes no further writer-tree call")
    run.rule("R3", "finalized=true dominates every sink write and is never cleared")
    run.rule("R4", "byte counter: see C06.R4 (same rule instances)")
    run.rule("R5", "io::Error is wrapped unmodified into MuxerError::Io on the finish path")
    try:
        cx = common.Ctx(prog)
    except AnchorMissing as e:
        run.bad("R1", "anchor", "anchor missing: %s" % e)
        return
    an, u, g = cx.an, cx.u, cx.g
    c06.r1(cx, run)
    if an.F is None:
        return
    c06.r2(cx, run)
    # relabel c06's R2 -> R3 here, then add the flag-store rule
    for o in run.obs:
        if o["rule"] == "R2":
            o["rule"] = "R3"
    if an.flag_field:
        for (p, bb, i, val, node) in an.flag_setters.get(an.flag_field, []):
            run.check(val == 1, "R3", "flag-store %s" % mir.norm(p), "stores `true`", "finalisation flag cleared through a reference", mir.loc_of(node))
    c06.r4(cx, run)
    r2(cx, run)
    r5(cx, run)


def r2(cx, run):
    an, u, g = cx.an, cx.u, cx.g
    F = an.F
    tree = {p for p in g.edges if F in g.reach([p])}     # functions that can reach a sink write (incl. F)
    n = 0
    for p in sorted(tree - {F}):
        b = u.bodies[p]
        tries = flow.try_sites(b)
        exits = flow.exits(b)
        ordn = 0
        for bb, t, name, info in mir.calls(b):
            if name not in tree:
                continue
            ordn += 1
            n += 1
            key = "propagate %s -> %s #%d" % (mir.norm(p), mir.norm(name).split("::")[-1], ordn)
            # (a) consumed by `?`
            ts = [x for x in tries if x["src_call_bb"] == bb]
            deleg = [e for e in exits if e["kind"] == "deleg" and e["node"] is t]
            # deleg through passthrough (e.g. `.map(|_| ())`)
            if not deleg:
                for e in exits:
                    if e["kind"] == "deleg" and e.get("callee") and mir.norm(e["callee"]) in flow.PASS_THROUGH:
                        inner = flow.strip_passthrough(sym.expr(b, e["node"]["args"][0]))
                        if inner and inner[0] == "call" and len(inner) > 4 and inner[4] == bb:
                            deleg.append(e)
            if deleg and not ts:
                # returned as the function's own result: on every path - nothing may look at the verdict and go back into the writer tree
                after = mir.reachable(b, [t["target"]]) if t.get("target") is not None else set()
                again = [bb2 for bb2, t2, n2, i2 in mir.calls(b) if bb2 in after and n2 in tree]
                run.check(not again, "R2", key, "result returned as the function's own result; no writer-tree call can follow it",
                          "the Result of this writer-tree call is returned on one path but on another the function calls into the writer tree again (bb %s) after it came back: a failed write can be followed by an alternative continuation" % again, mir.loc_of(t))
                continue
            if len(ts) != 1:
                run.bad("R2", key, "the Result of this writer-tree call is not consumed by exactly one `?` (found %d) nor returned — an error could be dropped or handled locally" % len(ts), mir.loc_of(t))
                continue
            x = ts[0]
            # the result local must have no other use: check that the raw operand chain is call -> passthrough* -> branch
            # (b) Break edge: no further call into the tree, reaches a residual exit
            brk_reach = mir.reachable(b, [x["brk"]]) if x["brk"] is not None else set()
            again = [bb2 for bb2, t2, n2, i2 in mir.calls(b) if bb2 in brk_reach and n2 in tree]
            resid = [e for e in exits if e["kind"] == "residual" and e["bb"] in brk_reach]
            good = not again and resid and _dest_single_use(b, t)
            run.check(good, "R2", key, "`?`: Break edge returns the error without touching the writer tree again",
                      "after a failed write the function continues into the writer tree (bb %s), or the error does not reach the return" % again, mir.loc_of(t))
    run.floor("R2", n, 12, "writer-tree call sites")
    # the sink calls themselves: each buffer is offered exactly once per helper invocation and the sink's verdict is final
    for (p, bb, method, t) in an.sink_calls:
        b = u.bodies[p]
        again = t.get("target") is not None and bb in mir.reachable(b, [t["target"]])
        exits = flow.exits(b)
        deleg = any(e["kind"] == "deleg" and e["node"] is t for e in exits)
        ts = [x for x in flow.try_sites(b) if x["src_call_bb"] == bb]
        propagated = deleg or (len(ts) == 1 and _dest_single_use(b, t))
        run.check(not again and propagated, "R2", "sink verdict final %s::%s" % (mir.norm(p), method), "the sink call runs once per invocation and its Result is returned / `?`-propagated unseen",
                  ("the sink call can run again for the same buffer (it lies on a loop): after a short write followed by an error the bytes already accepted are sent a second time" if again else
                   "the Result of the sink call is inspected or replaced instead of being returned / `?`-propagated: a failure could be retried, swallowed or rewritten"), mir.loc_of(t))


def _dest_single_use(body, t):
    """the call's destination local is read exactly once (moved into the `?`/map_err chain)"""
    l = t["dest"]["l"]
    if t["dest"]["p"]:
        return False
    uses = 0
    for blk in body["blocks"]:
        if blk["cleanup"]:
            continue
        for st in blk["stmts"]:
            if st["k"] == "assign":
                uses += _count_local(st["rv"], l)
        tt = blk["term"]
        if tt["k"] == "call":
            uses += sum(_count_local(a, l) for a in tt["args"])
        elif tt["k"] == "switch":
            uses += _count_local(tt["discr"], l)
    return uses == 1


def _count_local(x, l):
    n = 0
    if isinstance(x, dict):
        if x.get("k") in ("copy", "move") and "place" in x and x["place"]["l"] == l:
            n += 1
        elif "place" in x and isinstance(x["place"], dict) and x.get("k") in ("ref", "discr", "copyderef", "rawptr") and x["place"]["l"] == l:
            n += 1
        for k, v in x.items():
            if k in ("place",):
                continue
            n += _count_local(v, l)
    elif isinstance(x, list):
        for v in x:
            n += _count_local(v, l)
    return n


def r5(cx, run):
    u = cx.u
    p = "<api::MuxerError as std::convert::From<std::io::Error>>::from"
    if p not in u.bodies:
        run.bad("R5", "from-io-error", "no From<io::Error> for MuxerError (anchor missing)")
        return
    b = u.bodies[p]
    e = common.ret_expr(u, p)
    good = e is not None and e[0] == "agg" and e[1] == "api::MuxerError::Io" and len(e[3]) == 1 and e[3][0][0] == "arg"
    run.check(good, "R5", "from-io-error", "From<io::Error> = MuxerError::Io(err)", "conversion does not wrap the io::Error unmodified: %s" % sym.show(e) if e else "?", mir.loc_of(b))
    # the finish entry point applies it through `?` (FromResidual) — i.e. its error exits on the finalize call are residual exits
    fin = "api::Muxer::<Writer>::finish_in_place_with_stats"
    if fin in u.bodies:
        fb = u.bodies[fin]
        ts = [x for x in flow.try_sites(fb) if x["src"] and x["src"][0] == "call" and len(x["src"]) > 3 and x["src"][3] == cx.an.G]
        run.check(len(ts) == 1 and ts[0]["raw"] == ts[0]["src"], "R5", "finish-propagates-io-error", "finalize(..)? with no intermediate mapping",
                  "the io::Error of finalize is remapped or not propagated with `?` in finish_in_place_with_stats", mir.loc_of(fb))
    else:
        run.bad("R5", "finish-propagates-io-error", "finish_in_place_with_stats missing")
