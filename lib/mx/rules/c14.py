"""C14 — re-framing (Annex B -> length-prefixed NALs, ADTS -> raw AAC) is exact.

R1 converter layout: both Annex-B converters produce, for every input,
      rep(AnnexBNalIter(data)){ if elem empty: nothing else be32(len(elem)) ++ elem }  ++  (if nothing was produced and data is non-empty: be32(len(data)) ++ data)
   so the output parses exactly to its end as 4-byte big-endian length-prefixed units whose payloads are the iterator's non-empty
   items in order, unmodified, with the whole-input fall-back;
R2 the H.264 and H.265 converters have identical productions; the iterator yields sub-slices data[a..b] of its input, in cursor order;
R3 ADTS cut: the validator returns frame[h..L] with h = 7|9 selected by the protection bit (bit 0 of byte 1) and L the 13-bit
   frame length of bytes 3..5 (decided by exhaustive evaluation of the *extracted* expression against the spec formula over all
   byte values), guarded by h <= L <= len(frame).
R4 scanner (find_start_code), decided structurally from its exits: the position counter starts at `from` and advances by exactly 1; a
   hit (i, 3) is returned only under data[i..i+3] == 00 00 01 and a hit (i, 4) only under data[i..i+4] == 00 00 00 01; `None` is
   returned only when no position is left (i + 3 > len, or the input is shorter than 3 / `from` is past the end) - so no candidate
   position is skipped at either end.
Not decided: the interplay of overlapping patterns beyond these exit conditions (that the *first* hit is the right one is implied by
the step of 1 and the exit conditions)."""
from .. import flow, guards, mir, sym
from .. import layout as L
from . import c04, common

EXPLANATION = (
    "layout interpretation of annexb_to_avcc / hevc_annexb_to_hvcc (symbolic productions, equal to each other and to the required shape); MIR check that AnnexBNalIter::next returns `&data[a..b]` sub-slices; "
    "for adts_to_raw the returned slice bounds are extracted symbolically and the two bit-field formulas (header length from the protection bit, 13-bit frame length) are decided equal to the ISO/IEC 13818-7 formulas by exhaustive "
    "evaluation of the extracted expressions over all values of the bytes they read; the Ok exit is dominated by the guards L >= h and L <= len(frame).")
TRUSTED = ["layout interpreter", "ADTS header bit layout (ISO/IEC 13818-7 / 14496-3)"]


def check(prog, run):
    run.rule("R1", "converter production == rep(iter(data)){skip empty | be32(len(nal)) ++ nal} ++ whole-input fall-back")
    run.rule("R2", "H.264 and H.265 converters identical; the NAL iterator yields sub-slices of its input")
    run.rule("R3", "ADTS: returned slice = frame[h..L], h from the protection bit, L the 13-bit length field (formula equivalence), with h <= L <= len(frame) guards")
    u = prog.lib
    it = L.Interp(u)
    prods = {}
    for name in ("codec::h264::annexb_to_avcc", "codec::h265::hevc_annexb_to_hvcc"):
        if name not in u.hir:
            run.bad("R1", "anchor %s" % name, "converter not found")
            continue
        try:
            segs = it.production(name, [("param", "data")])
        except L.Unanalysable as e:
            run.bad("R1", "unanalysable %s" % name, str(e))
            continue
        segs = _canon_and(segs)
        prods[name] = segs
        ok, why = converter_shape(segs)
        run.check(ok, "R1", "shape %s" % name.split("::")[-1], why, "converter does not have the required production: " + why, mir.loc_of(u.bodies[name]))
    if len(prods) == 2:
        a, b = [L.strip_ids(L.freeze(s)) for s in prods.values()]
        run.check(a == b, "R2", "siblings-equal", "identical productions", "annexb_to_avcc and hevc_annexb_to_hvcc differ")
    r2_iter(prog, run)
    r3(prog, run)
    run.rule("R5", "what is queued is the converter's / ADTS validator's output itself (C01.R6 instances): no further slicing or trimming by the writer")
    try:
        from . import c01, c15
        m = c01.Model(prog)
        c01.r6(m, c15._Map(run, {"R6": "R5"}, skip=lambda key: "key-flag" in key or "is_keyframe" in key))
    except Exception as e:
        run.bad("R5", "anchor", "cannot derive the writers' queued records (fail closed): %s" % e)
    run.rule("R6", "ADTS header fields are read at the bit positions of ISO/IEC 13818-7 (every mask/shift on a header byte selects exactly one field's bits in that byte)")
    adts_fields_rule(prog, run)
    run.rule("R4", "start-code scanner: step 1 from `from`; hits only under the exact 3-/4-byte patterns; None only when i + 3 > len (or trivially no room)")
    r4_scanner(prog, run)


ADTS_FIELDS = [("syncword", 0, 12), ("ID", 12, 13), ("layer", 13, 15), ("protection_absent", 15, 16), ("profile", 16, 18), ("sampling_frequency_index", 18, 22),
               ("private_bit", 22, 23), ("channel_configuration", 23, 26), ("original_copy", 26, 27), ("home", 27, 28), ("copyright_identification_bit", 28, 29),
               ("copyright_identification_start", 29, 30), ("aac_frame_length", 30, 43), ("adts_buffer_fullness", 43, 54), ("number_of_raw_data_blocks_in_frame", 54, 56)]


def adts_fields_rule(prog, run, R="R6"):
    """ISO/IEC 13818-7 6.2 (adts_fixed_header / adts_variable_header, 56 bits): every `(frame[i] >> s) & m` (or `frame[i] & m`) the ADTS
    validator evaluates on a constant byte index must select exactly the bits one header field has in that byte - not bits of two
    fields, not a part of a field's bits in that byte, not nothing."""
    u = prog.lib
    fns = [f for f in u.bodies if mir.norm(f).split("::")[-1] == "adts_to_raw" and not u.bodies[f]["in_test_cfg"]]
    if len(fns) != 1:
        run.bad(R, "anchor adts_to_raw", "ADTS validator not found")
        return
    b = u.bodies[fns[0]]
    seen = {}
    for blk in b["blocks"]:
        if blk.get("cleanup"):
            continue
        for st in blk["stmts"]:
            if st["k"] != "assign":
                continue
            e = sym.expr_rv(b, st["rv"])
            for t in sym.walk(e):
                if not (isinstance(t, tuple) and t and t[0] == "bin" and t[1] == "BitAnd" and t[3][0] == "const" and isinstance(t[3][1], int)):
                    continue
                x, m, sh = t[2], t[3][1], 0
                if x[0] == "bin" and x[1] == "Shr" and x[3][0] == "const" and isinstance(x[3][1], int):
                    x, sh = x[2], x[3][1]
                while x[0] == "cast":
                    x = x[4]
                if not (x[0] == "load" and len(x) > 3 and x[2] == "u8" and str(x[1]).startswith("arg1") and len(x[3]) == 1 and x[3][0][0] == "const"):
                    continue
                seen[(x[3][0][1], sh, m)] = mir.loc_of(st)
    n = 0
    for (i, sh, m), loc in sorted(seen.items()):
        n += 1
        sel = {8 * i + (7 - (sh + k)) for k in range(8) if (m >> k) & 1 and sh + k < 8}
        owners = [(nm, lo, hi) for (nm, lo, hi) in ADTS_FIELDS if sel & set(range(lo, hi))]
        key = "ADTS field frame[%d] >>%d &0x%02x" % (i, sh, m)
        if i > 6:
            run.ok(R, key, "beyond the 7-byte header (CRC / payload)", loc)
            continue
        if not sel or len(owners) != 1:
            run.bad(R, key, "`(frame[%d] >> %d) & 0x%02x` selects %s: %s" % (i, sh, m, "no bit" if not sel else "header bits %s" % sorted(sel),
                    "a field that is constant 0" if not sel else "bits of %d different ADTS fields (%s) as one value" % (len(owners), ", ".join(o[0] for o in owners))), loc)
            continue
        nm, lo, hi = owners[0]
        piece = set(range(lo, hi)) & set(range(8 * i, 8 * i + 8))
        run.check(sel == piece, R, key, "%s bits %s" % (nm, sorted(sel)),
                  "`(frame[%d] >> %d) & 0x%02x` selects header bits %s, but %s occupies bits %s of that byte: the value is not the field" % (i, sh, m, sorted(sel), nm, sorted(piece)), loc)
    run.floor(R, n, 8, "ADTS header field extractions")


def r4_scanner(prog, run):
    from .. import absint as A
    u = prog.lib
    fns = [f for f in u.bodies if mir.norm(f).endswith("codec::common::find_start_code")]
    if len(fns) != 1:
        run.bad("R4", "anchor find_start_code", "scanner not found")
        return
    b = u.bodies[fns[0]]
    cx = A.Ctx(b, u)
    # the position counter
    ctr = None
    for l, ds in cx.defs.items():
        if len(ds) == 2 and all(d[0] == "stmt" for d in ds) and b["locals"][l]["ty"] == "usize":
            es = [sym.expr_rv(b, d[3]["rv"], stop=(l,)) for d in ds]
            steps = [e for e in es if e[0] == "proj" and e[1][0] == "bin" and e[1][1] == "AddWithOverflow" and e[1][2][:2] == ("var", l)]
            inits = [e for e in es if e not in steps]
            if len(steps) == 1 and len(inits) == 1:
                ctr = (l, inits[0], steps[0][1][3])
    ok = ctr is not None and ctr[1][:2] == ("arg", 2) and ctr[2][:2] == ("const", 1)
    run.check(ok, "R4", "scanner counter", "position starts at `from`, advances by 1", "the scan position does not start at the `from` parameter and advance by exactly 1: %s" % (ctr,), mir.loc_of(b))
    if not ok:
        return
    iv = ("var", ctr[0], "i")
    li = cx.lin(iv)
    ln = cx.atom(("len", "arg1"), 0, A.LEN_MAX)

    def byte_tests(bb):
        out = set()
        for (s_, d, tk) in guards.guards_of(b, bb):
            if not (d[0] == "bin" and d[1] == "Eq" and d[3][0] == "const" and guards.truth(tk) is True):
                continue
            # the compared byte: find the indexed load feeding this switch
            for st in b["blocks"][s_]["stmts"]:
                if st["k"] == "assign" and st["rv"]["k"] == "use" and st["rv"]["op"].get("k") == "copy":
                    pl = st["rv"]["op"]["place"]
                    ix = [e for e in pl["p"] if e.get("k") == "index"]
                    if pl["l"] == 1 and len(ix) == 1:
                        off = cx.lin(sym.expr_local(b, ix[0]["local"])) - li
                        if off.is_const():
                            out.add((off.c, d[3][1]))
        return out
    want = {3: {(0, 0), (1, 0), (2, 1)}, 4: {(0, 0), (1, 0), (2, 0), (3, 1)}}
    seen = set()
    nnone = 0
    for ex in flow.exits(b):
        nd = ex["node"]
        if "rv" not in nd:
            continue
        v = sym.expr_rv(b, nd["rv"])
        if v[0] == "agg" and str(v[1]).endswith("Option::Some"):
            t = v[3][0]
            k = t[3][1][1] if (t[0] == "agg" and len(t[3]) == 2 and t[3][1][0] == "const") else None
            pos_ok = t[0] == "agg" and t[3][0][:2] == ("var", ctr[0])
            tests = byte_tests(ex["bb"])
            seen.add(k)
            # the hit is taken whenever its pattern fits: on the other edge of every length guard of this exit, fewer than k bytes remain
            if k in want:
                for (s_, d, tk) in guards.guards_of(b, ex["bb"]):
                    if not (d[0] == "bin" and d[1] in ("Le", "Lt", "Ge", "Gt") and any(isinstance(y, tuple) and y[:1] == ("un",) and y[1] == "PtrMetadata" or (isinstance(y, tuple) and y[:1] == ("call",) and str(y[1]).endswith("len")) for y in sym.walk(d))):
                        continue
                    if not any(isinstance(y, tuple) and y[:2] == ("var", ctr[0]) for y in sym.walk(d)):
                        continue
                    sw = b["blocks"][s_]["term"]
                    if sw["k"] != "switch":
                        continue
                    succ = [tg for _v, tg in sw.get("arms") or []] + ([sw["otherwise"]] if sw.get("otherwise") is not None else [])
                    tr_ = guards.truth(tk)
                    zero = [tg for v_, tg in sw.get("arms") or [] if v_ == "0"]
                    if tr_ is None or len(zero) != 1 or sw.get("otherwise") is None:
                        continue
                    # boolean switch: arm "0" is the false edge, `otherwise` the true edge; the exit lies behind the edge `tk` names
                    other = [sw["otherwise"]] if tr_ is False else zero
                    for tg in other:
                        good_, _h = cx.prove_le0(ln - li - A.Lin(k - 1), tg)
                        run.check(good_, "R4", "scanner hit len=%s taken whenever it fits (guard on i+%s)" % (k, "".join(ch for ch in sym.show(d) if ch.isdigit())[:2] or "?"), "the length guard fails only when fewer than %d bytes remain" % k,
                                  "the %d-byte start-code test is skipped although %d bytes may remain (length guard `%s`): a %d-byte start code at the very end of the data is not recognised as such" % (k, k, sym.show(d)[:80], k), mir.loc_of(nd))
            run.check(pos_ok and k in want and tests == want[k], "R4", "scanner hit len=%s" % k, "returned only under bytes %s at i" % sorted(want.get(k, ())),
                      "a start code of length %s at position i is reported under byte tests %s (expected %s)" % (k, sorted(tests), sorted(want.get(k, ()))), mir.loc_of(nd))
        elif v[0] == "agg" and str(v[1]).endswith("Option::None"):
            nnone += 1
            bb = ex["bb"]
            def any_goal(at):
                return cx.prove_le0(ln - A.Lin(2), at)[0] or cx.prove_le0(ln - cx.lin(("arg", 2, "from")), at)[0] or cx.prove_le0(ln - li - A.Lin(2), at)[0]
            good = any_goal(bb)
            if not good:
                # a shared early-return block (`a || b`): every edge into it must carry one of the conditions
                from . import c12
                edges = c12._incoming_edges(cx, bb)
                good = bool(edges)
                for (pb, de, tk) in edges or []:
                    tr = guards.truth(tk)
                    cons = cx.cond_constraints(de, tr) if tr is not None else []
                    cx.extra.extend(cons)
                    try:
                        if not (cons and any_goal(pb)):
                            good = False
                    finally:
                        for _ in cons:
                            cx.extra.pop()
            triv1 = triv2 = done = good
            run.check(triv1 or triv2 or done, "R4", "scanner None #%d" % nnone, "None only when len < 3, from >= len, or i + 3 > len",
                      "`None` is returned on a path where a candidate position may remain (cannot derive i + 3 > len from the exit condition)", mir.loc_of(nd))
    run.check(seen == {3, 4}, "R4", "scanner forms", "both the 3-byte and the 4-byte form are reported", "the scanner reports start-code lengths %s, expected {3, 4}" % sorted(x for x in seen if x), mir.loc_of(b))
    run.floor("R4", nnone, 2, "None exits")


def _canon_and(x):
    """conjunctions of pure conditions in a canonical operand order (`a && b` == `b && a`), emptiness test first"""
    if isinstance(x, tuple):
        y = tuple(_canon_and(z) for z in x)
        if len(y) == 4 and y[0] == "bin" and y[1] == "And":
            a, c = y[2], y[3]
            ka, kc = (0 if a[:1] == ("empty",) else 1, repr(L.strip_ids(L.freeze(a)))), (0 if c[:1] == ("empty",) else 1, repr(L.strip_ids(L.freeze(c))))
            if kc < ka:
                return ("bin", "And", c, a)
        return y
    if isinstance(x, list):
        return [_canon_and(z) for z in x]
    return x


def converter_shape(segs):
    if len(segs) != 2:
        return False, "expected loop + fall-back, found %d segments: %s" % (len(segs), ", ".join(L.show(s) for s in segs)[:200])
    rep, fb = segs
    if rep[0] != "rep":
        return False, "first segment is not a loop"
    coll, lid, body = rep[1], rep[2], rep[3]
    it_ok = coll[0] == "call" and coll[1].endswith("AnnexBNalIter::new") and coll[2] == (("param", "data"),)
    if not it_ok:
        return False, "loop does not iterate AnnexBNalIter::new(data): %s" % L.show(coll)[:100]
    el = ("elem", coll, lid)
    want_body = [("alt", ("mcall", "core::slice::is_empty", el, ()), [], [("be", ("cast", "u32", ("len", el)), 4), ("blob", el)])]
    if body != want_body:
        return False, "loop body is %s" % ", ".join(L.show(s) for s in body)[:200]
    if fb[0] != "alt" or fb[3] != []:
        return False, "no whole-input fall-back"
    c = fb[1]
    d = ("param", "data")
    if c[0] == "bin" and c[1] == "And" and c[3][0] == "empty" and c[2][0] != "empty":
        c = ("bin", "And", c[3], c[2])          # both operands are pure: `a && b` is `b && a`
    cond_ok = c[0] == "bin" and c[1] == "And" and c[2][0] == "empty" and c[3] == ("un", "Not", ("mcall", "core::slice::is_empty", d, ()))
    # the emptiness test must be about what the loop produced
    if cond_ok:
        inner = c[2][1]
        cond_ok = inner[0] == "bufval" and L.strip_ids(L.freeze(list(inner[1]))) == L.strip_ids(L.freeze([rep]))
    if not cond_ok:
        return False, "fall-back condition is %s" % L.show(c)[:160]
    if fb[2] != [("be", ("cast", "u32", ("len", d)), 4), ("blob", d)]:
        return False, "fall-back emits %s" % ", ".join(L.show(s) for s in fb[2])[:160]
    return True, "rep(AnnexBNalIter(data)){skip empty | be32(len) ++ nal} ++ [nothing produced & data non-empty: be32(len(data)) ++ data]"


def r2_iter(prog, run):
    u = prog.lib
    name = "<codec::common::AnnexBNalIter<'a> as std::iter::Iterator>::next"
    b = u.bodies.get(name)
    if b is None:
        run.bad("R2", "anchor iterator", "AnnexBNalIter::next not found")
        return
    oks = [e for e in flow.exits(b) if e["kind"] == "ok"]
    good = False
    d = ""
    for e in oks:
        x = sym.expr_rv(b, e["node"]["rv"])
        d = sym.show(x)
        # Some(index(&self.data, Range{start: nal_start, end: nal_end}))
        for t in sym.walk(x):
            if isinstance(t, tuple) and t and t[0] == "call" and t[1] in ("core::slice::index::index", "<std::vec::Vec<T, A> as std::ops::Index<I>>::index") and len(t[2]) == 2:
                srcs = sym.sources(t[2][0])
                rng = t[2][1]
                if any(s[0] == "load" and s[1].endswith(".data") for s in srcs) and rng[0] == "agg" and "Range" in str(rng[1]):
                    good = True
        # (the reference may already be resolved to its target: an element range of self.data)
        if any(s[0] == "load" and s[1] in ("arg1.data.*.[]", "arg1.data.[]") for s in sym.sources(x)):
            good = True
    run.check(good and len(oks) == 1, "R2", "iterator-yields-subslice", "next() = Some(&self.data[a..b])", "AnnexBNalIter::next does not return a sub-slice of its input: %s" % d[:200], mir.loc_of(b))
    # unit boundaries: the unit starts right after the start code found from the cursor (pos + len of that hit), the search for
    # its end starts at that very position (an empty unit between two adjacent start codes ends where it starts), and the cursor
    # moves to the unit's end
    scans = [(bb, t) for bb, t, nm, info in mir.calls(b) if nm and mir.norm(nm).endswith("codec::common::find_start_code")]
    rng = None
    for e in oks:
        for t in sym.walk(sym.expr_rv(b, e["node"]["rv"])):
            if isinstance(t, tuple) and t and t[0] == "agg" and "Range" in str(t[1]) and len(t[3]) == 2:
                rng = t
    if len(scans) != 2 or rng is None:
        run.bad("R2", "iterator unit boundaries", "AnnexBNalIter::next is not `find start code from cursor; find the next one; yield data[start..end]` (found %d scans): cannot check the unit boundaries (fail closed)" % len(scans), mir.loc_of(b))
        return
    (bb1, t1), (bb2, t2) = sorted(scans, key=lambda x: x[0])
    dom = mir.dominators(b)
    if bb2 in dom[bb1] and bb1 not in dom[bb2]:
        (bb1, t1), (bb2, t2) = (bb2, t2), (bb1, t1)
    first_from = sym.expr(b, t1["args"][1])
    start, end = rng[3]
    s2 = sym.expr(b, t2["args"][1])

    def peel(x):
        while x[0] == "proj" or x[0] == "cast":
            x = x[1] if x[0] == "proj" else x[4]
        return x
    st_ = peel(start)
    comps_ok = False
    if st_[0] == "bin" and st_[1] in ("Add", "AddWithOverflow", "AddUnchecked"):
        a_, c_ = st_[2], st_[3]
        def from_first(x):
            calls_ = [t for t in sym.walk(x) if isinstance(t, tuple) and t and t[0] == "call" and t[1].endswith("find_start_code")]
            bins = [t for t in sym.walk(x) if isinstance(t, tuple) and t and t[0] == "bin"]
            return len(calls_) == 1 and calls_[0][4] == bb1 and not bins
        comps_ok = a_ != c_ and from_first(a_) and from_first(c_)
    run.check(first_from[0] == "load" and str(first_from[1]).endswith(".cursor"), "R2", "iterator scan-from-cursor", "the start code is searched from self.cursor", "the first scan starts at %s, not at the cursor" % sym.show(first_from)[:80], mir.loc_of(t1))
    run.check(comps_ok, "R2", "iterator unit-start", "unit start = position + length of the start code found", "the yielded unit starts at %s, not right after the start code found from the cursor" % sym.show(start)[:160], mir.loc_of(t2))
    run.check(s2 == start, "R2", "iterator end-scan-from-unit-start", "the next start code is searched from the unit's first byte position",
              "the search for the unit's end starts at %s, not at the unit's start %s: a start code beginning at the unit's first position is missed, so an empty unit (two adjacent start codes) swallows the bytes of the following start code" % (sym.show(s2)[:120], sym.show(start)[:80]), mir.loc_of(t2))
    cur = [st for st in mir.Stores(mir.Graph(u)).sites[name] if st[3].startswith("assign") and st[2][1] == ("cursor",) and st[4].get("k") == "assign"]
    good = len(cur) == 1 and sym.expr_rv(b, cur[0][4]["rv"]) == end
    # the scan starts at the first byte of the frame: the constructor stores the frame itself and a zero cursor
    ctors = [k for k in u.bodies if mir.norm(k) == "codec::common::AnnexBNalIter::new" and not u.bodies[k]["in_test_cfg"]]
    if len(ctors) == 1:
        cv = sym.expr_local(u.bodies[ctors[0]], 0)
        fields = dict(zip(cv[2], cv[3])) if cv[0] == "agg" else {}
        c0 = fields.get("cursor")
        d0 = fields.get("data")
        while d0 is not None and d0[0] in ("ref",):
            d0 = d0[1]
        run.check(c0 is not None and c0[:2] == ("const", 0) and d0 is not None and (d0[0] == "arg" or (d0[0] in ("refplace", "load") and str(d0[1]).startswith("arg1"))), "R2", "iterator starts at byte 0",
                  "new(data) = { data, cursor: 0 }", "AnnexBNalIter::new does not start the scan at the first byte of the frame it is given (cursor = %s): a start code at the beginning of the frame is missed" % (sym.show(c0) if c0 else "?"),
                  mir.loc_of(u.bodies[ctors[0]]))
    else:
        run.bad("R2", "iterator starts at byte 0", "constructor AnnexBNalIter::new not found (fail closed)")
    run.check(good, "R2", "iterator cursor := unit end", "units are yielded in order without gap or overlap", "the cursor is not moved to the end of the yielded unit", mir.loc_of(cur[0][4]) if cur else mir.loc_of(b))


# ---------------------------------------------------------------------------------------------
def ev_num(e, frame):
    """evaluate an extracted integer expression on a concrete frame header (list of byte values)"""
    h = e[0]
    if h == "lit":
        return e[1]
    if h == "bool":
        return 1 if e[1] else 0
    if h == "cast":
        v = ev_num(e[2], frame)
        w = L.INT_W.get(e[1])
        if w:
            v &= (1 << (8 * w)) - 1
        return v
    if h == "index":
        i = ev_num(e[2], frame)
        return frame[i]
    if h == "bin":
        a, b = ev_num(e[2], frame), ev_num(e[3], frame)
        op = e[1]
        return {"BitAnd": a & b, "BitOr": a | b, "BitXor": a ^ b, "Shl": a << b, "Shr": a >> b, "Add": a + b, "Sub": a - b, "Mul": a * b,
                "Ne": int(a != b), "Eq": int(a == b), "Lt": int(a < b), "Le": int(a <= b), "Gt": int(a > b), "Ge": int(a >= b)}[op]
    if h == "if":
        return ev_num(e[2], frame) if ev_num(e[1], frame) else ev_num(e[3], frame)
    if h == "un" and e[1] == "Not":
        return int(not ev_num(e[2], frame))
    raise L.Unanalysable("cannot evaluate %s" % h)


def bytes_read(e):
    out = set()

    def rec(x):
        if isinstance(x, tuple):
            if x and x[0] == "index" and x[2][0] == "lit":
                out.add(x[2][1])
            for y in x:
                rec(y)
    rec(e)
    return out


def r3(prog, run):
    u = prog.lib
    cands = [p for p, h in u.hir.items() if h["ret"].startswith("std::result::Result<&[u8], muxer::mp4::AdtsValidationError>")]
    if len(cands) != 1:
        run.bad("R3", "anchor adts", "ADTS validator not found")
        return
    f = cands[0]
    it = L.Interp(u)
    h = u.hir[f]
    env = {}
    for i, p in enumerate(h["params"]):
        it.bind(p["pat"], ("param", p["pat"].get("name", "_%d" % i)), env)
    try:
        tree = it.exec_expr_tree(h["body"], env)
    except L.Unanalysable as e:
        run.bad("R3", "unanalysable", str(e))
        return
    oks = []

    def rec(t):
        if isinstance(t, L.Leaf):
            if t.value[0] == "okres":
                oks.append(t.value[1])
            return
        rec(t.t)
        rec(t.f)
    rec(tree)
    oks = list({L.freeze(o): o for o in oks}.values())
    if len(oks) != 1:
        run.bad("R3", "adts ok-value", "expected one success value, found %d" % len(oks))
        return
    v = oks[0]
    frame = ("param", h["params"][0]["pat"].get("name", "frame"))
    good = v[0] == "index" and v[1] == frame and v[2][0] == "range"
    run.check(good, "R3", "adts slice-of-frame", "Ok(&frame[h..L])", "the stored AAC sample is not a sub-range of the submitted frame: %s" % L.show(v)[:200])
    if not good:
        return
    hh, ll = v[2][1], v[2][2]
    # formula equivalence by exhaustive evaluation over the bytes the extracted expressions read
    try:
        rb = sorted(bytes_read(hh) | bytes_read(ll))
        okh = okl = True
        n = 0
        if not set(rb) <= {1, 3, 4, 5}:
            okh = okl = False
        else:
            for b1 in range(256):
                fr = [0xFF, b1, 0, 0, 0, 0, 0, 0, 0]
                n += 1
                if ev_num(hh, fr) != (7 if b1 & 1 else 9):
                    okh = False
            for b3 in range(256):
                for b4 in range(256):
                    for b5 in (0x00, 0xFF):
                        fr = [0xFF, 0xF1, 0, b3, b4, b5, 0, 0, 0]
                        n += 1
                        if ev_num(ll, fr) != (((b3 & 3) << 11) | (b4 << 3) | (b5 >> 5)):
                            okl = False
            for b5 in range(256):
                for (b3, b4) in ((0, 0), (3, 0xFF), (0xFF, 0xFF), (1, 0x80)):
                    fr = [0xFF, 0xF1, 0, b3, b4, b5, 0, 0, 0]
                    n += 1
                    if ev_num(ll, fr) != (((b3 & 3) << 11) | (b4 << 3) | (b5 >> 5)):
                        okl = False
        run.extra["adts_formula_evaluations"] = n
        run.check(okh, "R3", "adts header-length", "h = 7 if protection_absent (bit0 of byte1) else 9, for all header bytes", "header length expression %s is not 7/9 by the protection_absent bit" % L.show(hh)[:160])
        run.check(okl, "R3", "adts frame-length", "L = (b3&3)<<11 | b4<<3 | b5>>5 for all values of bytes 3..5 (%d evaluations of the extracted expression)" % n,
                  "frame length expression %s is not the 13-bit aac_frame_length field" % L.show(ll)[:200])
    except (L.Unanalysable, IndexError, KeyError) as e:
        run.bad("R3", "adts formulas", "cannot evaluate the extracted slice bounds: %s" % e)
    # guards on the Ok exit (MIR)
    b = u.bodies[f]
    c04.ROLE_NAMES.clear()
    for i in range(1, b["argc"] + 1):
        c04.ROLE_NAMES[i] = mir.debug_name(b, i)
    okx = [e for e in flow.exits(b) if e["kind"] == "ok"]
    sigs = set()
    for e in okx:
        for (s, d, t) in guards.guards_of(b, e["bb"]):
            sigs.add(c04.signature(d, t))
    run.extra["adts_ok_guards"] = sorted(sigs)
    def rel(s):
        for op in (" <= ", " >= ", " < ", " > "):
            if op in s:
                a_, b_ = s.split(op)
                return a_, op.strip(), b_
        return None
    lo = hi = False
    for s in sigs:
        r = rel(s)
        if not r:
            continue
        a_, op, b_ = r
        # L >= h : (expr|local:aac_frame_length) >= local:header_len   or   local:header_len <= (expr|..)
        # (a strict `L > h` entails it: the success path then never stores an empty sample)
        if (b_ == "local:header_len" and op in (">=", ">") and a_ in ("expr", "local:aac_frame_length")) or (a_ == "local:header_len" and op in ("<=", "<") and b_ in ("expr", "local:aac_frame_length")):
            lo = True
        if (a_ == "len(param:frame)" and op == ">=" and b_ in ("expr", "local:aac_frame_length")) or (b_ == "len(param:frame)" and op == "<=" and a_ in ("expr", "local:aac_frame_length")):
            hi = True
    # decided by entailment, not by the spelling of the guards: at the slicing site the dominating guards must entail h <= L <= len(frame)
    from .. import absint as _A
    from . import c12 as _c12
    cxa = _A.Ctx(b, u)
    sl = []
    for bb_, t_, name_, info_ in mir.calls(b):
        if name_ and mir.norm(name_).split("::")[-1] == "index" and len(t_["args"]) == 2:
            ix_ = sym.expr(b, t_["args"][1])
            if ix_[0] == "agg" and str(ix_[1]).endswith("ops::Range::Range"):
                sl.append((bb_, sym.expr(b, t_["args"][0]), ix_))
    if len(sl) == 1:
        bb_, base_, ix_ = sl[0]
        a_, e_ = cxa.lin(ix_[3][0]), cxa.lin(ix_[3][1])
        ln_ = cxa.atom(cxa.len_key(base_), 0, _A.LEN_MAX)
        lo = lo or cxa.prove_le0(a_ - e_, bb_)[0]
        hi = hi or cxa.prove_le0(e_ - ln_, bb_)[0]
    run.check(lo, "R3", "adts guard L>=h", "success only when L >= h", "the Ok exit is not guarded by frame_length >= header_len (guards: %s)" % sorted(sigs)[:8])
    run.check(hi, "R3", "adts guard L<=len", "success only when L <= len(frame)", "the Ok exit is not guarded by frame_length <= len(frame) (guards: %s)" % sorted(sigs)[:8])
