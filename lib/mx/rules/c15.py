"""C15 — audio and video samples are interleaved in timestamp order in the media data.

R1 key: the schedule is the two queues' elements sorted (std sort_by_key: a permutation ordered by the key) by
   (timestamp, rank(kind), index) with rank(Video) < rank(Audio): the merge by timestamp, video first on ties;
R2 one schedule drives offsets and streaming in both layouts (C01.R1-R3 instances);
R3 per-track order == sample order (C01.R4 instances)."""
from .. import layout as L
from ..anchors import AnchorMissing
from . import c01

EXPLANATION = (
    "on the symbolic file productions of both finalize functions: R1 the sample region of every A/V layout is `sorted(key)[video queue in order ++ audio queue in order]` with key = (timestamp field of the element, "
    "constant rank Video=0 < Audio=1, queue index), i.e. the merge by timestamp with video first on ties (std sort_by_key contract); R2 the same schedule value drives the chunk-offset assignment and the streaming "
    "(both layouts, incl. the three separate loops of fast-start); R3 within a track the schedule order is queue order because the key's leading field is the one the writer keeps monotone.")
TRUSTED = ["std::slice::sort_by_key: stable permutation ordered by key", "layout interpreter"]


def check(prog, run):
    run.rule("R1", "schedule key = (timestamp, rank(kind) with video<audio, index) over exactly the two queues")
    run.rule("R2", "one schedule drives offsets and streaming in both layouts (C01.R1-R3)")
    run.rule("R3", "per-track storage order == sample order (C01.R4)")
    try:
        m = c01.Model(prog)
    except AnchorMissing as e:
        run.bad("R1", "anchor", "anchor missing: %s" % e)
        return
    except L.Unanalysable as e:
        run.bad("R1", "unanalysable", "file production cannot be derived (fail closed): %s" % e)
        return
    run.rule("R4", "both tracks' sort keys are produced by the one tick conversion of the call's own timestamp (C03.R1 instances): equal or ordered submitted times stay equal or ordered across tracks")
    from . import c03
    c03.tick_rule(m.cx, run, "R4", exact=False)
    n = 0
    for lf in m.leaves:
        if not m.audio_present(lf):
            continue
        n += 1
        key = m.key(lf)
        segs = m.spec(lf)
        from .. import filemodel as FM
        top = FM.top_structure(segs)
        body = next((t[1] for t in top if t[0] == "body"), None)
        perm = body[0] if body and len(body) == 1 and body[0][0] == "perm" else None
        if perm is None:
            run.bad("R1", key + " body", "sample region is not a single sorted schedule")
            continue
        k = perm[1]
        good, why = key_shape(m, k, perm[2])
        run.check(good, "R1", key + " key", why, "interleave key is not (timestamp, video<audio, index): " + why)
        sub2 = _Map(run, {"R1": "R2", "R2": "R2", "R3": "R2", "R4": "R3"})
        c01.leaf_rules(m, lf, sub2, ("R1", "R2", "R3", "R4"))
    run.floor("R1", n, 2, "A/V layouts")


class _Map:
    def __init__(self, run, mp, skip=None):
        self.run, self.mp = run, mp
        self.extra = run.extra
        self.skip = skip or (lambda key: False)      # instances of the shared rule that the borrowing property does not speak about

    def check(self, cond, rule, key, ok="", bad="", loc=None, how="structural"):
        if self.skip(key):
            return cond
        return self.run.check(cond, self.mp.get(rule, rule), key, ok, bad, loc, how)

    def ok(self, rule, key, detail="", loc=None, how="structural"):
        if not self.skip(key):
            self.run.ok(self.mp.get(rule, rule), key, detail, loc, how)

    def bad(self, rule, key, detail, loc=None, path=None):
        if not self.skip(key):
            self.run.bad(self.mp.get(rule, rule), key, detail, loc, path)

    def floor(self, rule, n, floor, what):
        self.run.floor(self.mp.get(rule, rule), n, floor, what)


def key_shape(m, k, parts):
    if k[0] != "key" or k[2][0] != "tuple" or len(k[2][1]) != 3:
        return False, L.show(k)[:200]
    kid = k[1]
    a, b, c = k[2][1]
    ke = ("keyelem", kid)
    if a != ("tfield", ke, 0) or c != ("tfield", ke, 2):
        return False, "components 0/2 are not the element's timestamp and index: %s" % L.show(k[2])[:200]
    if b[0] != "matchv" or b[1] != ("tfield", ke, 1):
        return False, "rank is not a function of the track kind"
    ranks = {p.split("::")[-1]: v for p, v in b[2]}
    if not (ranks.get("Video", ("?",))[0] == "lit" and ranks.get("Audio", ("?",))[0] == "lit" and ranks["Video"][1] < ranks["Audio"][1]):
        return False, "rank(Video) < rank(Audio) does not hold: %s" % ranks
    # the items: (timestamp field of the element, Kind ctor, idx) for each queue
    items = {}
    for lp in getattr(m.it, "loops", {}).values():
        for b_, it_ in c01._items_by_base(lp["over"]).items():
            items.setdefault(b_, it_)
    for q, kind in ((m.vq, "Video"), (m.aq, "Audio")):
        it_ = items.get(q)
        if it_ is None:
            return False, "no schedule items for queue %s" % q
        base, lid, tup = it_
        if tup[0] != "tuple" or len(tup[1]) != 3:
            return False, "schedule item is not a triple"
        ts, kd, ix = tup[1]
        ok_ts = ts[0] == "field" and ts[1] == ("elem", base, lid) and ts[2] in ("pts", "dts")
        ok_kd = kd[0] == "ctor" and kd[1].split("::")[-1] == kind
        ok_ix = ix == ("idx", base, lid)
        if not (ok_ts and ok_kd and ok_ix):
            return False, "schedule item of %s is %s, expected (timestamp, %s, index)" % (q, L.show(tup)[:120], kind)
    return True, "key (timestamp, Video=%d<Audio=%d, index)" % (ranks["Video"][1], ranks["Audio"][1])
