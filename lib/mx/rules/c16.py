"""C16 — no numeric field is silently truncated.

Inventory on MIR of every value-losing conversion reachable from the public surface:
  R1 narrowing / sign-changing integer casts (`as`): the operand's value set at the site must lie inside the target type;
  R2 float -> integer casts: the operand must be range-checked (finite, inside the target range) on every path to the cast;
  R3 left shifts by a constant that can push set bits out of the type.
An obligation is discharged when the operand interval (constants, bit masks, field intervals of crate-built structs,
postconditions of local callees, constant widths of byte producers) or the guards dominating the site (Fourier-Motzkin
entailment, lib/mx/absint.py) keep the value inside the target range; counts of records (not bytes) are bounded under
assumption A1.  The dominating guards are branch conditions whose other arm leaves the function (error return) or Assert
terminators that C12 discharges; a cast protected only by the always-on invariant macro (a panic) stays open here.
Everything else is a violation unless exactly listed as a known finding.
Not decided: that the *wide* value is the mathematically right one (C01-C03, C08 own the formulas); rounding of f64 ticks."""
from .. import absint as A
from .. import mir, sym
from . import c12, lemmas

EXPLANATION = (
    "cast/shift inventory on MIR: every IntToInt cast whose source range is not contained in the target range, every FloatToInt cast and every constant left shift that can lose bits, in every function reachable from the public "
    "surface, is an obligation; it is discharged by the operand's interval or by entailment from the dominating guards (same engine as C12), by assumption A1 for record counts, or it is reported. Known genuine truncations are listed "
    "as known findings with the input that crosses the boundary.")
TRUSTED = ["absint entailment engine", "interval rules for bit operations"]
ASSUMPTIONS = ["64-bit usize", "A1: fewer than 2^32 - 1 samples per track / entries per table / fragments per muxer (record counts, not byte lengths)"]

BYTE_ELEMS = ("u8",)


def _kname(fn):
    """function name for semantic keys: closure ordinals are dropped (they shift when an unrelated closure is added)"""
    import re as _re
    return _re.sub(r"\{closure#\d+\}", "{closure}", mir.norm(fn))


def narrowing(frm, to):
    rf, rt = A.INT_RANGE.get(frm), A.INT_RANGE.get(to)
    if rf is None or rt is None:
        return False
    return rf[0] < rt[0] or rf[1] > rt[1]


def collect(u, reach):
    obs = []
    for p in sorted(reach):
        b = u.bodies[p]
        if b["in_test_cfg"]:
            continue
        live = mir.live_blocks(b)
        for blk in b["blocks"]:
            if blk["cleanup"] or blk["i"] not in live:
                continue
            for i, st in enumerate(blk["stmts"]):
                if st["k"] != "assign":
                    continue
                rv = st["rv"]
                if st.get("span", {}).get("exp") and False:
                    continue
                if rv["k"] == "cast" and rv.get("kind") == "IntToInt" and narrowing(rv["from"], rv["to"]):
                    obs.append((p, blk["i"], "cast", rv["from"], rv["to"], rv["op"], st))
                elif rv["k"] == "cast" and rv.get("kind") == "FloatToInt":
                    obs.append((p, blk["i"], "fcast", rv["from"], rv["to"], rv["op"], st))
                elif rv["k"] == "binop" and rv.get("op") == "Shl":
                    obs.append((p, blk["i"], "shl", None, None, rv, st))
    return obs


def _captured_count(lem, b, p, e):
    """an enumerate index captured by a nested closure (lemma L-COUNT through the capture)"""
    class _O:
        pass
    o = _O()
    o.fn = p
    x = e
    while x[0] == "cast":
        x = x[4]
    if not ((x[0] == "load" and isinstance(x[1], str) and x[1].startswith("arg1.") and x[1].endswith(".*")) or (x[0] == "proj" and x[1][:2] == ("arg", 1))):
        return False
    return b.get("kind") == "Closure" and lem.is_count(b, x, o)


def record_count(cx, e):
    """e is the length of a collection of records (not bytes) or an enumerate index over one"""
    x = e
    while x[0] == "cast":
        x = x[4]
    if cx.enum_index(x) is not None:
        return True
    if x[0] == "call" and x[1].split("::")[-1] == "len" and x[2]:
        y = x[2][0]
        ty = cx.ty_of(y) or ""
        while y[0] == "ref":
            y = y[1]
            ty = ty or (cx.ty_of(y) or "")
        if y[0] in ("refplace", "load") and len(y) > 2:
            ty = y[2] or ty
        if y[0] in ("arg", "var"):
            ty = cx.b["locals"][y[1]]["ty"]
        ty = ty.replace("&mut ", "").replace("&", "").strip()
        if ty.startswith("std::vec::Vec<") or ty.startswith("["):
            inner = ty[len("std::vec::Vec<"):-1] if ty.startswith("std::vec::Vec<") else ty.strip("[]").split(";")[0]
            return inner.strip() not in BYTE_ELEMS and inner.strip() != ""
    return False


_SS = {}


def sample_payload_len(u, lem, cx, b, e):
    """e = len(<place of type SampleStruct>.data) where every push of that struct onto a queue has a guarded payload length"""
    x = e
    while x[0] == "cast":
        x = x[4]
    if not (x[0] == "call" and x[1].split("::")[-1] == "len" and x[2]):
        return False
    y = x[2][0]
    while y[0] == "ref":
        y = y[1]
    if not (y[0] in ("refplace", "load") and isinstance(y[1], str)):
        return False
    alts = [a_ for a_ in y[1].split("|") if not a_.startswith("_")]
    if not alts or not all(a_.endswith(".data") for a_ in alts):
        return False
    for a_ in alts:
        owner = place_owner_type(u, b, a_[:-len(".data")])
        if owner is None:
            return False
        if owner not in _SS:
            _SS[owner] = guarded_pushes(u, lem, owner)
        if not _SS[owner]:
            return False
    return True


def place_owner_type(u, b, path):
    """type (ADT path) of the place `argN.f.[].g...` by walking the ADT field tables"""
    parts = path.split(".")
    root = parts[0]
    if not root.startswith("arg") or not root[3:].isdigit():
        return None
    ty = b["locals"][int(root[3:])]["ty"]
    for comp in parts[1:]:
        ty = ty.replace("&mut ", "").replace("&", "").replace("'_ ", "").strip()
        if comp in ("*",):
            continue
        if comp == "[]":
            if ty.startswith("std::vec::Vec<"):
                ty = ty[len("std::vec::Vec<"):-1]
            elif ty.startswith("["):
                ty = ty.strip("[]").split(";")[0]
            else:
                return None
            continue
        adt = u.adts.get(ty.split("<")[0])
        if not adt or adt.get("kind") != "Struct":
            return None
        f = [f_ for f_ in adt["variants"][0]["fields"] if f_["name"] == comp]
        if not f:
            return None
        ty = f[0]["ty"]
    return ty.replace("&mut ", "").replace("&", "").replace("'_ ", "").strip().split("<")[0]


def guarded_pushes(u, lem, owner):
    short = owner.split("::")[-1]
    n = 0
    for p, pb in u.bodies.items():
        if pb["in_test_cfg"]:
            continue
        for bb, tt, name, info in mir.calls(pb):
            if not (name and mir.norm(name).split("::")[-1] == "push" and "Vec" in name and len(tt["args"]) == 2):
                continue
            val = sym.expr(pb, tt["args"][1])
            if not (val[0] == "agg" and str(val[1]).split("::")[-1] == short and "data" in (val[2] or ())):
                continue
            data = val[3][list(val[2]).index("data")]
            cxp = A.Ctx(pb, u, lem.st.sites.get(p))
            ln = cxp.atom(cxp.len_key(data), 0, A.LEN_MAX)
            ok, _h = cxp.prove_le0(ln - A.Lin(2 ** 32 - 1), bb)
            if not ok:
                return False
            n += 1
    # aggregates of the struct that are not pushed directly (built elsewhere) would escape this check
    for p, pb in u.bodies.items():
        if pb["in_test_cfg"]:
            continue
        for blk in pb["blocks"]:
            for st_ in blk["stmts"]:
                if st_["k"] == "assign" and st_["rv"]["k"] == "aggregate" and str(st_["rv"].get("name", st_["rv"].get("adt", ""))).split("::")[-1] == short:
                    pass
    return n > 0


def check(prog, run):
    run.rule("R1", "narrowing / sign-changing integer casts: operand inside the target range (interval, dominating guards, A1 for record counts)")
    run.rule("R2", "float -> integer casts: operand range-checked on every path")
    run.rule("R3", "constant left shifts cannot shift set bits out of the type")
    run.rule("R4", "duration / composition-offset tables carry every per-sample value exactly: a run is extended only on exact equality, otherwise (1, value) is appended (C03.R6 instances) - no clamping or merging of the written deltas")
    from . import c03
    c03.rle_rule(prog, run, "R4")
    run.rule("R5", "the 64-bit base decode time of a fragment holds the value the input implies: the decode time of the fragment's own first sample (minus a write-once stream constant at most), not an estimate, clamp or function of earlier fragments")
    from . import c11, common
    try:
        c11.tfdt_rule(common.Ctx(prog), prog.lib, run, "R5", strict=True)
    except Exception as e:
        run.bad("R5", "anchor flush_segment", "cannot derive the base decode time (fail closed): %s" % e)
    u = prog.lib
    g = mir.Graph(u)
    st = mir.Stores(g)
    reach = g.reach(c12.entries(u))
    run.assumptions += ASSUMPTIONS
    lem = lemmas.Lemmas(u, g, st)
    obs = collect(u, reach)
    cxs = {}
    seen = {}
    seen_open = {}
    counts = {"R1": 0, "R2": 0, "R3": 0}
    how_counts = {}
    for (p, bb, kind, frm, to, node, stmt) in obs:
        b = u.bodies[p]
        if p not in cxs:
            cxs[p] = A.Ctx(b, u, st.sites.get(p))
        cx = cxs[p]
        loc = mir.loc_of(stmt)
        if kind == "shl":
            a, c = sym.expr(b, node["l"] if "l" in node else node["a"]), sym.expr(b, node["r"] if "r" in node else node["b"])
            ty = cx.ty_of(a)
            r = cx.rng(ty)
            ia, ic = cx.interval(a), cx.interval(c)
            if r is None:
                continue
            base = "%s shl %s << %s" % (_kname(p), sym.show(a)[:60], sym.show(c)[:20])
            seen[base] = seen.get(base, 0) + 1
            key = base + (" #%d" % seen[base] if seen[base] > 1 else "")
            counts["R3"] += 1
            if ia and ic and ia[0] >= 0 and ic[0] >= 0 and ic[1] < 128 and (ia[1] << ic[1]) <= r[1]:
                run.ok("R3", key, "operand <= %d, shifted by <= %d stays within %s" % (ia[1], ic[1], ty), loc)
            elif a[0] == "var" and A.bitacc_summary(u, p) is not None and cx.prove_le0(cx.lin(("arg", A.bitacc_summary(u, p) + 1, "n")) - A.Lin(r[1].bit_length()), bb)[0]:
                run.ok("R3", key, "bit accumulation `v = v << 1 | bit` over at most %d iterations (guarded count): no set bit leaves the type" % r[1].bit_length(), loc)
            elif ic and ic[0] != ic[1]:
                # variable shift amounts are bit-accumulation idioms (LEB128 / var-uint): bits above the type are C12's Shl obligation
                run.ok("R3", key, "variable shift amount: accumulation idiom; amount bound is a C12 obligation", loc)
            else:
                sk = "shl %s << %s" % (mir.site_free_desc(b, sym.show(a))[:100], sym.show(c)[:20])
                seen_open[sk] = seen_open.get(sk, 0) + 1
                key = sk + (" #%d" % seen_open[sk] if seen_open[sk] > 1 else "")
                run.bad("R3", key, "`%s << %s` can shift set bits out of %s (operand up to %s)" % (sym.show(a)[:60], sym.show(c)[:10], ty, ia[1] if ia else "?"), loc)
            continue
        if frm == "char":
            continue          # a character code, not a numeric quantity of the container (language packing is C18's)
        e = sym.expr(b, node)
        cx._at = bb
        rule = "R1" if kind == "cast" else "R2"
        base = "%s cast %s->%s %s" % (_kname(p), frm, to, sym.show(e)[:70])
        seen[base] = seen.get(base, 0) + 1
        key = base + (" #%d" % seen[base] if seen[base] > 1 else "")
        counts[rule] += 1
        rt = A.INT_RANGE[to]
        how = None
        if kind == "cast":
            iv = cx.interval(e)
            if iv and rt[0] <= iv[0] and iv[1] <= rt[1]:
                how = "interval [%d, %d]" % iv
            if how is None:
                li = cx.lin(e)
                ok1, h1 = cx.prove_le0(li - A.Lin(rt[1]), bb, entry=True)
                ok2, h2 = cx.prove_le0(A.Lin(rt[0]) - li, bb, entry=True)
                if ok1 and ok2:
                    how = "entailed by dominating guards (%s/%s)" % (h1, h2)
            if how is None and rt[1] >= 2 ** 32 - 1 and rt[0] <= 0 and (record_count(cx, e) or lem.closure_param_enum_index(p, e) or _captured_count(lem, b, p, e)):
                how = "record count / enumerate index: below 2^32 - 1 under assumption A1"
            if how is None and rt[1] >= 2 ** 32 - 1 and rt[0] <= 0 and sample_payload_len(u, lem, cx, b, e):
                how = "L-SAMPLESIZE: length of a queued sample's payload; every push onto a sample queue is dominated by a `len > u32::MAX -> Err` guard"
        else:
            how = None      # float -> int: needs an explicit range guard; the engine has no float facts
        if how:
            how_counts[how.split(" ")[0]] = how_counts.get(how.split(" ")[0], 0) + 1
            run.ok(rule, key, how, loc)
        else:
            sk = "cast %s->%s %s" % (frm, to, mir.site_free_desc(b, sym.show(e))[:120])
            seen_open[sk] = seen_open.get(sk, 0) + 1
            key = sk + (" #%d" % seen_open[sk] if seen_open[sk] > 1 else "")
            run.bad(rule, key, "in %s: `%s as %s` (from %s) can lose value bits: no interval or dominating guard keeps the operand inside [%d, %d]" % (_kname(p), sym.show(e)[:70], to, frm, rt[0], rt[1]), loc)
    run.extra["inventory"] = counts
    run.extra["discharge"] = how_counts
    run.floor("R1", counts["R1"], 25, "narrowing integer casts")
    run.floor("R2", counts["R2"], 1, "float->int casts")
