"""C16 — no numeric field is silently truncated.

Inventory on MIR of every value-losing conversion reachable from the public surface:
  R1 narrowing / sign-changing integer casts (`as`): the operand's value set at the site must lie inside the target type;
  R2 float -> integer casts: the operand must be range-checked (finite, inside the target range) on every path to the cast;
  R3 left shifts by a constant that can push set bits out of the type.
An obligation is discharged when the operand interval (constants, bit masks, field intervals of crate-built structs,
postconditions of local callees, constant widths of byte producers) or the guards dominating the site (Fourier-Motzkin
entailment, lib/mx/absint.py) keep the value inside the target range; counts of records (not bytes) are bounded under
assumption A1.  The dominating guards are branch conditions whose other arm leaves the function (error return) or Assert
terminators that C12 discharges; a cast protected only by the always-on invariant macro (a panic) stays open here.
Everything else is a violation unless exactly listed as a known finding.
  R6 clipping instead of rejecting: a value that reaches a narrowing cast, a `to_be_bytes` serialisation or a field of a sample
     record through `min`/`max`/`clamp`/`saturating_*`/`wrapping_*` or through `unwrap_or*` applied to an integer
     `try_from`/`checked_*` is *clipped*, not guarded: the clip counts as a discharge only when it is a no-op (the unclipped operand
     is already inside the range); integer `try_from`/`try_into` results must propagate their failure.
Not decided: that the *wide* value is the mathematically right one (C01-C03, C08 own the formulas); rounding of f64 ticks."""
from .. import absint as A
from .. import mir, sym
from . import c12, lemmas

EXPLANATION = (
    "cast/shift inventory on MIR: every IntToInt cast whose source range is not contained in the target range, every FloatToInt cast and every constant left shift that can lose bits, in every function reachable from the public "
    "surface, is an obligation; it is discharged by the operand's interval or by entailment from the dominating guards (same engine as C12), by assumption A1 for record counts, or it is reported. Known genuine truncations are listed "
    "as known findings with the input that crosses the boundary.")
TRUSTED = ["absint entailment engine", "interval rules for bit operations"]
ASSUMPTIONS = ["64-bit usize", "A1: fewer than 2^32 - 1 samples per track / entries per table / fragments per muxer (record counts, not byte lengths)"]

BYTE_ELEMS = ("u8",)


import re as _re

_CLIP_NUM = _re.compile(r"core::num::(<impl [iu](8|16|32|64|128|size)>::)?(saturating_|wrapping_|overflowing_)[a-z_]+$")
_CLIP_ORD = _re.compile(r"(std|core)::cmp::(Ord::)?(min|max|clamp)$")
_FALLIBLE = _re.compile(r"(::checked_[a-z_]+$|TryFrom<.*>>::try_from$|TryInto<.*>>::try_into$|::try_from$|::try_into$)")
_UNWRAP_OR = _re.compile(r"(Option|Result)::(<.*>::)?(unwrap_or|unwrap_or_default|unwrap_or_else|map_or|map_or_else)$")
_INT_TRY = _re.compile(r"<[iu](8|16|32|64|128|size) as (std|core)::convert::Try(From|Into)<[iu](8|16|32|64|128|size)>>::try_(from|into)$")

# clipping operations that are not numeric container fields (one named function each, with the reason)
R6_NOT_A_FIELD = {
    "muxer::mp4::encode_language_code": "ISO-639 letter packing: `c.saturating_sub(0x60) & 0x1F` is the 5-bit letter code; C18.R4 tabulates the whole table",
    "fragmented::encode_language_code": "ISO-639 letter packing (fragmented twin); C18.R4 tabulates the whole table",
}


def clip_terms(e):
    """sub-terms of e that clip a value: (description, term, unclipped operand)"""
    out = []
    for t in sym.walk(e):
        if not (isinstance(t, tuple) and t and t[0] == "call" and isinstance(t[1], str)):
            continue
        nm = t[1]
        args = t[2] or ()
        if _CLIP_NUM.search(nm) or _CLIP_ORD.search(nm):
            out.append((nm.split("::")[-1], t, args[0] if args else None))
        elif _UNWRAP_OR.search(nm) and args:
            inner = [x for x in sym.walk(args[0]) if isinstance(x, tuple) and x and x[0] == "call" and isinstance(x[1], str) and _FALLIBLE.search(x[1])]
            if inner:
                out.append(("%s(%s)" % (nm.split("::")[-1], inner[0][1].split("::")[-1]), t, (inner[0][2] or (None,))[0]))
    return out


def _const_of(e):
    while isinstance(e, tuple) and e and ((e[0] == "call" and str(e[1]).split("::")[-1] in ("from", "into") and e[2]) or e[0] == "cast"):
        e = e[2][0] if e[0] == "call" else e[4]
    return e[1] if isinstance(e, tuple) and e and e[0] == "const" and isinstance(e[1], int) else None


def exact_division(y):
    """`(x * c) / d` with constants c, d and d | c loses nothing"""
    d = _const_of(y[3])
    if not d:
        return False
    m = y[2]
    if isinstance(m, tuple) and m and m[0] == "proj" and m[-1] == "0":
        m = m[1]
    if isinstance(m, tuple) and m and m[0] == "bin" and m[1] in ("Mul", "MulWithOverflow"):
        for f in (m[2], m[3]):
            c = _const_of(f)
            if c is not None and c % d == 0:
                return True
    return False


def _subst(e, old, new):
    if e is old or e == old:
        return new
    if isinstance(e, tuple):
        return tuple(_subst(x, old, new) for x in e)
    if isinstance(e, list):
        return [_subst(x, old, new) for x in e]
    return e


def sample_record_fields(u):
    """field names of the crate structs that hold one queued sample (they own a `data: Vec<u8>` payload)"""
    names, structs = set(), set()
    for path, adt in u.adts.items():
        if adt.get("kind") != "Struct":
            continue
        fs = adt["variants"][0]["fields"]
        if any(f["name"] == "data" and f["ty"].startswith("std::vec::Vec<u8") for f in fs):
            structs.add(path.split("::")[-1])
            names |= {f["name"] for f in fs if f["name"] != "data"}
    return structs, names


def _kname(fn):
    """function name for semantic keys: closure ordinals are dropped (they shift when an unrelated closure is added)"""
    import re as _re
    return _re.sub(r"\{closure#\d+\}", "{closure}", mir.norm(fn))


def narrowing(frm, to):
    rf, rt = A.INT_RANGE.get(frm), A.INT_RANGE.get(to)
    if rf is None or rt is None:
        return False
    return rf[0] < rt[0] or rf[1] > rt[1]


def collect(u, reach):
    obs = []
    for p in sorted(reach):
        b = u.bodies[p]
        if b["in_test_cfg"]:
            continue
        live = mir.live_blocks(b)
        for blk in b["blocks"]:
            if blk["cleanup"] or blk["i"] not in live:
                continue
            for i, st in enumerate(blk["stmts"]):
                if st["k"] != "assign":
                    continue
                rv = st["rv"]
                if st.get("span", {}).get("exp") and False:
                    continue
                if rv["k"] == "cast" and rv.get("kind") == "IntToInt" and narrowing(rv["from"], rv["to"]):
                    obs.append((p, blk["i"], "cast", rv["from"], rv["to"], rv["op"], st))
                elif rv["k"] == "cast" and rv.get("kind") == "FloatToInt":
                    obs.append((p, blk["i"], "fcast", rv["from"], rv["to"], rv["op"], st))
                elif rv["k"] == "binop" and rv.get("op") == "Shl":
                    obs.append((p, blk["i"], "shl", None, None, rv, st))
    return obs


def _captured_count(lem, b, p, e):
    """an enumerate index captured by a nested closure (lemma L-COUNT through the capture)"""
    class _O:
        pass
    o = _O()
    o.fn = p
    x = e
    while x[0] == "cast":
        x = x[4]
    if not ((x[0] == "load" and isinstance(x[1], str) and x[1].startswith("arg1.") and x[1].endswith(".*")) or (x[0] == "proj" and x[1][:2] == ("arg", 1))):
        return False
    return b.get("kind") == "Closure" and lem.is_count(b, x, o)


def record_count(cx, e):
    """e is the length of a collection of records (not bytes) or an enumerate index over one"""
    x = e
    while x[0] == "cast":
        x = x[4]
    if cx.enum_index(x) is not None:
        return True
    if x[0] == "call" and x[1].split("::")[-1] == "len" and x[2]:
        y = x[2][0]
        ty = cx.ty_of(y) or ""
        while y[0] == "ref":
            y = y[1]
            ty = ty or (cx.ty_of(y) or "")
        if y[0] in ("refplace", "load") and len(y) > 2:
            ty = y[2] or ty
        if y[0] in ("arg", "var"):
            ty = cx.b["locals"][y[1]]["ty"]
        ty = ty.replace("&mut ", "").replace("&", "").strip()
        if ty.startswith("std::vec::Vec<") or ty.startswith("["):
            inner = ty[len("std::vec::Vec<"):-1] if ty.startswith("std::vec::Vec<") else ty.strip("[]").split(";")[0]
            return inner.strip() not in BYTE_ELEMS and inner.strip() != ""
    return False


_SS = {}


def sample_payload_len(u, lem, cx, b, e):
    """e = len(<place of type SampleStruct>.data) where every push of that struct onto a queue has a guarded payload length"""
    x = e
    while x[0] == "cast":
        x = x[4]
    if not (x[0] == "call" and x[1].split("::")[-1] == "len" and x[2]):
        return False
    y = x[2][0]
    while y[0] == "ref":
        y = y[1]
    if not (y[0] in ("refplace", "load") and isinstance(y[1], str)):
        return False
    alts = [a_ for a_ in y[1].split("|") if not a_.startswith("_")]
    if not alts or not all(a_.endswith(".data") for a_ in alts):
        return False
    for a_ in alts:
        owner = place_owner_type(u, b, a_[:-len(".data")])
        if owner is None:
            return False
        if owner not in _SS:
            _SS[owner] = guarded_pushes(u, lem, owner)
        if not _SS[owner]:
            return False
    return True


def place_owner_type(u, b, path):
    """type (ADT path) of the place `argN.f.[].g...` by walking the ADT field tables"""
    parts = path.split(".")
    root = parts[0]
    if not root.startswith("arg") or not root[3:].isdigit():
        return None
    ty = b["locals"][int(root[3:])]["ty"]
    for comp in parts[1:]:
        ty = ty.replace("&mut ", "").replace("&", "").replace("'_ ", "").strip()
        if comp in ("*",):
            continue
        if comp == "[]":
            if ty.startswith("std::vec::Vec<"):
                ty = ty[len("std::vec::Vec<"):-1]
            elif ty.startswith("["):
                ty = ty.strip("[]").split(";")[0]
            else:
                return None
            continue
        adt = u.adts.get(ty.split("<")[0])
        if not adt or adt.get("kind") != "Struct":
            return None
        f = [f_ for f_ in adt["variants"][0]["fields"] if f_["name"] == comp]
        if not f:
            return None
        ty = f[0]["ty"]
    return ty.replace("&mut ", "").replace("&", "").replace("'_ ", "").strip().split("<")[0]


def guarded_pushes(u, lem, owner):
    short = owner.split("::")[-1]
    n = 0
    for p, pb in u.bodies.items():
        if pb["in_test_cfg"]:
            continue
        for bb, tt, name, info in mir.calls(pb):
            if not (name and mir.norm(name).split("::")[-1] == "push" and "Vec" in name and len(tt["args"]) == 2):
                continue
            val = sym.expr(pb, tt["args"][1])
            if not (val[0] == "agg" and str(val[1]).split("::")[-1] == short and "data" in (val[2] or ())):
                continue
            data = val[3][list(val[2]).index("data")]
            cxp = A.Ctx(pb, u, lem.st.sites.get(p))
            ln = cxp.atom(cxp.len_key(data), 0, A.LEN_MAX)
            ok, _h = cxp.prove_le0(ln - A.Lin(2 ** 32 - 1), bb)
            if not ok:
                return False
            n += 1
    # aggregates of the struct that are not pushed directly (built elsewhere) would escape this check
    for p, pb in u.bodies.items():
        if pb["in_test_cfg"]:
            continue
        for blk in pb["blocks"]:
            for st_ in blk["stmts"]:
                if st_["k"] == "assign" and st_["rv"]["k"] == "aggregate" and str(st_["rv"].get("name", st_["rv"].get("adt", ""))).split("::")[-1] == short:
                    pass
    return n > 0


def check(prog, run):
    run.rule("R1", "narrowing / sign-changing integer casts: operand inside the target range (interval, dominating guards, A1 for record counts)")
    run.rule("R2", "float -> integer casts: operand range-checked on every path")
    run.rule("R3", "constant left shifts cannot shift set bits out of the type")
    run.rule("R4", "duration / composition-offset tables carry every per-sample value exactly: a run is extended only on exact equality, otherwise (1, value) is appended (C03.R6 instances) - no clamping or merging of the written deltas")
    from . import c03
    c03.rle_rule(prog, run, "R4")
    run.rule("R5", "the 64-bit base decode time of a fragment holds the value the input implies: the decode time of the fragment's own first sample (minus a write-once stream constant at most), not an estimate, clamp or function of earlier fragments")
    from . import c11, common
    try:
        c11.tfdt_rule(common.Ctx(prog), prog.lib, run, "R5", strict=True)
    except Exception as e:
        run.bad("R5", "anchor flush_segment", "cannot derive the base decode time (fail closed): %s" % e)
    run.rule("R6", "no value is clipped on its way into a field: min/max/clamp/saturating/wrapping or unwrap_or over try_from/checked_* feeding a narrowing cast, a to_be_bytes serialisation or a sample-record field must be a no-op; integer try_from failures are not swallowed")
    u = prog.lib
    g = mir.Graph(u)
    st = mir.Stores(g)
    reach = g.reach(c12.entries(u))
    run.assumptions += ASSUMPTIONS
    lem = lemmas.Lemmas(u, g, st)
    obs = collect(u, reach)
    cxs = {}
    seen = {}
    seen_open = {}
    counts = {"R1": 0, "R2": 0, "R3": 0}
    r6 = 0
    how_counts = {}
    for (p, bb, kind, frm, to, node, stmt) in obs:
        b = u.bodies[p]
        if p not in cxs:
            cxs[p] = A.Ctx(b, u, st.sites.get(p))
        cx = cxs[p]
        loc = mir.loc_of(stmt)
        if kind == "shl":
            a, c = sym.expr(b, node["l"] if "l" in node else node["a"]), sym.expr(b, node["r"] if "r" in node else node["b"])
            ty = cx.ty_of(a)
            r = cx.rng(ty)
            ia, ic = cx.interval(a), cx.interval(c)
            if r is None:
                continue
            base = "%s shl %s << %s" % (_kname(p), sym.show(a)[:60], sym.show(c)[:20])
            seen[base] = seen.get(base, 0) + 1
            key = base + (" #%d" % seen[base] if seen[base] > 1 else "")
            counts["R3"] += 1
            if ia and ic and ia[0] >= 0 and ic[0] >= 0 and ic[1] < 128 and (ia[1] << ic[1]) <= r[1]:
                run.ok("R3", key, "operand <= %d, shifted by <= %d stays within %s" % (ia[1], ic[1], ty), loc)
            elif a[0] == "var" and A.bitacc_summary(u, p) is not None and cx.prove_le0(cx.lin(("arg", A.bitacc_summary(u, p) + 1, "n")) - A.Lin(r[1].bit_length()), bb)[0]:
                run.ok("R3", key, "bit accumulation `v = v << 1 | bit` over at most %d iterations (guarded count): no set bit leaves the type" % r[1].bit_length(), loc)
            elif ic and ic[0] != ic[1]:
                # variable shift amounts are bit-accumulation idioms (LEB128 / var-uint): bits above the type are C12's Shl obligation
                run.ok("R3", key, "variable shift amount: accumulation idiom; amount bound is a C12 obligation", loc)
            else:
                sk = "shl %s << %s" % (mir.site_free_desc(b, sym.show(a))[:100], sym.show(c)[:20])
                seen_open[sk] = seen_open.get(sk, 0) + 1
                key = sk + (" #%d" % seen_open[sk] if seen_open[sk] > 1 else "")
                run.bad("R3", key, "`%s << %s` can shift set bits out of %s (operand up to %s)" % (sym.show(a)[:60], sym.show(c)[:10], ty, ia[1] if ia else "?"), loc)
            continue
        if frm == "char":
            continue          # a character code, not a numeric quantity of the container (language packing is C18's)
        e = sym.expr(b, node)
        cx._at = bb
        rule = "R1" if kind == "cast" else "R2"
        base = "%s cast %s->%s %s" % (_kname(p), frm, to, sym.show(e)[:70])
        seen[base] = seen.get(base, 0) + 1
        key = base + (" #%d" % seen[base] if seen[base] > 1 else "")
        counts[rule] += 1
        rt = A.INT_RANGE[to]
        how = None
        if kind == "cast":
            iv = cx.interval(e)
            if iv and rt[0] <= iv[0] and iv[1] <= rt[1]:
                how = "interval [%d, %d]" % iv
            if how is None:
                li = cx.lin(e)
                ok1, h1 = cx.prove_le0(li - A.Lin(rt[1]), bb, entry=True)
                ok2, h2 = cx.prove_le0(A.Lin(rt[0]) - li, bb, entry=True)
                if ok1 and ok2:
                    how = "entailed by dominating guards (%s/%s)" % (h1, h2)
            if how is None and rt[1] >= 2 ** 32 - 1 and rt[0] <= 0 and (record_count(cx, e) or lem.closure_param_enum_index(p, e) or _captured_count(lem, b, p, e)):
                how = "record count / enumerate index: below 2^32 - 1 under assumption A1"
            if how is None and rt[1] >= 2 ** 32 - 1 and rt[0] <= 0 and sample_payload_len(u, lem, cx, b, e):
                how = "L-SAMPLESIZE: length of a queued sample's payload; every push onto a sample queue is dominated by a `len > u32::MAX -> Err` guard"
        else:
            how = None      # float -> int: needs an explicit range guard; the engine has no float facts
        if how and kind == "cast":
            clips = [c for c in clip_terms(e) if c[2] is not None]
            if clips:
                e2 = e
                for (_d, t, inner) in clips:
                    e2 = _subst(e2, t, inner)
                iv2 = cx.interval(e2)
                noop = bool(iv2 and rt[0] <= iv2[0] and iv2[1] <= rt[1])
                if not noop:
                    li2 = cx.lin(e2)
                    noop = cx.prove_le0(li2 - A.Lin(rt[1]), bb, entry=True)[0] and cx.prove_le0(A.Lin(rt[0]) - li2, bb, entry=True)[0]
                r6 += 1
                ck = "clip %s then cast %s->%s %s" % ("+".join(sorted(set(c[0] for c in clips))), frm, to, mir.site_free_desc(b, sym.show(e))[:100])
                if noop:
                    run.ok("R6", ck, "the clip is a no-op: the unclipped operand is already inside [%d, %d]" % rt, loc)
                else:
                    seen_open[ck] = seen_open.get(ck, 0) + 1
                    ck += " #%d" % seen_open[ck] if seen_open[ck] > 1 else ""
                    run.bad("R6", ck, "in %s: `%s as %s` fits only because the operand is clipped by `%s`; an out-of-range input is written clipped instead of being rejected" % (_kname(p), sym.show(e)[:70], to, clips[0][0]), loc)
                    continue
        if how:
            how_counts[how.split(" ")[0]] = how_counts.get(how.split(" ")[0], 0) + 1
            run.ok(rule, key, how, loc)
        else:
            sk = "cast %s->%s %s" % (frm, to, mir.site_free_desc(b, sym.show(e))[:120])
            seen_open[sk] = seen_open.get(sk, 0) + 1
            key = sk + (" #%d" % seen_open[sk] if seen_open[sk] > 1 else "")
            run.bad(rule, key, "in %s: `%s as %s` (from %s) can lose value bits: no interval or dominating guard keeps the operand inside [%d, %d]" % (_kname(p), sym.show(e)[:70], to, frm, rt[0], rt[1]), loc)
    # R7: a guarded difference is measured against the last *accepted* value: the watermark fields the narrowed differences read are
    # not stored on any path that ends in a rejection (C05.R1 instances restricted to those fields)
    wm = set()
    narrowed = [(p, sym.expr(u.bodies[p], node)) for (p, bb, kind, frm, to, node, stmt) in obs if kind == "cast"]
    for p in sorted(reach):
        if u.bodies[p]["in_test_cfg"]:
            continue
        for bb_, tt, name, info in mir.calls(u.bodies[p]):
            # a checked conversion (`u32::try_from(a - b)`) narrows just like a guarded cast
            if name and mir.norm(name).split("::")[-1] in ("try_from", "try_into") and tt["args"]:
                narrowed.append((p, sym.expr(u.bodies[p], tt["args"][0])))
    for p_, ex_ in list(narrowed):
        # a difference taken inside a local helper: `helper(now, self.prev)` - the subtrahend is the call sites' argument
        for t_ in sym.walk(ex_):
            if isinstance(t_, tuple) and t_ and t_[0] == "bin" and t_[1] in ("Sub", "SubWithOverflow") and isinstance(t_[3], tuple) and t_[3][0] == "arg":
                k_ = t_[3][1]
                for q_ in sorted(reach):
                    if u.bodies[q_]["in_test_cfg"]:
                        continue
                    for bb2, t2, n2, i2 in mir.calls(u.bodies[q_]):
                        if n2 == p_ and len(t2["args"]) >= k_:
                            sub_ = sym.expr(u.bodies[q_], t2["args"][k_ - 1])
                            narrowed.append((q_, ("bin", "Sub", ("const", 0, "u64"), sub_)))
    for p_, ex_ in narrowed:
        for t_ in sym.walk(ex_):
            if isinstance(t_, tuple) and t_ and t_[0] == "bin" and t_[1] in ("Sub", "SubWithOverflow") and isinstance(t_[3], tuple):
                # the subtrahend is receiver state (read directly, or taken out through Option::replace / take / mem::replace)
                for y in sym.walk(t_[3]):
                    if isinstance(y, tuple) and y and y[0] in ("load", "refplace") and isinstance(y[1], str) and y[1].startswith("arg1.") and "[]" not in y[1]:
                        wm.add(y[1].split(".")[1])
    run.rule("R7", "range guards of timestamp differences are measured against the last accepted timestamp: the watermark fields (%s) are never stored on a path that ends in a rejection - otherwise a gap that does not fit its field is accepted after one refusal and written as a small wrong value (C05.R1 instances for these fields)" % ", ".join(sorted(wm)))
    run.check(len(wm) >= 2, "R7", "watermark fields", "narrowed differences read %s" % sorted(wm), "fewer than two watermark fields found under narrowing casts (anchor; fail closed): %s" % sorted(wm), how="count")
    from . import c05
    c05.purity_rule(prog, run, "R7", only=lambda store: str(store).split(".")[0] in wm)
    # R8: truncating integer division accumulated into receiver state
    run.rule("R8", "no truncating integer division is accumulated into receiver state: `self.f = self.f + a / b` on integers drops the remainder at every call, so the stored position falls behind the value the input implies by up to one unit per call (drift that grows with the recording)")
    n8 = 0
    for p in sorted(reach):
        b = u.bodies[p]
        if b["in_test_cfg"]:
            continue
        if p not in cxs:
            cxs[p] = A.Ctx(b, u, st.sites.get(p))
        cx = cxs[p]
        for (bb_, i_, (root, path), why, node) in st.sites.get(p, []):
            if not why.startswith("assign") or root != ("arg", 1) or not path or node.get("k") != "assign":
                continue
            ex = sym.expr_rv(b, node["rv"])
            fld = path[0]
            acc = any(isinstance(y, tuple) and y and y[0] == "load" and isinstance(y[1], str) and y[1].split(".")[:2] == ["arg1", fld] for y in sym.walk(ex))
            if not acc:
                continue
            n8 += 1
            divs = [y for y in sym.walk(ex) if isinstance(y, tuple) and y and y[0] == "bin" and y[1] in ("Div", "Rem") and (cx.ty_of(y[2]) or "") in A.INT_RANGE and not (y[3][0] == "const" and y[3][1] in (1,)) and not exact_division(y)]
            k8 = "%s accumulates into %s" % (_kname(p), fld)
            seen[k8] = seen.get(k8, 0) + 1
            k8 += " #%d" % seen[k8] if seen[k8] > 1 else ""
            run.check(not divs, "R8", k8, "no integer division inside the accumulated term",
                      "in %s the field `%s` is advanced by a term containing the truncating integer division `%s`: the remainder is dropped at every call and never paid back, so `%s` drifts away from the exact value" % (_kname(p), fld, sym.show(divs[0])[:80] if divs else "", fld), mir.loc_of(node))
    run.floor("R8", n8, 8, "accumulating stores into receiver state")
    # R6 (b): clipped values serialised by to_be_bytes / stored into sample records; (c) integer try_from whose failure is swallowed
    structs, fields = sample_record_fields(u)
    for p in sorted(reach):
        b = u.bodies[p]
        if b["in_test_cfg"]:
            continue
        kn = _kname(p)
        sinks = []
        live = mir.live_blocks(b)
        for bb_, tt, name, info in mir.calls(b):
            last = mir.norm(name).split("::")[-1] if name else ""
            if last in ("to_be_bytes", "to_le_bytes") and tt["args"]:
                sinks.append(("serialised by %s" % last, sym.expr(b, tt["args"][0]), mir.loc_of(tt)))
            ci = (tt["func"].get("callee") or {}) if isinstance(tt.get("func"), dict) else {}
            if last in ("try_from", "try_into") and str(ci.get("self_ty", "")) in A.INT_RANGE and ci.get("substs") and all(x in A.INT_RANGE for x in ci["substs"][:2]):
                r6 += 1
                d = tt["dest"]["l"]
                users = [mir.norm(n2).split("::")[-1] for _b2, t2, n2, _i2 in mir.calls(b) if n2 and any(a_.get("k") in ("copy", "move") and a_["place"]["l"] == d and not a_["place"]["p"] for a_ in t2["args"])]
                swallow = [x for x in users if x in ("unwrap_or", "unwrap_or_default", "unwrap_or_else", "ok", "map_or", "map_or_else", "is_ok", "is_err")]
                tk = "%s integer %s %s" % (kn, last, sym.show(sym.expr(b, tt["args"][0]))[:60])
                if swallow:
                    run.bad("R6", tk, "the failure of the integer conversion is swallowed by `%s`: an out-of-range value is replaced, not rejected" % swallow[0], mir.loc_of(tt))
                else:
                    run.ok("R6", tk, "conversion failure is not replaced by a default (consumers: %s)" % (", ".join(users) or "branch/match"), mir.loc_of(tt))
        for blk in b["blocks"]:
            if blk["cleanup"] or blk["i"] not in live:
                continue
            for st_ in blk["stmts"]:
                if st_["k"] != "assign":
                    continue
                rv = st_["rv"]
                pl = st_["place"]
                fld = [proj for proj in pl["p"] if proj.get("k") == "field"]
                fname = None
                if fld:
                    fname = mir.proj_key(fld[-1])
                if rv["k"] == "aggregate" and str(rv.get("name", rv.get("adt", ""))).split("::")[-1] in structs:
                    sinks.append(("stored in a %s record" % str(rv.get("name", rv.get("adt", ""))).split("::")[-1], sym.expr_rv(b, rv), mir.loc_of(st_)))
                elif fname in fields and any(e_["k"] == "deref" for e_ in pl["p"]):
                    sinks.append(("stored in sample-record field `%s`" % fname, sym.expr_rv(b, rv), mir.loc_of(st_)))
        for what, ex, loc in sinks:
            for (d_, t, inner) in clip_terms(ex):
                r6 += 1
                ck = "%s clip %s %s" % (kn, d_, what)
                seen[ck] = seen.get(ck, 0) + 1
                ck += " #%d" % seen[ck] if seen[ck] > 1 else ""
                if mir.norm(p) in R6_NOT_A_FIELD or kn in R6_NOT_A_FIELD:
                    run.ok("R6", ck, "not a numeric container field: " + R6_NOT_A_FIELD.get(kn, R6_NOT_A_FIELD.get(mir.norm(p), "")), loc)
                else:
                    run.bad("R6", ck, "in %s a value clipped by `%s` (`%s`) is %s: an out-of-range value is written clipped instead of being rejected" % (kn, d_, sym.show(t)[:80], what), loc)
    counts["R6"] = r6
    run.extra["sample_record_structs"] = sorted(structs)
    run.floor("R6", r6, 7, "clipping operations on the way into a field (cast operands, to_be_bytes, sample records)")
    run.extra["inventory"] = counts
    run.extra["discharge"] = how_counts
    run.floor("R1", counts["R1"], 25, "narrowing integer casts")
    run.floor("R2", counts["R2"], 1, "float->int casts")
