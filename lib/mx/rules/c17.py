"""C17 — output is a pure function of the call sequence; equivalent API paths agree.

Decided structurally: R1 no ambient input (clock/RNG/env/fs/process/thread/net/atomics/TypeId, statics) is
reachable from any muxing entry point; R2 the thread-local invariant log is write-only w.r.t. muxing (the
closures handed to LocalKey::with return `()` and store nothing into their environment); R3 the sink type is
used only through std::io::Write; R4 auto-trait facts for all W (decided in the parameter environment by the
trait solver inside the driver); R5 alias entry points are pure delegations / alpha-equal bodies; audio codec
`None` configures no audio.  Not decided: f64 accumulation of encode_* vs explicit timestamps (numeric)."""
import json

from .. import externals as X
from .. import flow, mir, sym
from ..anchors import AnchorMissing
from . import common

EXPLANATION = (
    "static effect analysis over the whole-library call graph (resolved callees): R1 the set of ambient effects reachable from every public "
    "muxing entry point is empty (classification of external callees in lib/mx/externals.py; statics and thread-locals from MIR); "
    "R2 thread-local log closures are write-only (return () and store nothing to captures) on the muxing path and readers are unreachable from it; "
    "R3 sink used only via std::io::Write; R4 Muxer<W>/MuxerBuilder<W>/Mp4Writer<W>: Send if W: Send, Sync if W: Sync for ALL W, decided by the trait solver in a "
    "parameter environment (and not unconditionally: non-vacuous); FragmentedMuxer: Send+Sync; R5 finish/flush/finish_with_stats/finish_in_place are single delegations, "
    "set_video_track==video and set_audio_track==audio have alpha-equal MIR, codec None => no audio track. Not decided: numeric agreement of encode_* auto-timestamps.")
TRUSTED = ["externals classification (lib/mx/externals.py)", "rustc trait solver (type_implements_trait)", "std: HashSet/RefCell/LocalKey semantics"]

# explicit, reasoned exceptions to R1 (one named public symbol each)
R1_EXCEPTIONS = {
    "api::Metadata::with_current_time": "asks for the wall clock by contract: the caller explicitly requests 'now' as *input* metadata; not part of muxing a call sequence",
}
# public test-support API of the invariant log (not muxing entry points)
LOG_MODULE = "invariant_ppt::"


def direct_effects(cx, p):
    b = cx.u.bodies[p]
    eff = []
    for bb, t, name, info in mir.calls(b):
        if name is None:
            eff.append(("indirect-call", "<fn pointer / dyn>", mir.loc_of(t)))
            continue
        if name in cx.u.bodies:
            continue
        nm = mir.norm(name)
        e = X.effect_of(nm)
        if e:
            eff.append((e, nm, mir.loc_of(t)))
        elif not (nm.startswith("std::") or nm.startswith("core::") or nm.startswith("alloc::") or nm.startswith("<")):
            if not any(nm.startswith(a) or a in nm for a in ALLOWED_DEP_PREFIXES):
                eff.append(("unclassified-dependency", nm, mir.loc_of(t)))
        if is_hash_order(nm):
            eff.append(("hash-order", nm, mir.loc_of(t)))
        if nm.split("::")[-1] in ADDRESS_METHODS and ("ptr" in nm or "slice" in nm or "<impl" in nm):
            eff.append(("address", nm, mir.loc_of(t)))
    for blk in b["blocks"]:
        if blk["cleanup"]:
            continue
        for st in blk["stmts"]:
            s = json.dumps(st)
            if "PointerExposeProvenance" in s or "PointerExposeAddress" in s:
                eff.append(("address", "pointer-to-integer cast", mir.loc_of(st)))
            if '"k": "tlsref"' in s:
                eff.append(("tls", "thread-local static", mir.loc_of(st)))
            if '"static": ' in s and '"k": "tlsref"' not in s:
                eff.append(("static", "static item access", mir.loc_of(st)))
        s = json.dumps(blk["term"].get("args", []))
        if '"static": ' in s:
            eff.append(("static", "static item access", mir.loc_of(blk["term"])))
    return eff


# where the caller's buffer happens to live is ambient input too: alignment queries and pointer-to-integer conversions
ADDRESS_METHODS = {"align_offset", "align_to", "align_to_mut", "addr", "expose_provenance", "expose_addr", "is_aligned", "is_aligned_to"}
ALLOWED_DEP_PREFIXES = ("serde_json::to_string", "_serde::", "serde::")
HASH_ITER_METHODS = {"iter", "iter_mut", "keys", "values", "values_mut", "into_keys", "into_values", "drain", "retain", "extract_if",
                     "difference", "symmetric_difference", "intersection", "union"}


def is_hash_order(nm):
    """does the call observe the iteration order of a std hash collection (RandomState: differs per map / thread / process)?
    inherent iteration methods, every IntoIterator impl of HashMap/HashSet (owned, & and &mut), and any method of the hash_map / hash_set iterator types"""
    if "std::collections::hash_map::" in nm or "std::collections::hash_set::" in nm:
        head = nm.split(" as ")[0]
        if any(x in head for x in ("Iter", "Keys", "Values", "Drain", "IntoIter", "IntoKeys", "IntoValues", "Difference", "Union", "Intersection", "ExtractIf")):
            return True
    if "std::collections::HashMap" in nm or "std::collections::HashSet" in nm:
        last = nm.split("::")[-1]
        if nm.startswith("<") and " as std::iter::IntoIterator>" in nm:
            return True
        if not nm.startswith("<") and last in HASH_ITER_METHODS:
            return True
    return False


def muxing_entries(cx):
    out = []
    for p, b in cx.live.items():
        if not b["reachable_pub"]:
            continue
        if mir.norm(p).startswith(LOG_MODULE):
            continue
        out.append(p)
    return sorted(out)


def convenience_clock_rule(prog, run, rule):
    """automatic-timestamp writes == explicit timestamps at the same tick values: the running position the convenience methods keep
    must advance exactly once per *accepted* frame - a store to it on a path that ends in a rejection shifts every later automatic
    timestamp, which an explicit caller (who knows the frame was refused) would not do.  The clock fields are found, not named: the
    receiver fields the `encode_*` methods store to directly.  C05.R1 instances restricted to those fields."""
    from . import c05
    run.rule(rule, "convenience clocks advance only with accepted frames: the running-position fields of the automatic-timestamp methods are never stored on a path that ends in a rejection (C05.R1 instances for those fields)")
    try:
        cx = common.Ctx(prog)
    except AnchorMissing as e:
        run.bad(rule, "anchor", "anchor missing: %s" % e)
        return
    clocks = set()
    for p in cx.live:
        if mir.norm(p).split("::")[-1] in ("encode_video", "encode_audio") and mir.norm(p).startswith("api::Muxer"):
            for (bb, i, (root, path), why, node) in cx.st.sites[p]:
                if why.startswith("assign") and root == ("arg", 1) and len(path) == 1:
                    clocks.add(path[0])
    run.check(len(clocks) >= 2, rule, "clock fields", "running positions kept by the convenience methods: %s" % sorted(clocks),
              "the automatic-timestamp methods store to fewer than two receiver fields (anchor; fail closed): %s" % sorted(clocks), how="count")
    c05.purity_rule(prog, run, rule, only=lambda store: str(store).split(".")[0] in clocks)


def check(prog, run):
    run.rule("R6", "equivalent routes to one attribute agree: every API setter of title / language / creation time stores the parameter itself (C18.R5 instances)")
    from . import c18
    c18.verbatim_setters(prog, run, "R6")
    run.rule("R1", "no ambient effect (clock, rng, env, fs, process, thread, net, atomics, TypeId, hash order, statics, unclassified dependency calls) is reachable from a public muxing entry point; thread-local access only through the write-only log")
    run.rule("R2", "thread-local log is write-only on the muxing path: every LocalKey::with closure reachable from muxing returns () and stores nothing into captured state; log readers are unreachable from muxing")
    run.rule("R3", "the generic sink is used only through std::io::Write (no TypeId/Any/downcast on it)")
    run.rule("R4", "auto traits for all W: Send if W: Send, Sync if W: Sync (and not unconditionally); FragmentedMuxer: Send + Sync")
    run.rule("R5", "equivalent API paths: finish family are single delegations; builder aliases have alpha-equal bodies (or delegate); codec None configures no audio")
    convenience_clock_rule(prog, run, "R7")
    try:
        cx = common.Ctx(prog)
    except AnchorMissing as e:
        run.bad("R1", "anchor", "anchor missing: %s" % e)
        return
    u, g = cx.u, cx.g
    eff = {p: direct_effects(cx, p) for p in cx.live}
    entries = muxing_entries(cx)
    run.floor("R1", len(entries), 150, "public muxing entry points")
    tls_ok_fns = set()
    # R2 first: classify LocalKey::with sites
    tls_sites = []
    for p, b in cx.live.items():
        for bb, t, name, info in mir.calls(b):
            if name and mir.norm(name) == "std::thread::LocalKey::with":
                e = sym.expr(b, t["args"][1]) if len(t["args"]) > 1 else None
                clo = None
                if e and e[0] == "agg" and str(e[1]).startswith("closure "):
                    clo = e[1][len("closure "):]
                tls_sites.append((p, bb, t, clo))
    readers = set()
    for (p, bb, t, clo) in tls_sites:
        key = "tls-closure %s" % mir.norm(clo or p)
        if clo is None or clo not in u.bodies:
            run.bad("R2", key, "LocalKey::with called with something that is not a local closure", mir.loc_of(t))
            readers.add(p)
            continue
        cb = u.bodies[clo]
        ret = cb["locals"][0]["ty"]
        env_stores = [s for s in cx.st.sum[clo] if s[0] in (("arg", 1), ("argval", 1))]
        write_only = ret == "()" and not env_stores
        if not write_only:
            readers.add(p)
        run.extra.setdefault("tls_closures", []).append({"fn": mir.norm(p), "closure": mir.norm(clo), "returns": ret, "write_only": write_only})
    run.floor("R2", len(tls_sites), 4, "LocalKey::with call sites")
    for ent in entries:
        reach = g.reach([ent])
        bad = []
        for f in reach:
            for (kind, what, loc) in eff.get(f, []):
                if kind == "tls":
                    continue   # the generated accessor; judged through LocalKey::with sites (R2)
                if kind == "tls" or (kind == "tls" and f in readers):
                    continue
                if kind == "tls":
                    continue
                if what in ("std::thread::LocalKey::with", "std::thread::local_impl::LazyStorage::get_or_init"):
                    continue
                bad.append((kind, what, f, loc))
        if ent in R1_EXCEPTIONS or mir.norm(ent) in R1_EXCEPTIONS:
            run.ok("R1", "effects %s" % mir.norm(ent), "excepted: " + R1_EXCEPTIONS[mir.norm(ent)], how="count")
            continue
        if bad:
            k, what, f, loc = bad[0]
            run.bad("R1", "effects %s" % mir.norm(ent), "ambient effect `%s` (%s) reachable via %s (%d effect site(s))" % (k, what, mir.norm(f), len(bad)), loc)
        else:
            run.ok("R1", "effects %s" % mir.norm(ent), "no ambient effect in %d reachable function(s)" % len(reach))
        rd = sorted(mir.norm(f) for f in reach if f in readers)
        run.check(not rd, "R2", "tls-read %s" % mir.norm(ent), "no thread-local reader reachable",
                  "a function that reads the thread-local log is reachable: %s" % rd)
    # the exception must still be the only clock user
    clock_fns = sorted(mir.norm(f) for f, es in eff.items() if any(k == "clock" for k, _, _ in es))
    run.extra["clock_users"] = clock_fns
    # statics inventory
    st_items = u.items["statics"]
    for s in st_items:
        run.check(s["thread_local"] and s["path"].startswith(LOG_MODULE), "R1", "static %s" % s["path"].split("::{")[0],
                  "thread-local, owned by the invariant log module", "a static item outside the invariant-log module exists: %s" % s["path"])
    r3(cx, run)
    r4(cx, run)
    r5(cx, run)


def r3(cx, run):
    from . import c06
    c06.r1(cx, run)
    # re-label: c06.r1 records under R1 of C06; here those instances are R3
    for o in run.obs:
        if o["rule"] == "R1" and (o["key"].startswith("sink-") or o["key"] in ("single-writer", "floor:sink calls")):
            o["rule"] = "R3"


def r4(cx, run):
    u = cx.u
    want_generic = ["api::Muxer", "api::MuxerBuilder", "muxer::mp4::Mp4Writer"]
    for adt in want_generic:
        a = u.auto.get(adt)
        if a is None:
            run.bad("R4", "auto %s" % adt, "type not found")
            continue
        for tr in ("send", "sync"):
            run.check(a[tr + "_if_params"], "R4", "%s<W>: %s given W: %s" % (adt, tr.title(), tr.title()),
                      "holds for all W (trait solver, parameter environment)", "%s<W> is not %s even when W is" % (adt, tr.title()))
            run.check(not a[tr + "_uncond"], "R4", "%s<W>: %s non-vacuous" % (adt, tr.title()),
                      "does not hold without the assumption on W (the bound is what carries it)",
                      "%s<W>: %s holds unconditionally — the sink is not owned by value any more?" % (adt, tr.title()), how="count")
    a = u.auto.get("fragmented::FragmentedMuxer")
    if a is None:
        run.bad("R4", "auto FragmentedMuxer", "type not found")
    else:
        for tr in ("send", "sync"):
            run.check(a[tr + "_uncond"], "R4", "FragmentedMuxer: %s" % tr.title(), "holds", "FragmentedMuxer is not %s" % tr.title())


def fingerprint(body):
    def strip(x):
        if isinstance(x, dict):
            return {k: strip(v) for k, v in x.items() if k not in ("span", "fn_span") and not k.startswith("_")}
        if isinstance(x, list):
            return [strip(v) for v in x]
        return x
    return json.dumps([strip(b) for b in body["blocks"]], sort_keys=True)


def single_delegation(cx, p):
    """(callee, ok) if body p consists of exactly one call to a local function (receiver/args passed through
    unchanged, in order), optionally followed by Result::map with a closure returning (), and stores nothing."""
    u = cx.u
    b = u.bodies[p]
    local_calls = [(bb, t, name) for bb, t, name, info in mir.calls(b) if name in u.bodies]
    ext_calls = [mir.norm(name) for bb, t, name, info in mir.calls(b) if name not in u.bodies]
    if len(local_calls) != 1:
        return None, "expected exactly one local call, found %d" % len(local_calls)
    # `f(..).map(|_| ())` and `f(..)?; Ok(())` both hand the callee's error through unchanged and discard nothing but the success value
    allowed = ("std::result::Result::map", "<std::result::Result<T, E> as std::ops::Try>::branch",
               "<std::result::Result<T, F> as std::ops::FromResidual<std::result::Result<std::convert::Infallible, E>>>::from_residual")
    if any(e not in allowed for e in ext_calls):
        return None, "extra external calls %s" % ext_calls
    bb, t, name = local_calls[0]
    # arguments: parameter i (or a reborrow of it) in position i
    for i, a in enumerate(t["args"]):
        e = sym.expr(b, a)
        while e and e[0] in ("ref", "cast"):
            e = e[1] if e[0] == "ref" else e[4]
        ok = (e[0] == "arg" and e[1] == i + 1) or (e[0] in ("refplace", "load") and e[1] == "arg%d" % (i + 1)) or \
             (e[0] == "refplace" and e[1] == "argval%d" % (i + 1)) or (e[0] == "var")
        if not ok:
            return None, "argument %d of the delegated call is %s" % (i, sym.show(e))
    direct = [s for s in cx.st.sites[p] if not s[3].startswith("call")]
    if direct:
        return None, "stores besides the delegated call"
    pd = mir.partial_defs(b)
    for l in range(1, b["argc"] + 1):
        if pd.get(l) or len(mir.defs(b).get(l, [])) > 0:
            return None, "the receiver/argument `%s` is modified before delegating" % (mir.debug_name(b, l) or "_%d" % l)
    return name, ""


def r5(cx, run):
    u = cx.u
    chain = {
        "api::Muxer::<Writer>::finish": "api::Muxer::<Writer>::finish_in_place",
        "api::Muxer::<Writer>::finish_in_place": "api::Muxer::<Writer>::finish_in_place_with_stats",
        "api::Muxer::<Writer>::finish_with_stats": "api::Muxer::<Writer>::finish_in_place_with_stats",
        "api::Muxer::<Writer>::flush": "api::Muxer::<Writer>::finish",
    }
    for src, dst in chain.items():
        if src not in u.bodies:
            run.bad("R5", "alias %s" % mir.norm(src), "public alias entry point is missing")
            continue
        callee, why = single_delegation(cx, src)
        good = callee is not None and (callee == dst or _reaches_only(cx, callee, chain, dst))
        run.check(good, "R5", "alias %s" % mir.norm(src), "single delegation to %s" % mir.norm(callee or "?"),
                  "not a pure delegation to %s: %s" % (mir.norm(dst), why or ("delegates to " + mir.norm(callee or "?"))), mir.loc_of(u.bodies[src]))
    for a, b in (("api::MuxerBuilder::<Writer>::set_video_track", "api::MuxerBuilder::<Writer>::video"),
                 ("api::MuxerBuilder::<Writer>::set_audio_track", "api::MuxerBuilder::<Writer>::audio")):
        if a not in u.bodies or b not in u.bodies:
            run.bad("R5", "alias %s" % mir.norm(a), "builder alias missing")
            continue
        same = fingerprint(u.bodies[a]) == fingerprint(u.bodies[b])
        if not same:
            callee, why = single_delegation(cx, a)
            same = callee == b
        run.check(same, "R5", "alias %s" % mir.norm(a), "alpha-equal MIR with %s" % mir.norm(b),
                  "%s and %s differ (neither identical bodies nor a delegation)" % (mir.norm(a), mir.norm(b)), mir.loc_of(u.bodies[a]))
    # codec None => no audio: `audio(AudioCodec::None, ..)` builds the same muxer as no audio call at all (the builder is tabulated)
    from . import c04
    c04.builder_audio_table(cx.prog, run, "R5", none_only=True)


def _reaches_only(cx, callee, chain, dst):
    seen = set()
    while callee in chain and callee not in seen:
        seen.add(callee)
        callee = chain[callee]
    return callee == dst
