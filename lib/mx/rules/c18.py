"""C18 — title, creation date and language are stored faithfully and touch nothing else.

R1 title: udta production = [nothing when no item] | udta > meta(FullBox 0) > hdlr(mdir) + ilst > {(c)nam > data(type 1, locale 0, the title's
   UTF-8 bytes verbatim)}?, {(c)day > data(.., date string)}?  — one name item, exact bytes, no udta when neither is set;
R2 non-interference: metadata reaches only the udta subtree and the language field of the media headers;
R3 language plumbing: every mdhd language field derives from metadata.language with the `und` default.
Not decided: correctness of the days->Y-M-D conversion and of the 5-bit packing (arithmetic); termination for huge times is C12."""
from .. import boxcheck as B
from .. import layout as L
from .. import mir, sym
from . import c19

EXPLANATION = (
    "layout interpretation of build_udta_box and of the whole moov production: R1 the user-data production is matched against the iTunes-style metadata layout (meta full-box prefix, mdir handler, ilst items with a "
    "`data` box of type 1 / locale 0 followed by the verbatim bytes of the title string; emitted only when at least one item exists); R2 every value expression, condition and repetition base of the moov production outside "
    "udta and outside the 2-byte mdhd language field is free of the `metadata` parameter (non-interference); R3 both mdhd language fields are computed from metadata.language with default `und`.")
TRUSTED = ["layout interpreter", "iTunes metadata layout transcription"]


def mentions_meta(x):
    return L.mentions(x, lambda y: y == ("param", "metadata") or y == ("param", "meta"))


def calendar_rule(prog, run):
    """R4: the day-count -> (year, month, day) conversion is the proleptic Gregorian calendar.  The three result expressions are
    extracted symbolically; all depend only on doe = z % 146097 (one 400-year era) and, for the year, affinely on era = z / 146097;
    they are evaluated for every one of the 146097 days of an era and compared with the reference calendar (python datetime), in
    two different eras; affinity in `era` (syntactic) extends the result to every era."""
    import datetime
    from .. import absint as A
    from .. import mir, sym
    u = prog.lib
    cands = []
    for f, b in u.bodies.items():
        if b["in_test_cfg"] or b["argc"] != 1:
            continue
        rty = b["locals"][0]["ty"].strip()
        if rty.startswith("(") and len(rty.strip("()").split(",")) == 3 and all(t.strip() in A.INT_RANGE for t in rty.strip("()").split(",")) and b["locals"][1]["ty"] in A.INT_RANGE:
            cands.append(f)
    if len(cands) != 1:
        run.bad("R4", "anchor calendar", "expected one day-count -> (y, m, d) conversion, found %d" % len(cands))
        return
    time_of_day_rule(prog, run, cands[0])
    b = u.bodies[cands[0]]
    cx = A.Ctx(b, u)
    ret = sym.expr_local(b, 0)
    if not (ret[0] == "agg" and ret[1] == "tuple" and len(ret[3]) == 3):
        run.bad("R4", "calendar shape", "the conversion does not return a tuple expression")
        return
    comps = [A.resolve_ites(cx, c) for c in ret[3]]
    # leaves: x % 146097 and x / 146097 of one and the same x
    rems, divs = {}, {}
    for c in comps:
        for y in sym.walk(c):
            if isinstance(y, tuple) and len(y) == 4 and y[0] == "bin" and y[3][:1] == ("const",) and y[3][1] == 146097:
                if y[1] == "Rem":
                    rems[A.L_freeze(y)] = y
                elif y[1] == "Div":
                    divs[A.L_freeze(y)] = y
    if len(rems) != 1:
        run.bad("R4", "calendar shape", "expected the conversion to be a function of one `z %% 146097` term (found %d)" % len(rems))
        return
    rem = next(iter(rems.values()))
    divs = {k: v for k, v in divs.items() if v[2] == rem[2]}      # era = z / 146097 of the same z; other divisions are ordinary terms
    leaves = [A.L_freeze(rem)] + [A.L_freeze(d) for d in divs.values()]
    # z = days + K : the epoch shift
    zl = cx.lin(rem[2])
    shift = zl.c if (len(zl.t) == 1 and list(zl.t.values()) == [1]) else None
    run.check(shift == 719468, "R4", "calendar epoch", "z = days + 719468 (days from 0000-03-01 to 1970-01-01)", "the epoch shift is %s, expected 719468" % shift, mir.loc_of(b))
    try:
        fy, fm, fd = [A.compile_expr(c, leaves) for c in comps]
    except A.NoEval as e:
        run.bad("R4", "calendar evaluable", "cannot evaluate the extracted expressions: %s" % e)
        return
    # month/day independent of era, year affine in era (syntactic: era only under + and * const)
    def era_free(c):
        return not any(A.L_freeze(y) in leaves[1:] for y in sym.walk(c) if isinstance(y, tuple))

    def affine(c, k):
        fz = A.L_freeze(c)
        if fz == k:
            return True
        if not any(A.L_freeze(y) == k for y in sym.walk(c) if isinstance(y, tuple)):
            return True
        if c[0] == "proj" and c[1][0] == "bin" and c[1][1] in ("AddWithOverflow", "MulWithOverflow"):
            c = ("bin", c[1][1][:3], c[1][2], c[1][3])
        if c[0] == "bin" and c[1] == "Add":
            return affine(c[2], k) and affine(c[3], k)
        if c[0] == "bin" and c[1] == "Mul":
            return (c[2][0] == "const" and affine(c[3], k)) or (c[3][0] == "const" and affine(c[2], k))
        return False
    struct_ok = era_free(comps[1]) and era_free(comps[2]) and (len(leaves) == 1 or affine(comps[0], leaves[1]))
    run.check(struct_ok, "R4", "calendar era-structure", "month/day depend on the day of the era only; the year is affine in the era", "month/day depend on the era, or the year is not affine in it", mir.loc_of(b))
    bad = None
    n = 0
    for era in (tuple(range(1, 24)) if run.tier == "thorough" else (4, 5)):
        for doe in range(146097):
            args = (doe, era)[:len(leaves)]
            if era * 146097 + doe - 305 < 1:
                continue
            d = datetime.date.fromordinal(era * 146097 + doe - 305)
            got = (fy(*args), fm(*args), fd(*args))
            n += 1
            if got != (d.year, d.month, d.day):
                bad = (era, doe, got, (d.year, d.month, d.day))
                break
        if bad:
            break
    run.extra["calendar_days_evaluated"] = n
    run.check(bad is None, "R4", "calendar == proleptic Gregorian", "all %d days of two 400-year eras agree with the reference calendar" % n,
              "day %s of era %s converts to %s, the calendar says %s" % (bad[1], bad[0], bad[2], bad[3]) if bad else "", mir.loc_of(b))


def verbatim_setters(prog, run, R):
    """attribute setters store what they are given: title / language / creation time := the parameter itself (owned copy), on every
    route (Metadata::with_x and the MuxerBuilder aliases), and the value is not rewritten in place on the way"""
    from .. import mir, sym
    u = prog.lib
    # attribute setters store what they are given: title / language / creation time := the parameter itself (owned copy), on every route
    from .. import sym
    g = mir.Graph(u)
    st = mir.Stores(g)
    CONV = {"into", "to_string", "to_owned", "from", "clone", "to_vec", "as_ref", "as_str", "deref"}
    k = 0
    for p, b in sorted(u.bodies.items()):
        if b["in_test_cfg"] or not mir.norm(p).startswith("api::") or b.get("kind") == "Closure":
            continue
        stores_ = []
        for blk in b["blocks"]:
            if blk.get("cleanup"):
                continue
            for st_ in blk["stmts"]:
                if st_["k"] == "assign" and st_["place"]["p"] and st_["place"]["p"][-1].get("k") == "field" and st_["place"]["p"][-1].get("name") in ("title", "language", "creation_time") \
                        and "Metadata" in str(st_["place"]["p"][-1].get("adt")):
                    stores_.append((st_["place"]["p"][-1]["name"], st_))
        for (fname_, node) in stores_:
            path = (fname_,)
            e = sym.expr_rv(b, node["rv"])
            calls_ = [t_ for t_ in sym.walk(e) if isinstance(t_, tuple) and t_ and t_[0] == "call"]
            leaves = [t_ for t_ in sym.walk(e) if isinstance(t_, tuple) and t_ and t_[0] in ("arg",)]
            foreign = [c_[1] for c_ in calls_ if c_[1].split("::")[-1] not in CONV]
            if not leaves:
                continue        # constants / None (constructors, clearing) and `with_current_time` (no submitted value: the clock, by contract)
            # locals the stored value travels through must not be lent out mutably on the way (in-place rewriting: make_ascii_lowercase, truncate, ..)
            chain = set()
            def ops_of(rv):
                if rv["k"] == "use":
                    return [rv["op"]]
                if rv["k"] == "aggregate":
                    return list(rv["ops"])
                if rv["k"] == "cast":
                    return [rv["op"]]
                return []
            work = [o["place"]["l"] for o in ops_of(node["rv"]) if o.get("k") in ("move", "copy") and not o["place"]["p"]]
            while work:
                l_ = work.pop()
                if l_ in chain or 1 <= l_ <= b["argc"]:
                    continue
                chain.add(l_)
                for d_ in mir.defs(b).get(l_, []):
                    if d_[0] == "stmt":
                        work += [o["place"]["l"] for o in ops_of(d_[3]["rv"]) if o.get("k") in ("move", "copy") and not o["place"]["p"]]
            lent = []
            for blk2 in b["blocks"]:
                for st2 in blk2["stmts"]:
                    if st2["k"] == "assign" and st2["rv"]["k"] == "ref" and st2["rv"].get("mut") and st2["rv"]["place"]["l"] in chain and not st2["rv"]["place"]["p"]:
                        lent.append(mir.loc_of(st2))
            if lent:
                foreign.append("in-place mutation through `&mut` at %s" % lent[0])
            k += 1
            run.check(not foreign and len({l_[1] for l_ in leaves}) == 1, R, "verbatim %s.%s" % (mir.norm(p).split("::")[-1], path[-1]), "stored = the parameter (owned copy)",
                      "`%s` stores %s into `%s`: the attribute is rewritten on this route (%s), so two routes to the same attribute can disagree and the stored value is not the submitted one" %
                      (mir.norm(p), sym.show(e)[:100], path[-1], ", ".join(sorted(set(foreign)))[:100] or "not a single parameter"), mir.loc_of(node))
    run.floor(R, k, 4, "attribute stores in the API setters")


def setter_rule(prog, run):
    """R5: the builder's metadata setters are independent: only a setter that takes the whole `Metadata` value may replace the
    builder's metadata wholesale; a setter for one attribute (language, creation time) must update it in place, otherwise a
    previously configured title/date/language is silently lost"""
    from .. import mir
    from . import c20
    u = prog.lib
    eff = c20.setter_effects(u)
    n = 0
    for p, b in u.bodies.items():
        if b["in_test_cfg"] or not b.get("impl_self", "").startswith("api::MuxerBuilder"):
            continue
        m = mir.norm(p).split("::")[-1]
        if m not in eff or "metadata" not in eff[m]:
            continue
        n += 1
        whole = any("Metadata" in b["locals"][i]["ty"] and "Option" not in b["locals"][i]["ty"] for i in range(2, b["argc"] + 1))
        kind = eff[m]["metadata"]
        run.check(kind == "update" or whole, "R5", "setter %s" % m, "%s the metadata (%s)" % ("replaces" if kind == "replace" else "updates", "takes the whole Metadata value" if whole else "one attribute"),
                  "`%s` takes a single attribute but replaces the builder's whole metadata: a title, creation time or language configured earlier is lost" % m, mir.loc_of(b))
    run.floor("R5", n, 3, "builder methods that write the metadata")
    verbatim_setters(prog, run, "R5")


def time_of_day_rule(prog, run, cal_fn, R="R4"):
    """the caller of the calendar conversion: the day count handed to it is secs / 86400 and the three values printed after the date
    are hour, minute and second of secs % 86400 - the extracted expressions are evaluated for all 86400 seconds of a day (in three
    different days) and compared; the six printed values appear in the order Y, M, D, h, m, s"""
    from .. import mir, sym
    from .. import absint as A
    u = prog.lib
    callers = [f for f, b in u.bodies.items() if not b["in_test_cfg"] and any(nm == cal_fn for _bb, _t, nm, _i in mir.calls(b))]
    if len(callers) != 1:
        run.bad(R, "anchor timestamp formatter", "expected one caller of the calendar conversion, found %d" % len(callers))
        return
    b = u.bodies[callers[0]]
    disp = []
    dayarg = None
    for bb, t, nm, info in mir.calls(b):
        if nm == cal_fn:
            dayarg = sym.expr(b, t["args"][0])
        elif nm and mir.norm(nm).split("::")[-1] in ("new_display", "new_lower_hex", "new_debug") and "fmt" in nm:
            e = sym.expr(b, t["args"][0])
            while e[0] == "ref":
                e = e[1]
            disp.append(e)
    ok_day = dayarg is not None and dayarg[0] == "bin" and dayarg[1] == "Div" and dayarg[2][0] == "arg" and dayarg[3][:2] == ("const", 86400)
    run.check(ok_day, R, "day count = secs / 86400", "days_to_ymd(secs / 86400)", "the calendar conversion is given %s, not the Unix second divided by 86400" % (sym.show(dayarg)[:80] if dayarg else "?"), mir.loc_of(b))
    if len(disp) != 6:
        run.bad(R, "timestamp fields", "expected six formatted values (Y, M, D, h, m, s), found %d" % len(disp), mir.loc_of(b))
        return
    ymd_ok = all(d[0] == "proj" and str(d[2]) == str(i) and d[1][0] == "call" and d[1][3] == cal_fn for i, d in enumerate(disp[:3]))
    run.check(ymd_ok, R, "date fields order", "year, month, day = components 0, 1, 2 of the calendar conversion, in that order", "the first three printed values are not (year, month, day) of the calendar conversion in order: %s" % [sym.show(d)[:40] for d in disp[:3]], mir.loc_of(b))
    bad = None
    try:
        fns = []
        for e in disp[3:]:
            leaves = [y for y in sym.walk(e) if isinstance(y, tuple) and y and y[0] == "arg"]
            if not leaves or any(l_[1] != leaves[0][1] for l_ in leaves):
                raise ValueError("time field does not depend on the timestamp parameter alone")
            fns.append(A.compile_expr(e, [A.L_freeze(leaves[0])]))
        for day in (0, 1, 19999):
            for s_ in range(86400):
                got = tuple(f(day * 86400 + s_) for f in fns)
                if got != (s_ // 3600, (s_ % 3600) // 60, s_ % 60):
                    bad = (day * 86400 + s_, got, (s_ // 3600, (s_ % 3600) // 60, s_ % 60))
                    break
            if bad:
                break
    except Exception as ex:
        run.bad(R, "time of day", "cannot evaluate the hour/minute/second expressions (fail closed): %s" % ex, mir.loc_of(b))
        return
    run.check(bad is None, R, "time of day", "hour, minute, second of secs % 86400 for all 86400 seconds of a day",
              "" if bad is None else "Unix second %d is printed as %02d:%02d:%02d, it is %02d:%02d:%02d" % ((bad[0],) + tuple(bad[1]) + tuple(bad[2])), mir.loc_of(b))


def language_rule(prog, run, R="R6"):
    """ISO/IEC 14496-12 8.4.2.3: language is three 5-bit fields, each the character's difference from 0x60, packed
    (c1 << 10) | (c2 << 5) | c3 with a leading pad bit 0.  Every function `fn(&str) -> [u8; 2]` that an mdhd builder calls is a
    language encoder; its return expression (one symbolic expression over the string's characters) is evaluated for all 26^3
    lower-case codes - the property's whole domain - and compared with the formula."""
    u = prog.lib
    encs = [f for f, b in u.bodies.items() if not b["in_test_cfg"] and b["argc"] == 1 and b["locals"][1]["ty"] in ("&str", "&'_ str") and b["locals"][0]["ty"] == "[u8; 2]"]
    n = 0
    for f in sorted(encs):
        b = u.bodies[f]
        e = sym.expr_local(b, 0)

        next_bbs = sorted({y[4] for y in sym.walk(e) if isinstance(y, tuple) and y[:1] == ("call",) and len(y) > 4 and str(y[1]).endswith("::next")})

        def ev(x, cs):
            h = x[0]
            if h == "call" and str(x[1]).endswith("::next") and len(x) > 4 and x[4] in next_bbs:
                # successive `chars.next()` calls (straight-line code): the k-th call in program order yields the k-th character
                seq = ev(x[2][0], cs)
                k_ = next_bbs.index(x[4])
                return ("some", seq[k_]) if k_ < len(seq) else ("none",)
            if h == "const":
                v = x[1]
                return v if isinstance(v, int) else (ord(v.strip("'")) if isinstance(v, str) and len(v.strip("'")) == 1 else None)
            if h in ("ref",):
                return ev(x[1], cs)
            if h in ("refplace", "load") and x[1] == "arg1":
                return list(cs)
            if h == "cast":
                v = ev(x[4], cs)
                return v & 0xFFFF if x[3] == "u16" else (v & 0xFF if x[3] == "u8" else v)
            if h == "bin":
                a, c = ev(x[2], cs), ev(x[3], cs)
                return {"BitAnd": a & c, "BitOr": a | c, "Shl": (a << c) & 0xFFFF, "Shr": a >> c, "Add": a + c, "Sub": a - c, "BitXor": a ^ c, "Mul": a * c,
                        "AddWithOverflow": a + c, "SubWithOverflow": a - c, "MulWithOverflow": a * c}[x[1]]
            if h == "proj":
                return ev(x[1], cs)
            if h == "call":
                last = x[1].split("::")[-1]
                a = [ev(y, cs) for y in x[2]]
                if last in ("chars", "collect", "deref", "copied", "cloned", "into_iter", "iter", "as_slice", "bytes", "as_bytes", "to_be_bytes", "from", "into", "to_vec"):
                    return a[0]
                if last == "take":
                    return a[0][:a[1]]
                if last == "first":
                    return ("some", a[0][0]) if a[0] else ("none",)
                if last == "get":
                    return ("some", a[0][a[1]]) if a[1] < len(a[0]) else ("none",)
                if last == "nth":
                    return ("some", a[0][a[1]]) if a[1] < len(a[0]) else ("none",)
                if last == "unwrap_or":
                    return a[0][1] if a[0][0] == "some" else a[1]
                if last == "saturating_sub":
                    return max(a[0] - a[1], 0)
                if last == "wrapping_sub":
                    return (a[0] - a[1]) & 0xFFFF
            raise ValueError("cannot evaluate %s" % (x[:2],))
        bad = None
        try:
            for c1 in range(97, 123):
                for c2 in range(97, 123):
                    for c3 in range(97, 123):
                        got = ev(e, (c1, c2, c3))
                        want = ((c1 - 0x60) << 10) | ((c2 - 0x60) << 5) | (c3 - 0x60)
                        if got != want:
                            bad = ("%c%c%c" % (c1, c2, c3), got, want)
                            break
                    if bad:
                        break
                if bad:
                    break
        except (ValueError, KeyError, IndexError, TypeError) as ex:
            run.bad(R, "language packing %s" % mir.norm(f), "cannot evaluate the language encoder (fail closed): %s" % ex, mir.loc_of(b))
            continue
        n += 1
        run.check(bad is None, R, "language packing %s" % mir.norm(f), "== ((c1-0x60)<<10)|((c2-0x60)<<5)|(c3-0x60) for all 26^3 lower-case codes",
                  "for language `%s` the encoder yields 0x%04x, ISO/IEC 14496-12 8.4.2.3 says 0x%04x: the code cannot be recovered from the media header" % (bad if bad else ("", 0, 0)), mir.loc_of(b))
    run.floor(R, n, 2, "language encoders (progressive and fragmented)")


def check(prog, run):
    run.rule("R6", "language packing: every `fn(&str) -> [u8; 2]` encoder equals the ISO/IEC 14496-12 formula on all 26^3 lower-case codes (complete enumeration of the extracted expression)")
    language_rule(prog, run)
    run.rule("R5", "metadata setters are independent: single-attribute setters update in place; only with_metadata(Metadata) replaces")
    setter_rule(prog, run)
    run.rule("R4", "creation-date conversion: (year, month, day) expressions == proleptic Gregorian calendar on every day of a 400-year era (exhaustive evaluation of the extracted expressions), affine in the era")
    calendar_rule(prog, run)
    run.rule("R1", "udta layout: none when no item; else udta>meta(0)>hdlr(mdir)+ilst>items; name item = data(type=1, locale=0) ++ exact title bytes, at most one")
    run.rule("R2", "non-interference: `metadata` occurs nowhere in the moov production except under udta and in the mdhd language field")
    run.rule("R3", "language: every mdhd language field derives from metadata.language with the `und` default")
    u = prog.lib
    it = L.Interp(u)
    f = "muxer::mp4::build_udta_box"
    if f not in u.hir:
        run.bad("R1", "anchor", "user-data builder not found")
        return
    try:
        segs = L.norm_segs(it.production(f))
    except L.Unanalysable as e:
        run.bad("R1", "unanalysable", str(e))
        return
    mp = u.hir[f]["params"][0]["pat"].get("name", "metadata")
    M = ("param", mp)
    ok = len(segs) == 1 and segs[0][0] == "alt" and segs[0][2] == [] and segs[0][1][0] == "empty"
    run.check(ok, "R1", "omitted-when-empty", "udta emitted iff the item list is non-empty", "udta is not conditional on a non-empty item list: %s" % ", ".join(L.show(s) for s in segs)[:200])
    if not ok:
        return
    tested = list(segs[0][1][1][1])      # the bufval whose emptiness is tested
    body = segs[0][3]
    boxes = list(B.walk_boxes(body))
    paths = [B.path_str(p) for p, b, c in boxes]
    want = ["udta", "udta/meta", "udta/meta/hdlr", "udta/meta/ilst", "udta/meta/ilst/\\xa9nam", "udta/meta/ilst/\\xa9nam/data", "udta/meta/ilst/\\xa9day", "udta/meta/ilst/\\xa9day/data"]
    run.check(paths == want, "R1", "tree", "/".join(want[-1:]) and "udta>meta>hdlr,ilst>(c)nam>data,(c)day>data", "user-data tree is %s" % paths)
    ilst = [b for p, b, c in boxes if p[-1] == b"ilst"]
    if ilst:
        same = L.strip_ids(L.freeze(L.norm_segs(list(ilst[0][2])))) == L.strip_ids(L.freeze(L.norm_segs(tested)))
        run.check(same, "R1", "emptiness-of-the-items", "the emptiness test is on exactly the item list that is emitted", "udta presence is decided on something other than the emitted item list")
        items = ilst[0][2]
        shape_ok = len(items) == 2 and all(s[0] == "alt" and s[3] == [] for s in items)
        run.check(shape_ok, "R1", "items-optional", "each item present iff its metadata field is set", "item list is not two optional items: %s" % ", ".join(L.show(s) for s in items)[:200])
        if shape_ok:
            conds = [B.option_fact(s[1]) for s in items]
            good = conds[0] is not None and conds[0][0] == ("field", M, "title") and conds[0][1] and conds[1] is not None and conds[1][0] == ("field", M, "creation_time") and conds[1][1]
            run.check(good, "R1", "item-conditions", "name item iff title is set; date item iff creation_time is set", "item conditions are %s" % [L.show(s[1]) for s in items])
    for (p, b, c) in boxes:
        if p[-1] == b"meta":
            v, rest = B.byte_view(b[2])
            run.check(B.field_value(v, 0, 4) == ("const", b"\x00" * 4) and B.only_boxes(c19._after(b[2], 4) or [("x",)]), "R1", "meta-fullbox", "version/flags 0 then child boxes", "meta is not a FullBox(0) followed by boxes")
        if p[-1] == b"hdlr":
            v, rest = B.byte_view(b[2])
            run.check(B.field_value(v, 8, 4) == ("const", b"mdir"), "R1", "hdlr-mdir", "handler type mdir", "metadata handler type is not mdir")
        if p[-1] == b"data":
            v, rest = B.byte_view(b[2])
            ok = B.field_value(v, 0, 8) == ("const", b"\x00\x00\x00\x01\x00\x00\x00\x00") and len(v) == 8 and len(rest) == 1 and rest[0][0] == "blob"
            item = B.fc_str(p[-2])
            if ok and p[-2] == b"\xa9nam":
                ok = rest[0][1] == ("payload", ("field", M, "title"), "Some", 0)
            run.check(ok, "R1", "data %s" % item, "type=1 (UTF-8), locale=0, then the string's bytes verbatim", "%s data box is %s" % (item, ", ".join(L.show(s) for s in b[2])[:160]))
    # ---- R2 / R3 on the whole moov
    r = "muxer::mp4::build_moov_box"
    try:
        msegs = L.norm_segs(it.production(r))
    except L.Unanalysable as e:
        run.bad("R2", "moov unanalysable", str(e))
        return
    n = 0
    for (p, b, c) in B.walk_boxes(msegs):
        if b"udta" in p:
            continue
        fc = p[-1]
        # only this box's own (non-box) segments
        own = [s for s in b[2] if s[0] != "box"]
        if fc == b"mdhd":
            view, rest = B.byte_view(b[2])
            lang = B.field_value(view, 20, 2)
            others = [B.field_value(view, o, w) for (o, w) in ((0, 4), (4, 4), (8, 4), (12, 4), (16, 4), (22, 2))]
            clean = not any(v[0] == "expr" and mentions_meta(v[1]) for v in others)
            run.check(clean, "R2", "mdhd-other-fields #%d" % n, "only the language field sees metadata", "metadata flows into an mdhd field other than language")
            fn_ = L.field_names(lang[1]) if lang[0] == "expr" else set()
            ok = lang[0] == "expr" and L.mentions(lang[1], lambda y: y == ("str", "und")) and mentions_meta(lang[1]) and "language" in fn_ and not (fn_ & {"title", "creation_time"})
            d = L.show(lang[1])[:100] if lang[0] == "expr" else str(lang)
            run.check(ok, "R3", "mdhd-language #%d" % n, "language = f(metadata.language or 'und')", "mdhd language field is %s" % d)
            # the string handed to the packing is the configured code itself (or `und`): nothing rewrites it on the way
            if lang[0] == "expr":
                srcs = []
                def walk_(y):
                    if isinstance(y, tuple):
                        if y[:2] == ("mcall", "core::str::chars") or (y[:1] == ("mcall",) and str(y[1]).split("::")[-1] in ("chars", "bytes", "as_bytes") and "str" in str(y[1])):
                            srcs.append(y[2])
                        for z in y:
                            walk_(z)
                    elif isinstance(y, list):
                        for z in y:
                            walk_(z)
                walk_(lang[1])
                PLUMB = {"unwrap_or", "and_then", "as_deref", "as_ref", "map", "as_str", "deref", "unwrap_or_default", "clone", "as_deref_mut", "borrow"}
                def rewritten(x):
                    bad_ = []
                    def w2(y):
                        if isinstance(y, tuple):
                            if y[:1] == ("call",):
                                bad_.append(str(y[1]))
                            if y[:1] == ("mcall",) and str(y[1]).split("::")[-1] not in PLUMB:
                                bad_.append(str(y[1]))
                            for z in y:
                                w2(z)
                        elif isinstance(y, list):
                            for z in y:
                                w2(z)
                    w2(x)
                    return bad_
                bad_all = [b_ for x in srcs for b_ in rewritten(x)]
                run.check(bool(srcs) and not bad_all, "R3", "mdhd-language #%d verbatim" % n, "the packed string is metadata.language (or `und`) itself",
                          "the language code is passed through %s before it is packed: the configured code is not the one a reader recovers" % sorted(set(bad_all))[:3] if bad_all else "no string source found in the language field")
            n += 1
            continue
        dirty = [s for s in own if s[0] not in ("alt", "match", "rep") and mentions_meta(s)]
        # alt/match/rep: conditions and bases (children are visited on their own)
        for s in own:
            if s[0] == "alt" and mentions_meta(s[1]) and not _only_udta(s):
                dirty.append(("cond", s[1]))
            if s[0] == "rep" and mentions_meta(s[1]):
                dirty.append(("base", s[1]))
            if s[0] == "match" and mentions_meta(s[1]):
                dirty.append(("scrut", s[1]))
        run.check(not dirty, "R2", "clean %s" % B.path_str(p), "no dependence on metadata", "metadata influences %s: %s" % (B.path_str(p), [L.show(d)[:80] for d in dirty][:3]))
    run.floor("R3", n, 2, "mdhd boxes")


def _only_udta(s):
    """an alternative whose branches contain nothing but the udta box (or nothing)"""
    def only(sg):
        return all((x[0] == "box" and L.fourcc(x) == b"udta") or (x[0] == "alt" and only(x[2]) and only(x[3])) for x in sg)
    return only(s[2]) and only(s[3])
