"""C19 — header boxes and configuration records follow their specifications' layouts.

R1 layout equality: for every fixed-layout box / record in every production root (progressive moov + ftyp, fragmented
init moov + ftyp, media segment), the byte layout derived by the layout interpreter from the typed HIR equals the spec
transcription in lib/mx/spec.py: total size, version/flags, reserved bytes, constants, and the *source role* of value fields.
R2 track ids: distinct, non-zero, and next_track_ID above every track id present in the same configuration;
fragmented tkhd/trex/tfhd ids agree.  R3 counted tables / variable records (stts, ctts, stsc, stsz, stco, stss, trun,
avcC sets, hvcC arrays, esds descriptor lengths)."""
from .. import boxcheck as B
from .. import layout as L
from .. import mir
from .. import spec as S

EXPLANATION = (
    "layout interpretation of the typed HIR of all 80+ byte-producing functions (build_* in muxer::mp4 and fragmented): every box is derived as a sequence of "
    "(offset, width, constant | big-endian value-of(expression)) covering all configurations at once (if/match kept as alternatives, loops as repetitions). Each derived box is compared "
    "field by field with a transcription of its defining specification (ISO/IEC 14496-12/-14/-15, AV1/VP9/Opus bindings): size, version/flags, reserved bits, constants, field positions and the "
    "source of value fields; track-ID constants are checked for distinctness and against next_track_ID per configuration. The derivation is symbolic, so it holds for all dimensions, rates, "
    "channel counts and parameter-set byte strings.")
TRUSTED = ["spec transcriptions in lib/mx/spec.py", "layout interpreter (lib/mx/layout.py)"]

FLOOR_BOXES = 60


def roots(unit, it):
    """top-level producers: byte-producing local functions called from at least one non-producer function"""
    g = mir.Graph(unit)
    prods = {p for p in unit.hir if it.is_producer(p) and not unit.bodies.get(p, {}).get("in_test_cfg")}
    out = []
    for p in sorted(prods):
        if p in it.box_builders:
            continue
        callers = g.callers(p)
        ext = [c for c in callers if c not in prods and not unit.bodies[c]["in_test_cfg"]]
        # closures of producers count as producers
        ext = [c for c in ext if unit.bodies[c].get("parent") not in prods]
        if ext or unit.bodies.get(p, {}).get("reachable_pub"):
            out.append(p)
    return out


class BoxCtx:
    def __init__(self, root, path, box, cond, parent_children, frag):
        self.root, self.path, self.box, self.cond, self.siblings, self.frag = root, path, box, cond, parent_children, frag


def role_ok(name, val, cx):
    """val = ('const', bytes) | ('expr', seg).  returns (ok, description)"""
    kind = val[0]
    e = None
    if kind == "expr":
        e = val[1][1]
    cint = int.from_bytes(val[1], "big") if kind == "const" else None
    sib = {fc for fc, _, _ in cx.siblings}
    if name == "timescale":
        if cx.frag:
            return (e is not None and "timescale" in L.field_names(e)), "movie timescale = configured timescale"
        return cint == 1000, "movie timescale 1000"
    if name == "media_timescale":
        if cx.frag:
            return (e is not None and ("timescale" in L.field_names(e) or e[0] == "param")), "media timescale = configured timescale"
        return cint == 90000, "media timescale 90000"
    if name == "next_track_id":
        vals = possible_consts(e) if e is not None else ([cint] if cint is not None else None)
        return (vals is not None and all(v != 0 for v in vals)), "non-zero constant id(s) %s" % vals
    if name == "track_id":
        return (cint is not None and cint != 0), "non-zero constant id %s" % cint
    if name == "volume":
        audio = _is_audio_trak(cx)
        return (cint == (0x0100 if audio else 0)), "volume %s for %s track" % ("1.0" if audio else "0", "audio" if audio else "video")
    if name in ("width16", "height16"):
        f = "width" if name == "width16" else "height"
        if _is_audio_trak(cx):
            return cint == 0, "0 for audio"
        return (e is not None and S.shl16_of(f)(e)), "%s << 16" % f
    if name in ("width_u16", "height_u16"):
        f = "width" if name == "width_u16" else "height"
        return (e is not None and S.u16_of(f)(e)), "%s as u16" % f
    if name == "language":
        return True, "packed language (value-level packing not decided)"
    if name == "handler_type":
        want = {b"vmhd": b"vide", b"smhd": b"soun"}
        if kind != "const":
            return False, "handler type must be a constant"
        # context: sibling minf contains vmhd/smhd — decided by the caller; here: one of the known types
        return val[1] in (b"vide", b"soun", b"mdir"), "handler_type %r" % val[1]
    if name == "hdlr_reserved":
        return kind == "const" and (val[1] == b"\x00" * 12 or (val[1][4:] == b"\x00" * 8 and cx.path[-2:-1] == (b"meta",))), "reserved zero (mdir: manufacturer allowed)"
    if name == "channels":
        return (e is not None and "channels" in L.field_names(e)), "configured channel count"
    if name == "samplerate16":
        if cx.path[-1:] == (b"Opus",):
            # Opus-in-ISOBMFF 4.3: the sample entry's rate is 48000 whatever the input rate
            return cint == (48000 << 16), "48000 << 16 for the Opus sample entry"
        if e is not None:
            return S.shl16_of("sample_rate")(e), "sample_rate << 16"
        return cint == (48000 << 16), "48000 << 16"
    if name in ("sequence_number", "base_media_decode_time"):
        return (e is not None and e[0] == "param"), "passed in unmodified"
    if name == "num_arrays":
        return True, "array count"
    if name.startswith("vp9."):
        return (e is not None and name.split(".")[1] in L.field_names(e)), "vp9 config field"
    if name == "dops_version0":
        return cint == 0, "dOps Version 0"
    if name == "dops_channels":
        x = e
        while x is not None and x[0] == "cast":
            x = x[2]
        return (x is not None and x[0] == "field" and x[2] == "channels"), "OutputChannelCount = the configured channel count"
    if name == "brand":
        return (kind == "const" and all(0x20 <= c < 0x7F for c in val[1])), "a printable four-character code"
    return False, "unknown role " + name


def possible_consts(e):
    """the set of constants an expression built from literals and if-expressions can take; None if not constant-valued"""
    if e[0] == "lit":
        return [e[1]]
    if e[0] == "cast":
        return possible_consts(e[2])
    if e[0] == "if":
        a, b = possible_consts(e[2]), possible_consts(e[3])
        if a is None or b is None:
            return None
        return a + b
    return None


def const_under(e, facts):
    """value of a literal/if expression under the Option facts of a configuration (None if undetermined)"""
    if e[0] == "lit":
        return e[1]
    if e[0] == "cast":
        return const_under(e[2], facts)
    if e[0] == "if":
        f = B.option_fact(e[1])
        if f is not None and L.freeze(f[0]) in facts:
            return const_under(e[2] if facts[L.freeze(f[0])] == f[1] else e[3], facts)
        a, b = const_under(e[2], facts), const_under(e[3], facts)
        if a is None or b is None:
            return None
        return min(a, b)
    return None


def _is_audio_trak(cx):
    # the enclosing trak has an smhd somewhere below
    return cx.root_audio


class _Collect:
    """collects the field-level results of one box and reports them as ONE instance whose key names the
    failing fields (a different set of failing fields is a different instance)"""

    def __init__(self, run, rule, key):
        self.run, self.rule, self.key = run, rule, key
        self.fails, self.oks = [], 0

    def ok(self, rule, k2, detail, how="structural"):
        self.oks += 1

    def bad(self, rule, k2, detail):
        self.fails.append((k2[len(self.key):].strip(), detail))

    def check(self, cond, rule, k2, d_ok, d_bad, how="structural"):
        if cond:
            self.ok(rule, k2, d_ok, how)
        else:
            self.bad(rule, k2, d_bad)

    def done(self):
        if not self.fails:
            self.run.ok(self.rule, self.key, "%d field(s)/clauses agree with the specification" % self.oks)
        else:
            names = ",".join(f[0] for f in self.fails)
            self.run.bad(self.rule, "%s fails=[%s]" % (self.key, names), "; ".join("%s: %s" % f for f in self.fails)[:1500])


def check_fixed(run0, rule, sp, cx, key):
    run = _Collect(run0, rule, key)
    try:
        return _check_fixed(run, rule, sp, cx, key)
    finally:
        run.done()


def _check_fixed(run, rule, sp, cx, key):
    segs = cx.box[2]
    view, rest = B.byte_view(segs)
    off = 0
    okall = True
    for (w, kind, arg, name) in sp["fields"]:
        v = B.field_value(view, off, w)
        k2 = "%s @%d:%s" % (key, off, name.split("=")[0].split(" ")[0])
        if v[0] in ("short", "misaligned"):
            run.bad(rule, k2, "at offset %d (%d bytes, %s): %s" % (off, w, name, "box too short / variable part starts early" if v[0] == "short" else v[1]))
            okall = False
            off += w
            continue
        good, why = True, ""
        if kind == "const":
            good = v[0] == "const" and v[1] == arg
            why = "expected %s, found %s" % (arg.hex(), v[1].hex() if v[0] == "const" else L.show(v[1]))
        elif kind == "zero":
            good = v[0] == "const" and v[1] == b"\x00" * w
            why = "reserved/zero field holds %s" % (v[1].hex() if v[0] == "const" else L.show(v[1]))
        elif kind == "mask":
            if v[0] == "const":
                good = all((b & m) == x for b, m, x in zip(v[1], arg[0], arg[1]))
                why = "bytes %s violate mask %s == %s" % (v[1].hex(), arg[0].hex(), arg[1].hex())
            else:
                good = True    # computed value: bit pattern is value-level
        elif kind == "pred":
            # a constant byte pattern with a conditional reserved part (transcribed predicate over the constant bytes)
            if v[0] == "const":
                good = bool(arg[0](v[1]))
                why = "bytes %s violate: %s" % (v[1].hex(), arg[1])
            else:
                good = True    # computed value: bit pattern is value-level
        elif kind == "val":
            good, why = role_ok(arg, v, cx)
            why = "%s: found %s" % (why, v[1].hex() if v[0] == "const" else L.show(v[1]))
        if good:
            run.ok(rule, k2, "offset %d width %d %s" % (off, w, name), how="const" if kind in ("const", "zero") else "structural")
        else:
            run.bad(rule, k2, "offset %d width %d (%s): %s" % (off, w, name, why))
            okall = False
        off += w
    # size / tail
    total = L.width(segs)
    if sp.get("size") is not None:
        good = total.is_const() and total.const == sp["size"]
        run.check(good, rule, key + " size", "payload %d bytes" % sp["size"], "payload is %s bytes, the specification prescribes %d" % (total, sp["size"]))
    tail = sp.get("tail")
    tail_segs = _after(segs, off)
    if tail is None:
        if sp.get("size") is None:
            run.check(not tail_segs, rule, key + " tail", "nothing after the fixed part", "unexpected data after the fixed part: %s" % ", ".join(L.show(s) for s in tail_segs)[:200])
    elif tail == "cstring":
        bs = b"".join(sg[1] for sg in (tail_segs or []) if sg[0] == "c")
        const_only = tail_segs is not None and all(sg[0] == "c" for sg in tail_segs)
        run.check(const_only and len(bs) >= 1 and bs[-1] == 0 and 0 not in bs[:-1], rule, key + " tail", "a NUL-terminated string after the %d-byte prefix" % off,
                  "the bytes after the fixed part are not one NUL-terminated string: %s" % (bs.hex() if const_only else ", ".join(L.show(s) for s in (tail_segs or []))[:120]))
    elif tail == "brands":
        bs = b"".join(sg[1] for sg in (tail_segs or []) if sg[0] == "c")
        const_only = tail_segs is not None and all(sg[0] == "c" for sg in tail_segs)
        major = B.field_value(view, 0, 4)
        brands = [bs[i:i + 4] for i in range(0, len(bs), 4)]
        good = const_only and len(bs) >= 4 and len(bs) % 4 == 0 and all(all(0x20 <= c < 0x7F for c in b_) for b_ in brands) and major[0] == "const" and major[1] in brands
        run.check(good, rule, key + " tail", "compatible_brands: four-character codes including the major brand",
                  "compatible_brands %s must be a non-empty list of printable four-character codes that contains the major brand %s (ISO/IEC 14496-12 4.3)" % ([b_.decode("latin1") for b_ in brands], major[1] if major[0] == "const" else "?"))
    elif tail == "boxes":
        run.check(tail_segs is not None and B.only_boxes(tail_segs), rule, key + " tail", "child boxes only after the %d-byte prefix" % off,
                  "stray bytes between the fixed prefix and the child boxes: %s" % (", ".join(L.show(s) for s in (tail_segs or []))[:200]))
    return okall, off, tail_segs


def _after(segs, off):
    """segments after the first `off` bytes (None if off does not fall on a segment boundary)"""
    o = 0
    for i, s in enumerate(segs):
        if o == off:
            return segs[i:]
        w = L.seg_width(s)
        if not w.is_const():
            return None
        if s[0] == "c" and o < off < o + w.const:
            return [("c", s[1][off - o:])] + segs[i + 1:]
        o += w.const
    return [] if o == off else None


def check(prog, run):
    run.rule("R1", "every fixed-layout box/record: derived byte layout == specification transcription (size, version/flags, reserved, constants, field positions, value sources)")
    run.rule("R2", "track IDs: non-zero, pairwise distinct, next_track_ID above all track IDs of the same configuration; fragmented tkhd/trex/tfhd IDs agree")
    run.rule("R3", "variable records: counted tables (count == number of entries emitted, fixed entry width), parameter-set arrays (length prefix of the very bytes that follow), descriptor lengths")
    from . import c07
    c07.hvcc_profile_bytes(prog, run, "R1")
    c07.aac_frequency_index_rule(prog, run, "R1")
    c07.av1c_flags_rule(prog, run, "R1")
    u = prog.lib
    it = L.Interp(u)
    for p in it.box_builders:
        ok, d = it.box_shape_ok(p)
        run.check(ok, "R1", "box-constructor %s" % p, d, "box constructor does not produce be32(8+len(payload)) ++ type ++ payload: " + d)
    if not it.box_builders:
        run.bad("R1", "anchor box-constructor", "no box constructor recognised (fail closed)")
        return
    rts = roots(u, it)
    run.extra["roots"] = rts
    nb = 0
    seen_fc = set()
    for r in rts:
        try:
            segs = L.norm_segs(it.production(r))
        except L.Unanalysable as e:
            run.bad("R1", "unanalysable %s" % r, "layout interpreter cannot derive this producer (fail closed): %s" % e)
            continue
        frag = r.startswith("fragmented::")
        allb = list(B.walk_boxes(segs))
        dup, ordn = {}, {}
        for (path, box, cond) in allb:
            dup[B.path_str(path)] = dup.get(B.path_str(path), 0) + 1
        # per-trak audio flag: a trak is audio iff it contains smhd
        for (path, box, cond) in allb:
            nb += 1
            fc = path[-1]
            seen_fc.add(fc)
            trak_audio = False
            # find enclosing trak and look for smhd below it
            for (p2, b2, c2) in allb:
                if p2[-1] == b"trak" and p2 == path[:len(p2)] and _contains(b2, box):
                    trak_audio = any(p3[-1] == b"smhd" for (p3, b3, c3) in B.walk_boxes(b2[2]))
            sp = S.FIXED.get(fc)
            base = B.path_str(path)
            ordn[base] = ordn.get(base, 0) + 1
            key = "%s %s%s" % (r.split("::")[-1], base, "#%d" % ordn[base] if dup.get(base, 0) > 1 else "")
            if sp is not None:
                alts = [box[2]]
                if box[2] and box[2][0][0] in ("alt", "match") and sp.get("tail") in (None, "any"):
                    try:
                        alts = B.alternatives(box[2], B.facts_of(cond))
                    except L.Unanalysable:
                        alts = [box[2]]
                for ai, a in enumerate(alts):
                    cx = BoxCtx(r, path, ("box", box[1], a), cond, [], frag)
                    cx.root_audio = trak_audio
                    check_fixed(run, "R1", sp, cx, key + (" alt%d" % ai if len(alts) > 1 else ""))
            if fc in S.CONTAINERS:
                run.check(B.only_boxes(box[2]), "R1", key + " container", "children tile the container",
                          "container payload holds stray bytes besides child boxes")
            var_records(run, fc, box, key, it)
        track_ids(run, r, segs, frag)
    # the builder route to the fragmented muxer fixes the media timescale: 90 000 as in progressive files
    n_fc = 0
    for p_, b_ in u.bodies.items():
        if b_["in_test_cfg"] or not mir.norm(p_).startswith("api::"):
            continue
        for blk in b_["blocks"]:
            for st in blk["stmts"]:
                if st["k"] == "assign" and st["rv"]["k"] == "aggregate" and st["rv"].get("agg") == "adt" and str(st["rv"].get("adt", "")).endswith("fragmented::FragmentConfig"):
                    n_fc += 1
                    ops_ = dict(zip(st["rv"].get("fields", []), st["rv"]["ops"]))
                    ts = ops_.get("timescale")
                    run.check(ts is not None and ts.get("k") == "const" and ts.get("v") == 90000, "R1", "builder fragment timescale %s" % mir.norm(p_).split("::")[-1], "media timescale 90000",
                              "%s configures the fragmented muxer with timescale %s; the library's media timescale is 90 000" % (mir.norm(p_), ts.get("v") if ts else "?"), mir.loc_of(st))
    run.check(n_fc >= 1, "R1", "builder fragment configuration", "%d FragmentConfig construction(s) in the API" % n_fc, "the builder no longer constructs a FragmentConfig (anchor)", how="count")
    run.extra["fourccs"] = sorted(B.fc_str(f) for f in seen_fc)
    run.floor("R1", nb, FLOOR_BOXES, "boxes derived")
    for need in (b"mvhd", b"tkhd", b"mdhd", b"hdlr", b"vmhd", b"smhd", b"dref", b"url ", b"stsd", b"avc1", b"hvc1", b"av01", b"vp09", b"mp4a", b"Opus",
                 b"avcC", b"hvcC", b"av1C", b"vpcC", b"dOps", b"esds", b"trex", b"mfhd", b"tfhd", b"tfdt", b"trun", b"stts", b"stsc", b"stsz", b"stco", b"stss", b"ctts"):
        run.check(need in seen_fc, "R1", "present %s" % B.fc_str(need), "derived", "box type %s no longer found in any production (anchor)" % B.fc_str(need), how="count")


def _contains(outer, inner):
    if outer is inner:
        return True
    for (p, b, c) in B.walk_boxes(outer[2]):
        if b is inner:
            return True
    return False


def _cond_tag_unused(cond):
    if not cond:
        return ""
    parts = []
    for c in cond:
        if c[0] == "arm":
            parts.append(c[2].split("::")[-1])
        elif c[0] in ("if", "ifnot"):
            parts.append(("" if c[0] == "if" else "!") + c[1][:40])
    return " [" + ",".join(parts) + "]"


# ------------------------------------------------------------------------------------------
def count_matches(count_seg, rep_seg):
    """count field (be32 of expr) == len(collection iterated by rep_seg)"""
    if count_seg[0] != "be":
        return False
    e = count_seg[1]
    while e[0] == "cast":
        e = e[2]
    return e == ("len", rep_seg[1])


def var_records(run, fc, box, key, it):
    segs = box[2]
    if fc in (b"stts", b"ctts", b"stsz", b"stco", b"stss"):
        pre = {b"stts": 4, b"ctts": 4, b"stsz": 8, b"stco": 4, b"stss": 4}[fc]
        entry = {b"stts": 8, b"ctts": 8, b"stsz": 4, b"stco": 4, b"stss": 4}[fc]
        view, rest = B.byte_view(segs)
        vf = B.field_value(view, 0, 4)
        if fc == b"ctts":
            good = vf[0] == "const" and vf[1] in (b"\x00\x00\x00\x00", b"\x01\x00\x00\x00")
        else:
            good = vf[0] == "const" and vf[1] == b"\x00" * 4
        run.check(good, "R3", key + " version/flags", "version/flags ok", "version/flags field is %s" % (vf[1].hex() if vf[0] == "const" else "not constant"))
        if fc == b"stsz":
            v = B.field_value(view, 4, 4)
            run.check(v[0] == "const" and v[1] == b"\x00" * 4, "R3", key + " sample_size=0", "variable sizes", "sample_size field is not the constant 0")
        cnt = B.field_value(view, pre, 4)
        if not rest:
            # all-constant table: count must equal the number of constant entries that follow
            n = len(view) - pre - 4
            good = cnt[0] == "const" and n >= 0 and n % entry == 0 and int.from_bytes(cnt[1], "big") == n // entry
            run.check(good, "R3", key + " const-table", "entry count %s matches %d constant entr(y/ies)" % (cnt[1].hex() if cnt[0] == "const" else "?", max(n, 0) // entry),
                      "constant table: count field does not match the entries that follow")
            return
        ce = cnt[1][1] if cnt[0] == "expr" else None
        while ce is not None and ce[0] == "cast":
            ce = ce[2]
        if ce is not None and ce[0] == "len" and isinstance(ce[1], tuple) and ce[1][:1] == ("listval",):
            # the table is produced by iterating a known list value: compare the list's shape with the shape of the entries
            try:
                want = L.strip_ids(L.freeze(_thaw_shape(ce[1][1])))
                got = L.strip_ids(L.freeze(entries_shape(rest, entry)))
                good = want == got
            except L.Unanalysable as ex:
                good, want, got = False, str(ex), ""
            run.check(good, "R3", key + " count==entries", "count = length of the list whose elements are emitted one %d-byte entry each" % entry,
                      "entry count is the length of a list whose structure differs from the entries emitted")
            return
        rep = rest[0]
        good = len(rest) == 1 and rep[0] == "rep" and cnt[0] == "expr" and count_matches(cnt[1], rep)
        run.check(good, "R3", key + " count==entries", "count = len(%s), one entry per element" % L.show(rep[1]) if rep[0] == "rep" else "?",
                  "entry count %s does not equal the number of entries emitted (%s)" % (L.show(cnt[1]) if cnt[0] == "expr" else cnt, L.show(rep)[:120]))
        if rep[0] == "rep":
            w = L.width(rep[3])
            run.check(w.is_const() and w.const == entry, "R3", key + " entry-width", "%d bytes per entry" % entry, "entry width is %s, specification: %d" % (w, entry))
    elif fc == b"stsc":
        # alternatives: {count 0, no entries} or {count N, N entries of 12 bytes}
        for alt in _alternatives(segs):
            view, rest = B.byte_view(alt)
            cnt = B.field_value(view, 4, 4)
            n = (len(view) - 8)
            good = not rest and cnt[0] == "const" and n % 12 == 0 and int.from_bytes(cnt[1], "big") == n // 12
            run.check(good, "R3", key + " entries(%d)" % (n // 12 if n >= 0 else -1), "entry_count matches %d entries of 12 bytes" % (n // 12),
                      "stsc entry_count does not match the entries emitted")
            if good and n == 12:
                fch = B.field_value(view, 8, 4)
                sdi = B.field_value(view, 16, 4)
                run.check(fch == ("const", b"\x00\x00\x00\x01") and sdi == ("const", b"\x00\x00\x00\x01"), "R3", key + " first_chunk/sdi", "first_chunk=1, sample_description_index=1",
                          "stsc entry must start at chunk 1 with sample description index 1")
    elif fc == b"trun":
        view, rest = B.byte_view(segs)
        vf = B.field_value(view, 0, 4)
        if vf[0] != "const":
            run.bad("R3", key + " flags", "trun version/flags not constant")
            return
        flags = int.from_bytes(vf[1][1:], "big")
        ver = vf[1][0]
        hdr = 8 + (4 if flags & 1 else 0) + (4 if flags & 4 else 0)
        run.check(len(view) == hdr, "R3", key + " header", "header %d bytes for flags 0x%06x" % (hdr, flags), "trun header is %d bytes but flags 0x%06x require %d" % (len(view), flags, hdr))
        per = 4 * bin(flags & 0xF00).count("1")
        cnt = B.field_value(view, 4, 4)
        rep = rest[0] if rest else None
        good = rep is not None and len(rest) == 1 and rep[0] == "rep" and cnt[0] == "expr" and count_matches(cnt[1], rep)
        run.check(good, "R3", key + " count==entries", "sample_count = len(samples), one record per sample", "trun sample_count does not equal the number of per-sample records")
        if rep is not None and rep[0] == "rep":
            w = L.width(rep[3])
            run.check(w.is_const() and w.const == per, "R3", key + " record-width", "%d bytes per sample for flags 0x%06x" % (per, flags), "per-sample record is %s bytes, flags require %d" % (w, per))
        run.check(ver in (0, 1), "R3", key + " version", "version %d" % ver, "trun version %d" % ver)
    elif fc == b"tfhd":
        view, rest = B.byte_view(segs)
        vf = B.field_value(view, 0, 4)
        if vf[0] == "const":
            flags = int.from_bytes(vf[1][1:], "big")
            want = 8 + (8 if flags & 1 else 0) + sum(4 for b in (2, 8, 0x10, 0x20) if flags & b)
            run.check(len(view) == want and not rest, "R3", key + " size-vs-flags", "%d bytes for flags 0x%06x" % (want, flags), "tfhd has %d bytes but flags 0x%06x require %d" % (len(view), flags, want))
            tid = B.field_value(view, 4, 4)
            run.check(tid[0] == "const" and int.from_bytes(tid[1], "big") != 0, "R3", key + " track_ID", "non-zero track id", "tfhd track_ID must be a non-zero constant")
        else:
            run.bad("R3", key + " flags", "tfhd version/flags not constant")
    elif fc == b"avcC":
        view, rest = B.byte_view(segs)
        # after 6 fixed bytes: be16(len(sps)) blob(sps) 0x01 be16(len(pps)) blob(pps)
        tail = _after(segs, 6) or []
        ok = len(tail) == 5 and _len_prefixed(tail[0], tail[1]) and tail[2] == ("c", b"\x01") and _len_prefixed(tail[3], tail[4])
        names = [L.field_names(tail[1][1]) if len(tail) > 1 and tail[1][0] == "blob" else set(), L.field_names(tail[4][1]) if len(tail) > 4 and tail[4][0] == "blob" else set()]
        ok = ok and "sps" in names[0] and "pps" in names[1]
        # ISO/IEC 14496-15 5.3.3.1.2: AVCProfileIndication / profile_compatibility / AVCLevelIndication are bytes 1, 2, 3 of the SPS NAL unit
        spsv = tail[1][1] if len(tail) > 1 and tail[1][0] == "blob" else None
        for k_, nm_ in ((1, "AVCProfileIndication"), (2, "profile_compatibility"), (3, "AVCLevelIndication")):
            fv = B.field_value(view, k_, 1)
            src = _indexed_byte(fv[1][1]) if fv[0] == "expr" and fv[1][0] == "u8" else None
            run.check(src is not None and src[1] == k_ and spsv is not None and L.strip_ids(L.freeze(src[0])) == L.strip_ids(L.freeze(spsv)), "R3", key + " " + nm_, "= sps[%d]" % k_,
                      "avcC byte %d (%s) is %s, the specification prescribes byte %d of the SPS that the record carries" % (k_, nm_, L.show(fv[1])[:100] if fv[0] == "expr" else fv, k_))
        run.check(ok, "R3", key + " parameter-sets", "len16(sps) sps 01 len16(pps) pps, each length taken from the bytes that follow",
                  "avcC parameter-set area is not `len(sps) sps 1 len(pps) pps` with matching length prefixes: %s" % ", ".join(L.show(s) for s in tail)[:300])
    elif fc == b"hvcC":
        tail = _after(segs, 23) or []
        arrays = _hvcc_arrays(tail)
        good = arrays is not None and [a[0] for a in arrays] == [32, 33, 34][-len(arrays):] and all(a[1] for a in arrays)
        view, rest = B.byte_view(segs)
        na = B.field_value(view, 22, 1)
        opt = [sg for sg in tail if sg[0] == "alt" and not sg[3]]        # an optional array (VPS in the init segment)
        n_with = len(arrays) if arrays is not None else None
        n_without = len(_hvcc_arrays([sg for sg in tail if sg not in opt]) or []) if opt else n_with
        if arrays is not None and na[0] == "const":
            run.check(na[1][0] == n_with and n_without == n_with, "R3", key + " numOfArrays", "%d arrays announced and emitted" % n_with,
                      "hvcC numOfArrays is the constant %d but %s parameter-set arrays follow" % (na[1][0], n_with if n_with == n_without else "%d or %d" % (n_without, n_with)))
        elif arrays is not None and na[0] == "expr":
            e_ = na[1][1] if na[1][0] == "u8" else None
            while e_ is not None and e_[0] == "cast":
                e_ = e_[2]
            def some_of(c_):
                # the Option a presence test is about: `x.is_some()` and `if let Some(_) = x` are one condition
                if c_[0] == "mcall" and str(c_[1]).split("::")[-1] == "is_some":
                    return L.strip_ids(L.freeze(c_[2]))
                if c_[0] == "is" and str(c_[2]).endswith("Some"):
                    return L.strip_ids(L.freeze(c_[1]))
                return ("cond", L.strip_ids(L.freeze(c_)))
            ok_ = e_ is not None and e_[0] == "if" and len(opt) == 1 and some_of(e_[1]) == some_of(opt[0][1]) and e_[2] == ("lit", n_with) and e_[3] == ("lit", n_without)
            run.check(ok_, "R3", key + " numOfArrays", "announced count follows the optional array: %s with it, %s without" % (n_with, n_without),
                      "hvcC numOfArrays is %s, but %s arrays follow when the optional array is present and %s when it is not" % (L.show(na[1])[:80], n_with, n_without))
        run.check(good, "R3", key + " arrays", "arrays %s, each: completeness|type, numNalus=1, len16(x) x" % [a[0] for a in arrays or []],
                  "hvcC NAL arrays are not [VPS(32), SPS(33), PPS(34)] with matching length prefixes: %s" % ", ".join(L.show(s) for s in tail)[:300])
    elif fc == b"esds":
        esds_check(run, segs, key)
    elif fc == b"dOps":
        # Opus-in-ISOBMFF 4.3.2: StreamCount, CoupledCount and ChannelMapping[OutputChannelCount] follow iff ChannelMappingFamily != 0
        view, rest = B.byte_view(segs)
        fam = B.field_value(view, 10, 1)
        cnt = B.field_value(view, 1, 1)
        ok = False
        why = "ChannelMappingFamily is not a single byte at offset 10"
        if fam[0] in ("expr", "const") and len(view) == 11:
            tail = rest or []
            if fam[0] == "const":
                ok = (fam[1] == b"\x00" and not tail) or (fam[1] != b"\x00" and len(tail) >= 1 and tail[0][0] != "alt")
                why = "constant mapping family %s with tail %s" % (fam[1].hex(), [L.show(t)[:40] for t in tail])
            else:
                fe = fam[1][1]
                good_alt = len(tail) == 1 and tail[0][0] == "alt" and tail[0][1] == ("bin", "Ne", fe, ("lit", 0)) and tail[0][2] and not tail[0][3]
                w_ok = False
                if good_alt:
                    tw = [t for t in tail[0][2]]
                    fixed = sum(L.seg_width(t).const for t in tw if t[0] in ("c", "u8") and L.seg_width(t).is_const())
                    reps = [t for t in tw if t[0] == "rep"]
                    w_ok = fixed == 2 and len(reps) == 1 and L.seg_width(("rep",) + tuple(reps[0][1:3]) + ([("u8", ("lit", 0))],)) is not None
                    if reps and cnt[0] == "expr":
                        base = reps[0][1]
                        w_ok = w_ok and base[0] == "range" and base[1] == ("lit", 0) and L.strip_ids(L.freeze(base[2])) == L.strip_ids(L.freeze(cnt[1][1]))
                ok = good_alt and w_ok
                why = "the bytes after ChannelMappingFamily are %s" % ", ".join(L.show(t)[:100] for t in tail)
        # RFC 7845 5.1.1: family 0 is defined for one or two channels only
        if cnt[0] == "expr" and fam[0] in ("expr", "const"):
            cexpr = cnt[1][1]

            def evl(x, ch):
                if L.strip_ids(L.freeze(x)) == L.strip_ids(L.freeze(cexpr)):
                    return ch
                h = x[0]
                if h == "lit":
                    return int(x[1])
                if h == "bool":
                    return int(bool(x[1]))
                if h == "cast":
                    return evl(x[2], ch)
                if h == "if":
                    return evl(x[2], ch) if evl(x[1], ch) else evl(x[3], ch)
                if h == "bin":
                    a_, b_ = evl(x[2], ch), evl(x[3], ch)
                    return {"Gt": int(a_ > b_), "Ge": int(a_ >= b_), "Lt": int(a_ < b_), "Le": int(a_ <= b_), "Eq": int(a_ == b_), "Ne": int(a_ != b_), "Add": a_ + b_, "Sub": a_ - b_, "BitAnd": a_ & b_, "BitOr": a_ | b_}[x[1]]
                raise ValueError(h)
            try:
                famv = [(ch, (fam[1][0] if fam[0] == "const" else evl(fam[1][1], ch))) for ch in range(1, 9)]
                badc = [ch for ch, f_ in famv if ch > 2 and f_ == 0]
                run.check(not badc, "R3", key + " mapping family vs channels", "family != 0 for more than two channels (evaluated for 1..8 channels)",
                          "ChannelMappingFamily is 0 for %s channels; RFC 7845 defines family 0 for mono and stereo only" % badc)
            except (ValueError, KeyError, IndexError, TypeError):
                run.bad("R3", key + " mapping family vs channels", "cannot evaluate ChannelMappingFamily as a function of the channel count: %s" % (L.show(fam[1])[:80] if fam[0] == "expr" else fam,))
        run.check(ok, "R3", key + " channel mapping table", "StreamCount, CoupledCount, ChannelMapping[OutputChannelCount] present iff ChannelMappingFamily != 0",
                  "dOps channel mapping table is not conditional on `ChannelMappingFamily != 0` with one mapping byte per output channel: " + why)
    elif fc == b"av1C":
        tail = _after(segs, 4)
        good = tail is not None and len(tail) == 1 and tail[0][0] == "blob" and "sequence_header" in " ".join(L.field_names(tail[0][1]))
        run.check(good, "R3", key + " configOBUs", "sequence header OBU appended verbatim", "av1C configOBUs is not the verbatim sequence header after a 4-byte header: %s" % (", ".join(L.show(s) for s in (tail or []))[:200]))


def _indexed_byte(e):
    """(sequence expression, constant index) if e is `seq[k]`, `if len(seq) >= n { seq[k] } else { default }` or `seq.get(k).copied().unwrap_or(default)`"""
    while e[0] == "cast":
        e = e[2]
    if e[0] == "if" and e[2][0] in ("index", "mcall", "cast"):
        return _indexed_byte(e[2])
    if e[0] == "index" and e[2][0] == "lit":
        return e[1], e[2][1]
    if e[0] == "mcall" and e[1].split("::")[-1] in ("unwrap_or", "copied", "cloned", "unwrap_or_default"):
        return _indexed_byte(e[2])
    if e[0] == "mcall" and e[1].split("::")[-1] == "get" and len(e[3]) == 1 and e[3][0][0] == "lit":
        return e[2], e[3][0][1]
    return None


def _thaw_shape(x):
    return x


def entries_shape(segs, entry):
    """shape of a table body: every run of fixed-width segments must be a whole number of entries -> that many ('item',)"""
    out = []
    run_w = 0

    def flush():
        nonlocal run_w
        if run_w % entry:
            raise L.Unanalysable("partial entry (%d bytes)" % run_w)
        out.extend([("item",)] * (run_w // entry))
        run_w = 0
    for s in segs:
        k = s[0]
        if k in ("c", "be", "le", "u8"):
            run_w += L.seg_width(s).const
            continue
        flush()
        if k == "rep":
            out.append(("rep", s[1], s[2], entries_shape(s[3], entry)))
        elif k == "perm":
            out.append(("perm", ("key",), entries_shape(s[2], entry)))
        elif k == "alt":
            out.append(("alt", s[1], entries_shape(s[2], entry), entries_shape(s[3], entry)))
        elif k == "match":
            out.append(("match", s[1], [(p, entries_shape(x, entry)) for p, x in s[2]]))
        elif k == "ploop":
            out.append(("ploop", s[1], ("key",) if s[2] else None, [("part", entries_shape(p[1], entry)) if p[0] == "part" else ("rep", p[1], p[2], entries_shape(p[3], entry)) for p in s[3]]))
        else:
            raise L.Unanalysable("table body contains a %s segment" % k)
    flush()
    return out


def _alternatives(segs):
    """expand top-level alt/match into flat alternatives (bounded)"""
    outs = [[]]
    for s in segs:
        if s[0] == "alt":
            new = []
            for o in outs:
                for br in (s[2], s[3]):
                    for a in _alternatives(br):
                        new.append(o + a)
            outs = new
        elif s[0] == "match":
            new = []
            for o in outs:
                for p, br in s[2]:
                    for a in _alternatives(br):
                        new.append(o + a)
            outs = new
        else:
            outs = [o + [s] for o in outs]
        if len(outs) > 64:
            raise L.Unanalysable("too many alternatives")
    return [L.norm_segs(o) for o in outs]


def _after(segs, off):
    o = 0
    for i, s in enumerate(segs):
        if o == off:
            return segs[i:]
        w = L.seg_width(s)
        if not w.is_const():
            return None
        if s[0] == "c" and o < off < o + w.const:
            return [("c", s[1][off - o:])] + segs[i + 1:]
        o += w.const
    return [] if o == off else None


def _len_prefixed(lenseg, blob):
    if lenseg[0] != "be" or blob[0] != "blob":
        return False
    e = lenseg[1]
    while e[0] == "cast":
        e = e[2]
    return e == ("len", blob[1])


def _hvcc_arrays(tail):
    """parse [hdr byte, be16(1), be16(len x), blob x]* possibly with the first under alt; returns [(nal_type, len_ok)]"""
    out = []
    flat = []
    for s in tail:
        if s[0] == "alt" and not s[3]:
            flat += list(s[2])
        else:
            flat.append(s)
    i = 0
    flat = L.norm_segs(flat)
    while i < len(flat):
        s = flat[i]
        if s[0] != "c" or len(s[1]) != 3:
            return None
        hdr, n = s[1][0], s[1][1:]
        if n != b"\x00\x01" or i + 2 >= len(flat):
            return None
        if hdr & 0x40:
            return None     # reserved bit must be 0
        out.append((hdr & 0x3F, _len_prefixed(flat[i + 1], flat[i + 2])))
        i += 3
    return out


def esds_check(run, segs, key):
    """FullBox(0) + ES_Descriptor: every descriptor length byte equals the width of the descriptor body"""
    flat = L.norm_segs(segs)
    view, rest = B.byte_view(flat)
    if rest:
        run.bad("R3", key + " descriptors", "esds is not fixed-width")
        return
    bs = []
    for c in view:
        bs.append(c[1] if c[0] == "c" else None)
    ok = bs[:4] == [0, 0, 0, 0]
    pos = 4
    problems = []

    def desc(pos, end, depth=0):
        # tag, len, body
        nonlocal problems
        if pos + 2 > end:
            problems.append("truncated descriptor at %d" % pos)
            return end
        tag, ln = bs[pos], bs[pos + 1]
        if tag is None or ln is None:
            problems.append("non-constant tag/length at %d" % pos)
            return end
        body_end = pos + 2 + ln
        if body_end > end:
            problems.append("descriptor tag 0x%02x at %d: length %d overruns its parent (ends %d > %d)" % (tag, pos, ln, body_end, end))
            return end
        children.setdefault(depth, []).append(tag)
        if tag == 0x03:
            if bs[pos + 4] != 0:
                problems.append("ES_Descriptor flags byte is %s (streamDependence/URL/OCR fields are not emitted, so it must be 0)" % bs[pos + 4])
            p = pos + 2 + 3
            kids = []
            while p < body_end:
                kids.append(bs[p])
                p = desc(p, body_end, depth + 1)
            if kids != [0x04, 0x06]:
                problems.append("ES_Descriptor must contain DecoderConfigDescriptor (04) then SLConfigDescriptor (06), found tags %s" % [("0x%02x" % k) if k is not None else "?" for k in kids])
        elif tag == 0x04:
            if bs[pos + 2] != 0x40 or bs[pos + 3] != 0x15:
                problems.append("DecoderConfigDescriptor objectType/streamType = %s/%s (want 0x40/0x15)" % (bs[pos + 2], bs[pos + 3]))
            p = pos + 2 + 13
            kids = []
            while p < body_end:
                kids.append(bs[p])
                p = desc(p, body_end, depth + 1)
            if kids != [0x05]:
                problems.append("DecoderConfigDescriptor must contain exactly one DecoderSpecificInfo (05), found tags %s" % [("0x%02x" % k) if k is not None else "?" for k in kids])
        elif tag == 0x05:
            if ln < 2:
                problems.append("DecoderSpecificInfo of %d byte(s): an AudioSpecificConfig has at least 2" % ln)
        elif tag == 0x06:
            if ln != 1 or bs[pos + 2] != 0x02:
                problems.append("SLConfigDescriptor must be 06 01 02 (predefined = MP4), found length %s value %s" % (ln, bs[pos + 2] if pos + 2 < len(bs) else None))
        else:
            problems.append("unexpected descriptor tag 0x%02x at %d" % (tag, pos))
        return body_end
    children = {}
    if bs[pos] != 0x03:
        problems.append("esds payload does not start with an ES_Descriptor (03)")
    endp = desc(pos, len(bs))
    if endp != len(bs):
        problems.append("ES_Descriptor ends at %d, box payload at %d" % (endp, len(bs)))
    run.check(ok and not problems, "R3", key + " descriptors", "FullBox(0); ES(03) > DecoderConfig(04: 0x40,0x15) > DecSpecificInfo(05), SLConfig(06): every length byte equals its body",
              "esds descriptor structure broken: %s" % "; ".join(problems))


def track_ids(run, root, segs, frag):
    allb = list(B.walk_boxes(segs))
    moovs = [(p, b, c) for (p, b, c) in allb if p[-1] == b"moov"]
    for (mp, mb, mc) in moovs:
        ids = []      # (id, conditions)
        nxt = None
        for (p, b, c) in B.walk_boxes(mb[2], mp):
            view, rest = B.byte_view(b[2])
            if p[-1] == b"tkhd":
                v = B.field_value(view, 12, 4)
                if v[0] == "const":
                    ids.append((int.from_bytes(v[1], "big"), c))
                else:
                    run.bad("R2", "%s tkhd track_ID" % root.split("::")[-1], "track_ID is not a constant")
            if p[-1] == b"mvhd":
                v = B.field_value(view, 96, 4)
                nxt = ("lit", int.from_bytes(v[1], "big")) if v[0] == "const" else (v[1][1] if v[0] == "expr" else None)
            if p[-1] == b"trex":
                v = B.field_value(view, 4, 4)
                if v[0] == "const":
                    ids.append((("trex", int.from_bytes(v[1], "big")), c))
        tk = [i for i in ids if isinstance(i[0], int)]
        vals = [i[0] for i in tk]
        rk = root.split("::")[-1]
        run.check(all(v != 0 for v in vals) and len(set(vals)) == len(vals), "R2", "%s track-ids distinct" % rk, "track ids %s" % vals, "track ids %s are not pairwise distinct and non-zero" % vals)
        if nxt is None or possible_consts(nxt) is None:
            run.bad("R2", "%s next_track_ID" % rk, "next_track_ID is not constant-valued in mvhd (cannot compare)")
        else:
            # per track: the value next_track_ID takes in the configurations where that track exists
            for (v, c) in tk:
                nv = const_under(nxt, B.facts_of(c))
                run.check(nv is not None and nv > v, "R2", "%s next_track_ID > track %d" % (rk, v), "next_track_ID %s > %d whenever track %d is present" % (nv, v, v),
                          "next_track_ID is %s but a track with ID %d exists%s" % (nv, v, " (when the optional track is present)" if c else ""))
        for (v, c) in ids:
            if not isinstance(v, int):
                run.check(v[1] in vals, "R2", "%s trex id" % rk, "trex.track_ID %d names an existing track" % v[1], "trex.track_ID %d names no track (%s)" % (v[1], vals))
