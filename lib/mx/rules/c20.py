"""C20 — the CLI writes what the library writes and fails loudly otherwise.  (facts of the bin crate)

R1 library-only output: the File created for the mux output path is moved into the library builder and nothing else in the
   mux command writes to the filesystem;
R2 option plumbing: each builder argument has the corresponding CLI parameter as its only source (documented default codecs);
   one frame at the constant time 0 per input, key flag true;
R3 completion after success: both completion messages are dominated by the Ok edge of finish(); every fallible library call is
   propagated with `?`; main returns the command's Result;
R4 validate verdict: the verdict flag is initialised true, only ever stored false, and stored false on every error branch; the hex
   validator rejects under the guards {empty, odd length, non-hex digit};
R5 termination of info: the box walk's cursor strictly increases by a size that is guarded non-zero, bounded by the buffer length.
Not decided: byte equality with an in-process library run; clap's parsing."""
from .. import flow, guards, mir, sym
from . import c04

EXPLANATION = (
    "MIR rules on the bin crate: R1 the value returned by File::create is consumed by exactly one call, MuxerBuilder::new, and no other filesystem-writing callee is reachable from the mux command; R2 data-dependence slices "
    "of every MuxerBuilder/Muxer call argument end in the matching CLI parameter (or the documented default constant); R3 dominance of the completion messages by the Ok edge of finish, propagate-only use of library "
    "Results, main returning the command result; R4 store inventory of the verdict flag and guard extraction in the hex validator; R5 the info loop's cursor update is `offset += size` behind `size == 0 -> break` and the "
    "loop test compares the cursor with the buffer length.")
TRUSTED = ["sym slices", "std::process::Termination for Result: Err => non-zero exit"]

LIB = "muxide::api::"


def setter_effects(lib):
    """builder methods of the library that take `mut self` and return Self: {method name: {field: 'replace' | 'update'}}
    `replace`: the field is assigned a value that does not depend on its previous content; `update`: anything else"""
    g = mir.Graph(lib)
    st = mir.Stores(g)
    out = {}
    for p, b in lib.bodies.items():
        if b["in_test_cfg"] or not b.get("impl_self", "").startswith("api::MuxerBuilder"):
            continue
        eff = {}
        for (bb, i, (root, path), why, node) in st.sites.get(p, []):
            if root not in (("arg", 1), ("argval", 1)) or not path:
                continue
            fld = path[0]
            kind = "update"
            if why.startswith("assign") and node.get("k") == "assign" and len(path) == 1:
                e = sym.expr_rv(b, node["rv"])
                reads = [y for y in sym.walk(e) if isinstance(y, tuple) and len(y) > 1 and y[0] in ("load", "refplace") and str(y[1]).startswith("arg1." + fld)]
                if not reads:
                    kind = "replace"
            if eff.get(fld) != "update":
                eff[fld] = kind if eff.get(fld) in (None, kind) else "update"
        # by-value `mut self`: plain field assignments `self.f = ..` are not pointer stores
        for blk in b["blocks"]:
            if blk["cleanup"]:
                continue
            for st_ in blk["stmts"]:
                if st_["k"] == "assign" and st_["place"]["l"] == 1 and st_["place"]["p"] and st_["place"]["p"][0].get("k") == "field" and not any(e_.get("k") == "deref" for e_ in st_["place"]["p"]):
                    fld = st_["place"]["p"][0].get("name")
                    if fld is None:
                        continue
                    kind = "update"
                    if len(st_["place"]["p"]) == 1:
                        e = sym.expr_rv(b, st_["rv"])
                        reads = [y for y in sym.walk(e) if isinstance(y, tuple) and len(y) > 1 and y[0] in ("load", "refplace") and str(y[1]).startswith("arg1." + fld)]
                        if not reads:
                            kind = "replace"
                    if eff.get(fld) != "update":
                        eff[fld] = kind if eff.get(fld) in (None, kind) else "update"
        if eff and b["locals"][0]["ty"].startswith("api::MuxerBuilder"):
            out[mir.norm(p).split("::")[-1]] = eff
    # delegation: a setter that hands `self` to another setter inherits that setter's effects
    changed = True
    rounds = 0
    while changed and rounds < 5:
        changed = False
        rounds += 1
        for p, b in lib.bodies.items():
            if b["in_test_cfg"] or not b.get("impl_self", "").startswith("api::MuxerBuilder") or not b["locals"][0]["ty"].startswith("api::MuxerBuilder"):
                continue
            me = mir.norm(p).split("::")[-1]
            for bb, t, name, info in mir.calls(b):
                callee = mir.norm(name or "").split("::")[-1]
                if name in lib.bodies and callee in out and callee != me and t["args"] and t["args"][0].get("k") in ("move", "copy") and (t["args"][0]["place"]["l"] == 1 or sym.expr(b, t["args"][0])[:2] == ("arg", 1)):
                    cur = out.setdefault(me, {})
                    for fld, kind in out[callee].items():
                        if cur.get(fld) != kind and cur.get(fld) != "update":
                            cur[fld] = kind if fld not in cur else "update"
                            changed = True
    return out


def dispatch_rule(run, u):
    mains = [k for k in u.bodies if mir.norm(k) == "main"]
    if len(mains) != 1:
        run.bad("R2", "anchor main", "main not found")
        return
    b = u.bodies[mains[0]]
    n = 0
    for bb, t, name, info in mir.calls(b):
        if not (name in u.bodies and mir.norm(name).endswith("_command")):
            continue
        cb = u.bodies[name]
        for i, a in enumerate(t["args"]):
            pname = (mir.debug_name(cb, i + 1) or "").lstrip("_")
            e = sym.expr(b, a)
            # the option field the argument is read from: last named projection under `parse()`
            fields = [y[2] for y in sym.walk(e) if isinstance(y, tuple) and len(y) == 3 and y[0] == "proj" and isinstance(y[2], str) and not y[2].startswith("as ") and not y[2].isdigit()]
            if not fields:
                continue
            src = fields[0]
            n += 1
            alias = {"no_progress": "progress"}
            run.check(alias.get(src, src).lstrip("_") == pname, "R2", "dispatch %s(%s)" % (mir.norm(name), pname), "from the parsed option `%s`" % src,
                      "main passes the parsed option `%s` as parameter `%s` of %s: the options are crossed" % (src, pname, mir.norm(name)), mir.loc_of(t))
    run.floor("R2", n, 20, "option -> command-parameter hand-overs in main")


def order_rule(prog, run, u, b):
    eff = setter_effects(prog.lib)
    run.extra["builder_setters"] = {k: v for k, v in sorted(eff.items())}
    calls_ = []
    for bb, t, name, info in mir.calls(b):
        nm = mir.norm(name or "")
        if nm.startswith(LIB + "MuxerBuilder::") and nm.split("::")[-1] in eff:
            calls_.append((bb, nm.split("::")[-1], t))
    n = 0
    for (bb1, m1, t1) in calls_:
        for (bb2, m2, t2) in calls_:
            if bb1 == bb2:
                continue
            for fld, k2 in eff[m2].items():
                if k2 == "replace" and fld in eff[m1] and bb2 in mir.reachable(b, mir.succs(b, bb1)):
                    n += 1
                    run.bad("R2", "order %s then %s" % (m1, m2), "`%s` replaces the builder's `%s` wholesale but can run after `%s`, which had already configured it: the earlier option is lost" % (m2, fld, m1), mir.loc_of(t2))
    if n == 0:
        run.ok("R2", "setter order", "no wholesale replacement of a configuration field after it was (partly) set: %d builder calls examined" % len(calls_))
    run.floor("R2", len(calls_), 3, "builder setter calls in the mux command")


def loud_rule(run, u, g, mux):
    deny = ("ok", "err", "unwrap_or", "unwrap_or_default", "unwrap_or_else")
    reach = g.reach([mux])
    # closures created in reachable functions
    for p in list(u.bodies):
        if u.bodies[p].get("kind") == "Closure" and any(mir.norm(u.bodies[p].get("parent") or "") == mir.norm(f) for f in reach):
            reach.add(p)
    hits, control = [], 0
    for p, b in u.bodies.items():
        if b["in_test_cfg"]:
            continue
        for bb, t, name, info in mir.calls(b):
            n = mir.norm(name or "")
            if n.startswith("std::result::Result::") and n.split("::")[-1] in deny:
                control += 1
                if p in reach:
                    hits.append((mir.norm(p), n.split("::")[-1], sym.show(sym.expr(b, t["args"][0]))[:80], mir.loc_of(t)))
    for (f_, m_, src, loc) in hits:
        run.bad("R6", "%s discards Result via %s: %s" % (f_, m_, src), "the error of `%s` is discarded with `.%s()` on the mux path: malformed input does not stop the command" % (src, m_), loc)
    if not hits:
        run.ok("R6", "no discarded Result on the mux path", "%d functions on the mux path; detector matches %d site(s) elsewhere in the binary (positive control)" % (len(reach), control))
    run.check(control >= 1, "R6", "positive control", "the detector matches the display-only unwrap_or in the info command", "the detector no longer matches anything in the binary: the rule would pass vacuously")


def _monotone_and(body, flag, rv):
    e = sym.expr_rv(body, rv, stop=(flag,))
    if e[0] == "bin" and e[1] in ("BitAnd", "And"):
        return e[2][:2] == ("var", flag) or e[3][:2] == ("var", flag)
    return False


def fn(u, name):
    m = [p for p in u.bodies if p == name or p.endswith("::" + name)]
    return m[0] if len(m) == 1 else None


def counters_rule(run, u, g, mux):
    """R7: the reported frame counts.  Every store `field = field + 1` reachable from the mux command is a frame counter; each
    must execute on every path of the function that holds it (no path from entry to a return avoids it: a count may not depend
    on progress display or verbosity), and each library frame write on the mux path must be followed - on its Ok edge, in the same
    function - by a call that reaches exactly one counter, distinct counters for write_video and write_audio."""
    st = mir.Stores(g)
    reach = g.reach([mux])
    counters = {}       # function -> [(field path, block, node)]
    for f_ in sorted(reach):
        b = u.bodies[f_]
        for (bb, i, (root, path), why, node) in st.sites.get(f_, []):
            if not why.startswith("assign") or node.get("k") != "assign" or not path:
                continue
            e = sym.expr_rv(b, node["rv"])
            while e[0] == "proj":
                e = e[1]
            if e[0] == "bin" and e[1] in ("Add", "AddWithOverflow") and e[3][:2] == ("const", 1) and e[2][0] == "load" and str(e[2][1]).split(".")[-len(path):] == list(path):
                counters.setdefault(f_, []).append((path, bb, node))
    n = 0
    for f_, lst in sorted(counters.items()):
        b = u.bodies[f_]
        rets = {blk["i"] for blk in b["blocks"] if blk["term"]["k"] == "return"}
        for (path, bb, node) in lst:
            n += 1
            # blocks reachable from the entry without passing through bb
            seen, work = set(), [0] if bb != 0 else []
            while work:
                x = work.pop()
                if x in seen or x == bb or b["blocks"][x].get("cleanup"):
                    continue
                seen.add(x)
                work.extend(mir.succs(b, x))
            avoid = sorted(seen & rets)
            run.check(not avoid, "R7", "counter %s.%s unconditional" % (mir.norm(f_).split("::")[-1], ".".join(path)), "incremented on every path of %s" % mir.norm(f_).split("::")[-1],
                      "the reported count `%s` is incremented only on some paths of %s (a return is reachable without it): whether a written frame is counted depends on something else (progress display, verbosity, ..), so the report can differ from what the library wrote"
                      % (".".join(path), mir.norm(f_)), mir.loc_of(node))
    run.floor("R7", n, 2, "frame counters")
    # each library frame write is followed by exactly one counter update on its Ok edge
    per_write = {}
    for f_ in sorted(reach):
        b = u.bodies[f_]
        dom = mir.dominators(b)
        tries = flow.try_sites(b)
        for bb, t, name, info in mir.calls(b):
            nm = mir.norm(name) if name else ""
            if nm not in (LIB + "Muxer::write_video", LIB + "Muxer::write_audio", LIB + "Muxer::write_video_with_dts"):
                continue
            upd = []
            for bb2, t2, name2, info2 in mir.calls(b):
                if name2 in u.bodies and bb in dom[bb2] and bb2 != bb:
                    hit = [c for c in g.reach([name2]) if c in counters]
                    for c in hit:
                        upd += [(name2, p_) for (p_, _bb, _n) in counters[c]]
            direct = [(f_, p_) for (p_, cbb, _n) in counters.get(f_, []) if bb in dom[cbb]]
            upd += direct
            key = "%s -> counter" % nm.split("::")[-1]
            run.check(len(upd) == 1, "R7", "%s in %s" % (key, mir.norm(f_).split("::")[-1]), "one counter update after the successful write: %s" % (upd[0][1],) if upd else "",
                      "after a successful %s the command updates %d frame counter(s) (%s), expected exactly one" % (nm.split("::")[-1], len(upd), [".".join(x[1]) for x in upd]), mir.loc_of(t))
            if len(upd) == 1:
                per_write.setdefault(nm.split("::")[-1].replace("_with_dts", ""), set()).add(upd[0][1])
    if "write_video" in per_write and "write_audio" in per_write:
        run.check(not (per_write["write_video"] & per_write["write_audio"]), "R7", "video and audio counters distinct", "different fields", "video and audio frames are counted in the same field %s" % sorted(per_write["write_video"] & per_write["write_audio"]))



def sink_is_file(run, b, t, R):
    """the sink the CLI hands to the library is the created File itself (through `?` / context adaptors only): a buffering adaptor
    (BufWriter, LineWriter, a wrapper type) defers the write, so a failing write is reported after finish() returned Ok - or, when
    the adaptor is dropped, not at all - and the command reports completion for a file that was not written"""
    x = sym.expr(b, t["args"][0])
    while True:
        if x[0] == "proj":
            x = x[1]
        elif x[0] == "call" and x[2] and x[1].rsplit("::", 1)[-1] in ("branch", "with_context", "context", "map_err", "expect", "unwrap"):
            x = x[2][0]
        else:
            break
    good = x[0] == "call" and x[1] in ("std::fs::File::create", "std::fs::File::create_new", "std::fs::OpenOptions::open")
    run.check(good, R, "sink-is-the-file", "the library writes into the File itself", "the library's sink is `%s`, not the created file itself: writes are deferred by the adaptor, so a write failure is no longer "
              "reported by finish() (it surfaces later or is dropped) and the command can report completion for an incomplete file" % sym.show(x)[:100], mir.loc_of(t))


CODEC_NAMES = {
    "<api::VideoCodec as std::str::FromStr>::from_str": {"h264": "H264", "h.264": "H264", "avc": "H264", "h265": "H265", "h.265": "H265", "hevc": "H265", "av1": "Av1", "vp9": "Vp9"},
    "<api::AudioCodec as std::str::FromStr>::from_str": {"aac": "Aac(Lc)", "aac-lc": "Aac(Lc)", "aac-main": "Aac(Main)", "aac-ssr": "Aac(Ssr)", "aac-ltp": "Aac(Ltp)", "aac-he": "Aac(He)",
                                                         "aac-hev2": "Aac(Hev2)", "opus": "Opus", "none": "None"},
}


def codec_names_rule(prog, run, R="R8"):
    """the codec names and aliases the CLI documents (`--video-codec`, `--audio-codec` go through FromStr) are all accepted, case-insensitively,
    and name the right codec: `from_str` is a match of the whole lower-cased argument (through trim / as_str only) against a table that
    contains every documented alias with its codec"""
    from .. import layout as L
    u = prog.lib
    it = L.Interp(u)

    def ctor_name(v):
        while v[0] in ("okres", "unwrapped", "okval"):
            v = v[1]
        if v == ("none",):
            return "None"
        if v[0] == "ctor":
            inner = ",".join(ctor_name(a) for a in v[2])
            return v[1].split("::")[-1] + ("(%s)" % inner if inner else "")
        return L.show(v)[:40]
    n = 0
    for fn_, table in sorted(CODEC_NAMES.items()):
        short = fn_.split(" as ")[0].split("::")[-1]
        if fn_ not in u.hir:
            run.bad(R, "anchor %s::from_str" % short, "FromStr implementation not found")
            continue
        try:
            v = it.call_value(fn_, [("param", "s")])
        except L.Unanalysable as e:
            run.bad(R, "%s names" % short, "cannot derive the name table (fail closed): %s" % e)
            continue
        scr = v[1] if v[0] == "matchv" else None
        x, lowered = scr, False
        while x is not None and x[0] == "mcall" and x[1].split("::")[-1] in ("to_lowercase", "to_ascii_lowercase", "as_str", "trim", "to_string", "to_owned", "deref"):
            lowered = lowered or "lowercase" in x[1]
            x = x[2]
        whole = v[0] == "matchv" and x == ("param", "s") and lowered
        run.check(whole, R, "%s names: whole lower-cased argument" % short, "match on s.to_lowercase()",
                  "from_str does not match the whole lower-cased argument (scrutinee %s): names containing the cut or altered part (`h.264`) are no longer recognised" % (L.show(scr)[:100] if scr else L.show(v)[:100]))
        got = {}
        if v[0] == "matchv":
            for pat, val in v[2]:
                for alt in str(pat).split("|"):
                    got.setdefault(alt.strip(), ctor_name(val))
        for name, want in sorted(table.items()):
            n += 1
            run.check(got.get(name) == want, R, "%s name `%s`" % (short, name), "-> %s" % want, "the documented name `%s` is %s, documented: %s" % (name, ("mapped to " + got[name]) if name in got else "not accepted", want))
    run.floor(R, n, 15, "documented codec names")

_TEXT_IDENTITY = ("to_string", "to_owned", "from", "into", "clone", "as_str", "as_ref", "deref", "borrow", "to_str")


def _identity_parser(u, ty):
    """the named crate-local parser returns, on every Ok exit, the text it was given (a validation-only parser)"""
    import re as _re
    from .. import flow
    m_ = _re.search(r"\{([A-Za-z0-9_:]+)\}", ty)
    if not m_:
        return None
    cands = [p for p in u.bodies if mir.norm(p).split("::")[-1] == m_.group(1).split("::")[-1]]
    if len(cands) != 1:
        return None
    b = u.bodies[cands[0]]
    oks = [e for e in flow.exits(b) if e["kind"] not in ("err", "residual")]
    if not oks:
        return None
    for e in oks:
        if e["kind"] != "ok" or e["node"].get("k") != "assign":
            return None
        x = sym.expr(b, e["node"]["rv"]["ops"][0])
        while isinstance(x, tuple) and x and ((x[0] == "call" and str(x[1]).split("::")[-1] in _TEXT_IDENTITY and x[2]) or x[0] in ("ref", "deref")):
            x = x[2][0] if x[0] == "call" else x[1]
        whole_arg = isinstance(x, tuple) and x and ((x[0] == "arg" and x[1] == 1) or (x[0] in ("refplace", "load") and x[1] == "arg1"))
        if not whole_arg:
            return None
    return "%d Ok exit(s) of %s" % (len(oks), m_.group(1))


def string_parsers_rule(run, u):
    """clap's derive turns `#[arg(value_parser = f)]` into `Arg::value_parser::<fn item f>(..)` inside augment_args / augment_subcommands;
    the default is a parser type of clap itself (`clap::builder::*`).  A crate-local function or closure producing a `String` stands
    between the command line and `set_title` / `set_language` & co: whatever it trims, re-cases or refuses, the library given the same
    text would have written as typed."""
    n = 0
    seen = {}
    for p, b in sorted(u.bodies.items()):
        np_ = mir.norm(p)
        if "augment_args" not in np_ and "augment_subcommands" not in np_:
            continue
        for bb, t, name, info in mir.calls(b):
            if not (name and mir.norm(name).endswith("Arg::value_parser")):
                continue
            n += 1
            ci = (t["func"].get("callee") or {}) if isinstance(t.get("func"), dict) else {}
            ty = " ".join(str(x) for x in (ci.get("substs") or []))
            own = "{" in ty or "closure" in ty or not (ty.startswith("clap::") or ty.startswith("clap_builder::"))
            if not own:
                continue
            stringy = "std::string::String" in ty
            k = "%s value parser %s" % (np_.split("::")[-1], ty[:90])
            seen[k] = seen.get(k, 0) + 1
            if seen[k] > 1:
                continue
            if stringy:
                ident = _identity_parser(u, ty)
                if ident:
                    run.ok("R9", k, "command-specific parser that only validates: every Ok value is the typed text itself (%s)" % ident, mir.loc_of(t))
                    continue
            run.check(not stringy, "R9", k, "command-specific parser of a non-text option (typed value, not bytes handed to the library)",
                      "a string-valued option is parsed by the command's own function `%s` instead of clap's String parser: the text the user typed is rewritten or refused before it reaches the library, which would have written it as typed" % ty[:140], mir.loc_of(t))
    run.check(n >= 20, "R9", "argument definitions", "%d Arg::value_parser calls examined in the derive-generated definitions, none string-valued and command-specific" % n,
              "only %d Arg::value_parser calls found in the derive-generated argument definitions (anchor; fail closed)" % n, how="count")


def check(prog, run):
    run.rule("R1", "the output File flows only into the library builder; no other filesystem write in the mux command")
    run.rule("R2", "builder/muxer arguments are sourced from the matching CLI option (documented defaults); single frame at t=0, key=true")
    run.rule("R3", "completion messages dominated by the Ok edge of finish(); library results propagated; main returns the command's Result")
    run.rule("R4", "validate: verdict flag true->false only, false on every error branch; hex validator guards {empty, odd, non-hex}")
    run.rule("R5", "info: box-walk cursor strictly increases (size guarded non-zero) and is bounded by the buffer length")
    u = prog.bin
    if u is None:
        run.bad("R1", "anchor bin", "no fact file for the binary crate")
        return
    g = mir.Graph(u)
    mux = fn(u, "mux_command")
    if mux is None:
        run.bad("R1", "anchor mux", "mux command not found")
        return
    b = u.bodies[mux]
    # ---- R1
    creates = [(bb, t) for bb, t, name, info in mir.calls(b) if name and mir.norm(name) == "std::fs::File::create"]
    run.check(len(creates) == 1, "R1", "single-create", "one File::create", "expected exactly one File::create in the mux command, found %d" % len(creates))
    news = [(bb, t) for bb, t, name, info in mir.calls(b) if name and mir.norm(name) == LIB + "MuxerBuilder::new"]
    ok = False
    if len(news) == 1 and creates:
        e = sym.expr(b, news[0][1]["args"][0])
        inner = flow.strip_passthrough(e)
        calls_ = [t_[1] for t_ in sym.walk(e) if isinstance(t_, tuple) and t_ and t_[0] == "call"]
        ok = "std::fs::File::create" in calls_
        # the File value has no other consumer: count uses of the local that holds the unwrapped file
        fl = news[0][1]["args"][0]
        if fl["k"] in ("move", "copy"):
            from . import c13
            # the chain create -> with_context -> ? -> local: every link is single-use
            ok = ok and news[0][1]["args"][0]["k"] == "move"
    run.check(ok, "R1", "file-into-builder", "MuxerBuilder::new(File::create(output)?)", "the created output file is not handed (only) to the library builder")
    if len(news) == 1:
        sink_is_file(run, b, news[0][1], "R1")
    reach = g.reach([mux])
    writers = []
    for f_ in reach:
        for bb, t, name, info in mir.calls(u.bodies[f_]):
            nm = mir.norm(name) if name else ""
            if nm in ("std::fs::write", "std::fs::File::create", "std::fs::OpenOptions::open", "std::fs::remove_file", "std::fs::rename", "std::fs::copy") and not (f_ == mux and nm == "std::fs::File::create"):
                writers.append((mir.norm(f_), nm))
            if "std::io::Write" in (info or {}).get("trait", "") and f_ != mux:
                writers.append((mir.norm(f_), nm))
    run.check(not writers, "R1", "no-other-writer", "no filesystem write besides the create handed to the library", "the mux command can write files outside the library: %s" % writers)
    # ---- R2 (dispatch): main hands each parsed option to the command parameter of the same name
    dispatch_rule(run, u)
    # ---- R2 (ordering): a builder call that *replaces* a configuration field wholesale must not follow a call that set part of it
    order_rule(prog, run, u, b)
    # ---- R6: input decoding is loud
    run.rule("R6", "input decoding fails loudly: on the mux path no Result is discarded through .ok()/unwrap_or*/err() (a malformed input must stop the command)")
    loud_rule(run, u, g, mux)
    run.rule("R9", "text options reach the library as typed: in the derive-generated argument definitions every string-valued option uses clap's own String parser - no command-specific value parser rewrites or filters a string between argv and the library setter")
    string_parsers_rule(run, u)
    run.rule("R8", "codec names and aliases: every documented name is accepted case-insensitively and names the right codec (FromStr tables)")
    codec_names_rule(prog, run)
    run.rule("R7", "reported frame counts: every `count += 1` on the mux path is unconditional in its function, and each successful library frame write is followed by exactly one of them (video and audio distinct)")
    counters_rule(run, u, g, mux)
    # ---- R2
    c04.ROLE_NAMES.clear()
    for i in range(1, b["argc"] + 1):
        c04.ROLE_NAMES[i] = mir.debug_name(b, i)
    plumb = {
        LIB + "MuxerBuilder::video": [("codec", {"video_codec"}, "api::VideoCodec::H264"), ("width", {"width"}, None), ("height", {"height"}, None), ("fps", {"fps"}, None)],
        LIB + "MuxerBuilder::audio": [("codec", {"audio_codec"}, "Aac"), ("sample_rate", {"sample_rate"}, None), ("channels", {"channels"}, None)],
        LIB + "Metadata::with_title": [("title", {"title"}, None)],
        LIB + "MuxerBuilder::set_language": [("language", {"language"}, None)],
    }
    for callee, args in plumb.items():
        sites = [(bb, t) for bb, t, name, info in mir.calls(b) if name and mir.norm(name) == callee]
        if len(sites) != 1:
            run.bad("R2", "call %s" % callee.split("::")[-1], "expected one call, found %d" % len(sites))
            continue
        t = sites[0][1]
        for i, (an_, want, default) in enumerate(args):
            e = sym.expand_phi(b, sym.expr(b, t["args"][i + 1]))
            params = {s[2] for s in sym.sources(e) if s[0] == "arg"} | {mir.debug_name(b, s[1]) for s in sym.sources(e) if s[0] == "var"}
            params = {p for p in params if p}
            # a binding introduced by `if let Some(x) = option_param`: resolve `var` to the parameter it was matched from
            srcs = _param_sources(b, e)
            txt = sym.show(e)
            good = srcs == want and (default is None or default in txt)
            run.check(good, "R2", "%s(%s)" % (callee.split("::")[-1], an_), "from --%s%s" % (sorted(want)[0].replace("_", "-"), " (default %s)" % default if default else ""),
                      "argument `%s` of %s is sourced from %s (%s)" % (an_, callee.split("::")[-1], sorted(srcs), txt[:100]), mir.loc_of(t))
    for helper, callee, consts in (("process_video_frames", LIB + "Muxer::write_video", [("time", 1, "0"), ("key", 3, "true")]), ("process_audio_frames", LIB + "Muxer::write_audio", [("time", 1, "0")])):
        hf = fn(u, helper)
        if hf is None:
            run.bad("R2", "anchor " + helper, "not found")
            continue
        hb = u.bodies[hf]
        sites = [(bb, t) for bb, t, name, info in mir.calls(hb) if name and mir.norm(name) == callee]
        run.check(len(sites) == 1, "R2", "%s single-frame" % helper, "exactly one frame written", "%s writes %d frames" % (helper, len(sites)))
        for (bb, t) in sites[:1]:
            for (nm_, idx, val) in consts:
                e = sym.expr(hb, t["args"][idx])
                good = e[0] == "const" and str(e[1]).lower().startswith(val if val != "true" else "1") or (val == "true" and e == ("const", 1, "bool")) or (val == "0" and e[0] == "const" and str(e[1]).startswith("0"))
                run.check(good, "R2", "%s %s" % (helper, nm_), "%s = %s" % (nm_, val), "%s passes %s as %s" % (helper, sym.show(e), nm_))
            e = sym.expr(hb, t["args"][2])
            good = any(isinstance(t_, tuple) and t_ and t_[0] == "call" and t_[1].endswith("read_hex_bytes") for t_ in sym.walk(e))
            run.check(good, "R2", "%s payload" % helper, "payload = read_hex_bytes(file content)", "%s payload is %s" % (helper, sym.show(e)[:100]))
            # ... and nothing but the decoded bytes: only borrows / exact copies between the decoder and the library call, and the
            # decoded vector is never borrowed mutably (no trimming, skipping, patching of the frame in the CLI)
            x = e
            while True:
                if x[0] in ("ref", "copy"):
                    x = x[1]
                elif x[0] == "call" and len(x[2]) == 1 and x[1].rsplit("::", 1)[-1] in ("deref", "as_slice", "as_ref", "borrow", "clone", "to_vec", "to_owned"):
                    x = x[2][0]
                else:
                    break
            whole = x[0] == "call" and x[1].endswith("read_hex_bytes")
            mutated = False
            if whole and isinstance(x[-1], int):
                term = hb["blocks"][x[-1]].get("term") or {}
                dest = (term.get("dest") or {}).get("l")
                for blk in hb["blocks"]:
                    for st in blk["stmts"]:
                        if st["k"] == "assign" and st["rv"]["k"] in ("ref", "rawptr") and st["rv"].get("mut") and st["rv"]["place"]["l"] == dest:
                            mutated = True
            run.check(whole and not mutated, "R2", "%s payload verbatim" % helper, "the decoded bytes themselves (borrowed or copied whole), never modified",
                      "%s hands the library %s: not the decoded file content itself, so the file differs from the library's output for the same input" % (
                          helper, ("the decoded vector after modifying it in place" if whole else sym.show(e)[:140])), mir.loc_of(t))
    # ---- R3
    dom = mir.dominators(b)
    fin = [(bb, t) for bb, t, name, info in mir.calls(b) if name and mir.norm(name) == LIB + "Muxer::finish"]
    run.check(len(fin) == 1, "R3", "single-finish", "one finish()", "expected one finish() call, found %d" % len(fin))
    if fin:
        ts = [x for x in flow.try_sites(b) if x["src_call_bb"] == fin[0][0]]
        cont = ts[0]["cont"] if ts else None
        run.check(cont is not None, "R3", "finish-propagated", "finish()...? ", "the Result of finish() is not propagated with `?`")
        msgs = []
        for bb, t, name, info in mir.calls(b):
            if name and mir.norm(name) == "std::io::_print":
                e = sym.expr(b, t["args"][0])
                txt = sym.show(e)
                s = str(e)
                if "complete" in s.lower() and "Dry run" not in s:
                    msgs.append((bb, t, "text"))
        # the JSON form prints the serialised stats: a _print whose argument depends on serde_json::to_string_pretty(&stats)
        for bb, t, name, info in mir.calls(b):
            if name and mir.norm(name) == "std::io::_print":
                e = sym.expr(b, t["args"][0])
                if any(isinstance(x, tuple) and x and x[0] == "call" and x[1].endswith("to_string_pretty") for x in sym.walk(e)):
                    msgs.append((bb, t, "json"))
        run.check(len(msgs) >= 2, "R3", "completion-messages-found", "%d completion message sites" % len(msgs), "completion messages not found (anchor): %d" % len(msgs))
        for (bb, t, kind) in msgs:
            run.check(cont is not None and cont in dom[bb], "R3", "completion-after-ok %s" % kind, "dominated by the Ok edge of finish()", "the %s completion message can be printed without a successful finish()" % kind, mir.loc_of(t))
    # library calls returning Result are all propagated
    from . import c13
    for f_ in (mux, fn(u, "process_video_frames"), fn(u, "process_audio_frames")):
        if not f_:
            continue
        fb = u.bodies[f_]
        tries = flow.try_sites(fb)
        ordn = 0
        for bb, t, name, info in mir.calls(fb):
            nm = mir.norm(name) if name else ""
            if nm.startswith(LIB) and t["dest"]["ty"].startswith("std::result::Result<"):
                ordn += 1
                used = [x for x in tries if x["src_call_bb"] == bb]
                run.check(len(used) == 1 and c13._dest_single_use(fb, t), "R3", "propagated %s %s#%d" % (mir.norm(f_).split("::")[-1], nm.split("::")[-1], ordn),
                          "consumed by `?`", "the Result of %s is not propagated (error could be swallowed and completion reported)" % nm, mir.loc_of(t))
    mn = fn(u, "main")
    if mn:
        mb = u.bodies[mn]
        run.check(mb["locals"][0]["ty"].startswith("std::result::Result<"), "R3", "main-returns-result", "main() -> Result", "main does not return a Result (errors would not become a non-zero exit)")
        delegs = [e for e in flow.exits(mb) if e["kind"] == "deleg" and e.get("callee") and "mux_command" in e["callee"]]
        tr = [x for x in flow.try_sites(mb) if x["src"] and x["src"][0] == "call" and "mux_command" in str(x["src"][3] if len(x["src"]) > 3 else "")]
        run.check(bool(delegs or tr), "R3", "main-propagates-mux", "mux_command's Result is returned / propagated by main", "main does not propagate the mux command's Result")
    # ---- R4
    vc = fn(u, "validate_command")
    if vc:
        vb = u.bodies[vc]
        flag = None
        for v in vb["debug"]:
            if v["name"] == "is_valid" and v.get("place") and not v["place"]["p"]:
                flag = v["place"]["l"]
        if flag is None:
            # semantic fallback: the bool local that selects the "valid" field of the report
            cands = [l["i"] for l in vb["locals"] if l["ty"] == "bool" and l["mut"] and len(mir.defs(vb).get(l["i"], [])) > 1]
            flag = cands[0] if len(cands) == 1 else None
        if flag is None:
            run.bad("R4", "anchor verdict", "verdict flag not found")
        else:
            ds = mir.defs(vb).get(flag, [])
            vals = []
            for d in ds:
                if d[0] == "stmt" and d[3]["rv"]["k"] == "use" and d[3]["rv"]["op"].get("k") == "const":
                    vals.append((d[1], d[3]["rv"]["op"].get("v")))
                elif d[0] == "stmt" and _monotone_and(vb, flag, d[3]["rv"]):
                    vals.append((d[1], "and"))        # `flag &= x` / `flag = flag && x`: can only turn the verdict to false
                else:
                    vals.append((d[1], "?"))
            trues = [v for v in vals if v[1] == 1]
            others = [v for v in vals if v[1] not in (0, 1, "and")]
            run.check(len(trues) == 1 and not others, "R4", "verdict-stores", "initialised true once, otherwise only stored false (%d times)" % (len(vals) - 1),
                      "verdict flag is assigned %s" % vals)
            false_bbs = {v[0] for v in vals if v[1] == 0}
            # which condition clears the verdict: every direct `flag = false` must sit under one of the documented conditions
            #   input given and missing | input given, present and rejected by the hex validator | no input given at all
            c04.ROLE_NAMES.clear()
            for i_ in range(1, vb["argc"] + 1):
                c04.ROLE_NAMES[i_] = mir.debug_name(vb, i_)
            c04.CUR_BODY[:] = [vb]
            chains = []
            for fb_ in sorted(false_bbs):
                gs_ = guards.guards_of(vb, fb_)
                canon = []
                for (s__, d__, t__) in gs_:
                    sg = c04.signature(d__, t__)
                    txt = sym.show(d__)
                    m_ = None
                    for inp in ("video", "audio"):
                        if sg in ("variant(param:%s)=1" % inp, "!is_none(param:%s)" % inp, "is_some(param:%s)" % inp):
                            m_ = "given " + inp
                        elif sg in ("is_none(param:%s)" % inp, "variant(param:%s)=0" % inp, "!is_some(param:%s)" % inp):
                            m_ = "none " + inp
                    if m_ is None and sg.startswith(("exists(", "!exists(")):
                        m_ = ("present" if sg.startswith("exists") else "missing")
                    if m_ is None and sg.startswith("variant(") and "validate_hex_file" in txt:
                        m_ = "hex-err" if sg.endswith("=1") else "hex-ok"
                    canon.append(m_ or ("?" + sg))
                chains.append(tuple(canon))
            c04.CUR_BODY[:] = []
            allowed = {("given video", "missing"), ("given video", "present", "hex-err"), ("given audio", "missing"), ("given audio", "present", "hex-err"), ("none video", "none audio"), ("none audio", "none video")}
            for ch in chains:
                run.check(ch in allowed, "R4", "verdict cleared under %s" % (" & ".join(ch) or "no condition"), "a documented invalidity condition",
                          "the verdict is set to `invalid` under the condition chain %s, which is not one of: input given but missing / given, present but not valid hex / no input given" % (list(ch),))
            if chains:
                run.check(any(set(ch) == {"none video", "none audio"} for ch in chains) or len(chains) < 3, "R4", "verdict: no input given", "invalid when neither input is given", "no `invalid` verdict for the case that neither input is given")
            # every "status": "error" check push is followed (same straight-line region) by a false store
            errs = []
            for bb_, t_, name_, info_ in mir.calls(vb):
                if name_ and mir.norm(name_).endswith("serde_json::to_value") or (name_ and "to_value" in name_):
                    e_ = sym.expr(vb, t_["args"][0])
                    if e_ == ("ref", ("const", '"error"', "&str")):
                        errs.append(bb_)
            nerr = 0
            # error entries built in helper functions that return (entry, ok): ok must be the constant false on those paths, and the
            # caller must fold it into the verdict with `&=`
            for hp, hb in u.bodies.items():
                if hp == vc or hb["in_test_cfg"] or hp not in g.reach([vc]):
                    continue
                herrs = []
                for bb_, t_, name_, info_ in mir.calls(hb):
                    if name_ and "to_value" in name_ and t_["args"] and sym.expr(hb, t_["args"][0]) == ("ref", ("const", '"error"', "&str")):
                        herrs.append(bb_)
                for ebb in sorted(set(herrs)):
                    nerr += 1
                    fw = mir.reachable(hb, [ebb])
                    flags_ = []
                    for blk in hb["blocks"]:
                        if blk["i"] not in fw:
                            continue
                        for st_ in blk["stmts"]:
                            if st_["k"] == "assign" and st_["rv"]["k"] == "aggregate" and st_["rv"].get("agg") == "tuple":
                                for op in st_["rv"]["ops"]:
                                    if op.get("k") == "const" and op.get("ty") == "bool":
                                        flags_.append(op.get("v"))
                    folded = any(v[1] == "and" for v in vals)
                    run.check(bool(flags_) and all(f_ == 0 for f_ in flags_) and folded, "R4", "error-branch-clears-verdict (helper %s) #%d" % (mir.norm(hp), nerr),
                              "the helper returns ok = false with this error entry and the caller folds it with `&=`", "an error check is recorded in %s without a false verdict component (%s) or the caller does not fold it into the verdict" % (mir.norm(hp), flags_), None)
            for ebb in sorted(set(errs)):
                nerr += 1
                fw = mir.reachable(vb, [ebb])
                # a false-store must post-dominate in the sense: reachable before the branches merge with non-error paths
                hit = any(fb_ in fw for fb_ in false_bbs) and _store_before_merge(vb, ebb, false_bbs)
                run.check(hit, "R4", "error-branch-clears-verdict #%d" % nerr, "is_valid = false on this error branch", "an error check is recorded without clearing the verdict", None)
            run.floor("R4", nerr, 2, "error branches in validate")
    vh = fn(u, "validate_hex_file")
    if vh:
        hb = u.bodies[vh]
        c04.ROLE_NAMES.clear()
        sigs = []
        raw = []
        for ex in flow.exits(hb):
            if ex["kind"] == "err":
                gs = guards.guards_of(hb, ex["bb"])
                if gs:
                    sigs.append(sym.show(gs[-1][1]) + " " + str(guards.truth(gs[-1][2])))
                    raw.append((gs[-1][1], guards.truth(gs[-1][2])))

        def odd(d, tr):
            # len % 2 != 0 (or == 1) taken, or len % 2 == 0 not taken
            if not (d[0] == "bin" and d[1] in ("Ne", "Eq") and d[2][0] == "bin" and d[2][1] == "Rem" and d[2][3][:2] == ("const", 2) and d[3][0] == "const"):
                return False
            is_len = any(isinstance(y, tuple) and y[:1] == ("call",) and str(y[1]).split("::")[-1] == "len" for y in sym.walk(d[2][2]))
            c = d[3][1]
            return is_len and ((d[1] == "Ne" and c == 0 and tr is True) or (d[1] == "Eq" and c == 1 and tr is True) or (d[1] == "Eq" and c == 0 and tr is False) or (d[1] == "Ne" and c == 1 and tr is False))
        want = {"empty": lambda d, tr, s: "is_empty" in s and tr is True, "odd": lambda d, tr, s: odd(d, tr), "non-hex": lambda d, tr, s: "is_ascii_hexdigit" in s and tr is False}
        for k_, pred in want.items():
            run.check(any(pred(d, tr, sym.show(d)) for (d, tr) in raw), "R4", "hex-guard %s" % k_, "rejects %s input" % k_, "the hex validator has no rejection guarded by the `%s` condition (guards: %s)" % (k_, sigs))
    # ---- R5
    ic = fn(u, "info_command")
    if ic:
        info_loop(u.bodies[ic], run)


def _param_sources(body, e):
    """names of the function parameters an expression derives from, looking through `if let Some(x) = param` bindings"""
    out = set()
    for s in sym.sources(e):
        if s[0] == "arg":
            out.add(s[2])
        elif s[0] == "var":
            # a pattern binding: defined from a projection of a tuple/option that copies parameters
            for d in mir.defs(body).get(s[1], []):
                if d[0] == "stmt":
                    out |= _param_sources(body, sym.expr_rv(body, d[3]["rv"])) if s[1] not in _SEEN else set()
        elif s[0] == "load" and s[1].startswith("arg") and "." not in s[1][3:]:
            pass
    return out


_SEEN = set()


def _store_before_merge(body, ebb, false_bbs):
    """walking forward from ebb along single-successor edges (straight line + calls) reaches a false-store block
    before any join with another path"""
    pr = mir.preds(body)
    cur = ebb
    seen = 0
    while seen < 400:
        seen += 1
        if cur in false_bbs:
            return True
        ss = [s for s in mir.succs(body, cur)]
        if len(ss) != 1:
            return False
        nxt = ss[0]
        if len(pr[nxt]) > 1 and nxt not in false_bbs:
            return False
        cur = nxt
    return False


def root_local(b, l, depth=0):
    ds = mir.defs(b).get(l, [])
    if depth < 8 and len(ds) == 1 and ds[0][0] == "stmt" and ds[0][3]["rv"]["k"] == "use":
        op = ds[0][3]["rv"]["op"]
        if op["k"] in ("copy", "move") and not op["place"]["p"]:
            return root_local(b, op["place"]["l"], depth + 1)
    return l


def info_loop(b, run):
    # the cursor: a usize local updated `offset = offset + size` inside a loop whose header compares offset+8 <= len(buffer)
    dom = mir.dominators(b)
    upd = []
    for blk in b["blocks"]:
        for st in blk["stmts"]:
            if st["k"] == "assign" and not st["place"]["p"] and st["rv"]["k"] == "use" and st["rv"]["op"]["k"] in ("move", "copy"):
                src = st["rv"]["op"]["place"]
                if len(src["p"]) == 1 and src["p"][0]["k"] == "field" and src["p"][0]["i"] == 0:
                    ds = mir.defs(b).get(src["l"], [])
                    if len(ds) == 1 and ds[0][0] == "stmt" and ds[0][3]["rv"]["k"] == "binop" and ds[0][3]["rv"]["op"] == "AddWithOverflow":
                        rv = ds[0][3]["rv"]
                        a_, b_ = rv["a"], rv["b"]
                        if a_["k"] in ("copy", "move") and not a_["place"]["p"] and root_local(b, a_["place"]["l"]) == st["place"]["l"] and \
                                b_["k"] in ("copy", "move") and not b_["place"]["p"] and b["locals"][b_["place"]["l"]]["ty"] == "usize":
                            upd.append((blk["i"], st["place"]["l"], root_local(b, b_["place"]["l"]), st))
    # keep updates inside a loop (block can reach itself)
    upd = [x for x in upd if x[0] in mir.reachable(b, mir.succs(b, x[0]))]
    if len(upd) != 1:
        run.bad("R5", "cursor-update", "expected exactly one `cursor += size` in a loop of the info command, found %d" % len(upd))
        return
    bb, cur, size, st = upd[0]
    gs = guards.guards_of(b, bb)
    c04.ROLE_NAMES.clear()
    sigs = [c04.signature(d, t) for (s, d, t) in gs]
    sname = mir.debug_name(b, size) or "_%d" % size
    cname = mir.debug_name(b, cur) or "_%d" % cur
    nonzero = any(s_ in ("local:%s != const:0" % sname, "const:0 != local:%s" % sname) for s_ in sigs)
    guard_sw = None
    for (sw, d, tk) in gs:
        # raw MIR: switch(discr) where discr := Eq(copy <size local>, const 0) taken on the false edge (or Ne on the true edge)
        dop = b["blocks"][sw]["term"]["discr"]
        if dop["k"] in ("copy", "move") and not dop["place"]["p"]:
            dd = mir.defs(b).get(dop["place"]["l"], [])
            if len(dd) == 1 and dd[0][0] == "stmt" and dd[0][3]["rv"]["k"] == "binop" and dd[0][3]["rv"]["op"] in ("Eq", "Ne"):
                rv = dd[0][3]["rv"]
                ops_ = [rv["a"], rv["b"]]
                has_size = any(o["k"] in ("copy", "move") and not o["place"]["p"] and root_local(b, o["place"]["l"]) == size for o in ops_)
                has_zero = any(o["k"] == "const" and o.get("v") == 0 for o in ops_)
                tr = guards.truth(tk)
                if has_size and has_zero and tr is not None and ((rv["op"] == "Eq") != tr):
                    nonzero = True
                    guard_sw = sw
    # the tested value must be the value added: no definition of the size local after the guard (dominated by it)
    if nonzero:
        late = []
        for d_ in mir.defs(b).get(size, []):
            dbb = d_[1]
            sws = [sw for (sw, _d, _t) in gs]
            if any(sw in dom[dbb] and dbb != sw for sw in sws if guard_sw is None or sw == guard_sw):
                late.append(dbb)
        if late:
            nonzero = False
            sigs = sigs + ["(`%s` is assigned again after its `!= 0` test, in bb%s)" % (sname, late)]
    bounded = False
    for (s, d, t) in gs:
        if d[0] == "bin" and d[1] in ("Le", "Lt", "Ge", "Gt"):
            txt = sym.show(d)
            if cname in txt and "len(" in txt:
                bounded = True
    run.check(nonzero, "R5", "size-nonzero", "`%s += %s` only under %s != 0" % (cname, sname, sname), "the box-walk cursor can advance by 0 (guards: %s): the loop would not terminate" % sigs[-4:], mir.loc_of(st))
    run.check(bounded, "R5", "cursor-bounded", "loop continues only while the cursor is within the buffer", "the box-walk loop is not bounded by the buffer length (guards: %s)" % sigs[-4:], mir.loc_of(st))
    # size comes from the 4 bytes at the cursor (u32) => at most 2^32, no wrap of usize
    e = sym.expr_local(b, size) if False else None
