"""Shared analyses used by several property rules."""
from .. import anchors as A
from .. import flow, mir, sym


class Ctx:
    def __init__(self, prog):
        self.prog = prog
        self.u = prog.lib
        self.g = mir.Graph(self.u)
        self.st = mir.Stores(self.g)
        self.an = A.Anchors(self.u, self.g, self.st)
        self.live = self.an.live
        self._tf = {}

    def body(self, p):
        return self.u.bodies[p]

    def short(self, p):
        return mir.norm(p)

    # ------------------------------------------------------------------------------------
    def flag_test(self, body, flag_field, adt=None):
        """blocks ending in `switch(load <..>.flag_field)`: returns list of (bb, false_target, true_target)"""
        out = []
        for blk in body["blocks"]:
            t = blk["term"]
            if t["k"] != "switch" or blk["cleanup"]:
                continue
            e = sym.expr(body, t["discr"])
            if e[0] == "load" and e[1].split(".")[-1] == flag_field and "|" not in e[1]:
                f = tr = None
                for v, tgt in t["arms"]:
                    if v == "0":
                        f = tgt
                tr = t["otherwise"]
                if f is not None:
                    out.append((blk["i"], f, tr))
        return out

    def ok_requires_flag_false(self, fpath, flag_fields, _stack=()):
        """True iff every Ok/Some exit of `fpath` is dominated by the false-edge of a test of one of the
        flag fields, directly or through the Continue edge of `?` on (or delegation to) a callee with
        the same property.  Returns (bool, reason)."""
        key = (fpath, tuple(flag_fields))
        if key in self._tf:
            return self._tf[key]
        if fpath in _stack or fpath not in self.u.bodies:
            return (False, "recursive/unknown " + fpath)
        body = self.u.bodies[fpath]
        dom = mir.dominators(body)
        guards = []           # blocks B such that being dominated by B means the flag was tested false
        for ff in flag_fields:
            for (bb, f, tr) in self.flag_test(body, ff):
                # the true edge must not fall through into the false side
                guards.append(("edge", bb, f, tr))
        tries = flow.try_sites(body)
        for ts in tries:
            src = ts["src"]
            if src and src[0] == "call" and len(src) > 3 and src[3] in self.u.bodies and ts["cont"] is not None:
                ok, _ = self.ok_requires_flag_false(src[3], flag_fields, _stack + (fpath,))
                if ok:
                    guards.append(("try", body["blocks"][ts["bb"]]["term"]["target"], ts["cont"], ts["brk"]))
        res = (True, "")
        exits = flow.exits(body)
        oks = [e for e in exits if e["kind"] in ("ok", "deleg", "other")]
        if not oks:
            res = (False, "no success exit found")
        for e in oks:
            if e["kind"] == "deleg":
                cal = e.get("callee")
                if cal and mir.norm(cal) in flow.PASS_THROUGH:
                    # `inner(..).map(..)` / `.map_err(..)`: success iff the inner call succeeded
                    inner = flow.strip_passthrough(sym.expr(body, e["node"]["args"][0]))
                    cal = inner[3] if inner and inner[0] == "call" and len(inner) > 3 else None
                if cal in self.u.bodies:
                    ok, why = self.ok_requires_flag_false(cal, flag_fields, _stack + (fpath,))
                    if ok:
                        continue
                    # a delegation can still be guarded locally
            good = False
            for (kind, bb, f, tr) in guards:
                # exit block dominated by the guarded successor `f`, and `f` is only entered from bb
                if f in dom.get(e["bb"], set()) and self._edge_exclusive(body, bb, f, tr):
                    good = True
                    break
            if not good:
                res = (False, "success exit in bb%d of %s is not dominated by a flag test" % (e["bb"], mir.norm(fpath)))
                break
        self._tf[key] = res
        return res

    def _edge_exclusive(self, body, bb, f, tr):
        """the guarded successor f is entered only from bb (so dominance by f implies the edge bb->f)"""
        ps = mir.preds(body)[f]
        return set(ps) == {bb} and f != tr


def ret_expr(u, fpath):
    """expression of the value returned by a simple (single-definition) local function"""
    b = u.bodies[fpath]
    ds = mir.defs(b).get(0, [])
    if len(ds) != 1:
        return None
    d = ds[0]
    if d[0] == "stmt":
        return sym.expr_rv(b, d[3]["rv"])
    t = d[2]
    name, _ = mir.callee(t)
    return ("call", mir.norm(name) if name else "?", tuple(sym.expr(b, a) for a in t["args"]), name, d[1])


def subst_path(path, arg_paths):
    """rewrite 'argN.rest' using the caller-side path of argument N (if known)"""
    head, _, rest = path.partition(".")
    if head in arg_paths and arg_paths[head] is not None:
        return arg_paths[head] + ("." + rest if rest else "")
    return path


def inline_expr(u, e, depth=0):
    """replace calls to simple local getters by their return expression, with argument paths
    substituted (one level of `&self.field` / `self` argument passing)"""
    if not isinstance(e, tuple) or not e or depth > 8:
        return e
    if e[0] == "call" and len(e) > 3 and e[3] in u.bodies:
        r = ret_expr(u, e[3])
        if r is not None:
            arg_paths = {}
            for i, a in enumerate(e[2]):
                a2 = a
                while isinstance(a2, tuple) and a2 and a2[0] == "cast":
                    a2 = a2[4]
                if a2[0] == "refplace":
                    arg_paths["arg%d" % (i + 1)] = a2[1]
                elif a2[0] == "arg":
                    arg_paths["arg%d" % (i + 1)] = "arg%d" % a2[1]
                elif a2[0] == "load":
                    arg_paths["arg%d" % (i + 1)] = a2[1]
                else:
                    arg_paths["arg%d" % (i + 1)] = None
            arg_paths["#vals"] = {i + 1: a for i, a in enumerate(e[2])}
            return inline_expr(u, _subst(r, arg_paths), depth + 1)
    if e[0] in ("load", "refplace"):
        return e
    return tuple(inline_expr(u, x, depth) if isinstance(x, tuple) and x and isinstance(x[0], str) else
                 (tuple(inline_expr(u, y, depth) for y in x) if isinstance(x, tuple) else x) for x in e)


INT_MAX = {"u8": 255, "u16": 65535, "u32": 4294967295, "u64": (1 << 64) - 1, "usize": (1 << 64) - 1, "i8": 127, "i16": 32767, "i32": (1 << 31) - 1, "i64": (1 << 63) - 1}


def arg_subst_map(args):
    """caller-side substitution for the parameters of a local callee (see inline_expr)"""
    arg_paths = {}
    for i, a in enumerate(args):
        a2 = a
        while isinstance(a2, tuple) and a2 and a2[0] == "cast":
            a2 = a2[4]
        if a2[0] == "refplace":
            arg_paths["arg%d" % (i + 1)] = a2[1]
        elif a2[0] == "arg":
            arg_paths["arg%d" % (i + 1)] = "arg%d" % a2[1]
        elif a2[0] == "load":
            arg_paths["arg%d" % (i + 1)] = a2[1]
        else:
            arg_paths["arg%d" % (i + 1)] = None
    arg_paths["#vals"] = {i + 1: a for i, a in enumerate(args)}
    return arg_paths


def try_from_parts(e):
    """(operand, target integer type) if e is `T::try_from(x)` / `x.try_into()` between integer types"""
    if isinstance(e, tuple) and e and e[0] == "call" and e[1].split("::")[-1] in ("try_from", "try_into") and len(e[2]) == 1:
        raw = str(e[3]) if len(e) > 3 else ""
        import re as _re
        m = _re.search(r"TryFrom<(\w+)> for (\w+)>", raw)
        if m and m.group(2) in INT_MAX:
            return e[2][0], m.group(2), m.group(1)
    return None


def ok_payload(u, e, depth=0):
    """success value of a Result/Option-valued expression: local helpers are inlined, map_err / ok_or are looked through, a checked
    integer conversion yields its operand (value-preserving on success); None if unknown"""
    if not isinstance(e, tuple) or not e or depth > 6:
        return None
    if e[0] == "agg" and str(e[1]).split("::")[-1] in ("Ok", "Some") and e[3]:
        return e[3][0]
    if e[0] == "call":
        last = e[1].split("::")[-1]
        if last in ("map_err", "ok_or", "ok_or_else", "or_else") and e[2]:
            return ok_payload(u, e[2][0], depth + 1)
        tf = try_from_parts(e)
        if tf:
            return ("cast", "IntToInt", tf[2], tf[1], tf[0])
        if len(e) > 3 and e[3] in u.bodies:
            r = ret_expr(u, e[3])
            if r is not None:
                return ok_payload(u, _subst(r, arg_subst_map(e[2])), depth + 1)
    return None


def resolve_try(u, e, depth=0):
    """rewrite `branch(X).as Continue.0` (the value of `X?`) into the success value of X where that is known"""
    if not isinstance(e, tuple) or not e or depth > 40:
        return e
    if e[0] == "proj" and e[1][0] == "proj" and str(e[1][2]).startswith("as Continue") and e[1][1][0] == "call" and e[1][1][1].endswith("::branch") and e[1][1][2]:
        v = ok_payload(u, e[1][1][2][0])
        if v is not None:
            return resolve_try(u, v, depth + 1)
    return tuple(resolve_try(u, x, depth + 1) if isinstance(x, tuple) and x and isinstance(x[0], str) else
                 (tuple(resolve_try(u, y, depth + 1) if isinstance(y, tuple) else y for y in x) if isinstance(x, tuple) else x) for x in e)


def inline_conversion_rejection(u, src, raw=None):
    """the checked-conversion idiom written at the call site itself: `T::try_from(x).map_err(|_| V)?` rejects with V iff x > T::MAX
    (unsigned source): [(variant, predicate, taken-token)] or None"""
    r = src
    if try_from_parts(r) and raw is not None:
        # the `?` site reports the conversion itself as its source: the error mapping is in the raw operand
        for y in sym.walk(raw):
            if isinstance(y, tuple) and y and y[0] == "call" and y[1].split("::")[-1] == "map_err" and len(y[2]) == 2 and y[2][0] == src:
                r = y
                break
    if not (isinstance(r, tuple) and r and r[0] == "call" and r[1].split("::")[-1] == "map_err" and len(r[2]) == 2 and r[2][1][0] == "agg" and str(r[2][1][1]).startswith("closure ")):
        return None
    tf = try_from_parts(r[2][0])
    cn = [k for k in u.bodies if mir.norm(k) == mir.norm(str(r[2][1][1])[len("closure "):])]
    if tf and len(cn) == 1 and tf[2].startswith("u"):
        cv = sym.expr_local(u.bodies[cn[0]], 0)
        if cv[0] == "agg":
            return [(str(cv[1]).split("::")[-1], ("bin", "Gt", tf[0], ("const", INT_MAX[tf[1]], tf[2])), ("ne", ["0"]))]
    return None


def helper_rejections(u, call):
    """for a call of a local Result-returning helper: [(error variant, predicate expression in the caller's terms, taken-token)] for
    every way the helper itself rejects - explicit guarded `return Err(V)` exits and the checked-conversion idiom
    `T::try_from(x).map_err(|_| V)` (fails iff x > T::MAX for unsigned sources); None if the helper has an exit that is not understood"""
    from .. import flow as _flow, guards as _guards
    if not (isinstance(call, tuple) and call and call[0] == "call" and len(call) > 3 and call[3] in u.bodies):
        return None
    hb = u.bodies[call[3]]
    ap = arg_subst_map(call[2])
    out = []
    for ex in _flow.exits(hb):
        if ex["kind"] == "ok":
            continue
        if ex["kind"] == "err":
            v = sym.expr_rv(hb, ex["node"]["rv"])
            var = str(v[3][0][1]).split("::")[-1] if v[0] == "agg" and v[3] and v[3][0][0] == "agg" else None
            gs = _guards.guards_of(hb, ex["bb"])
            if var is None or not gs:
                return None
            s_, d, tk = gs[-1]
            out.append((var, _subst(d, ap), tk))
            continue
        if ex["kind"] == "deleg":
            r = ret_expr(u, call[3])
            if r is not None and r[0] == "call" and r[1].split("::")[-1] == "map_err" and len(r[2]) == 2 and r[2][1][0] == "agg" and str(r[2][1][1]).startswith("closure "):
                tf = try_from_parts(r[2][0])
                cn = [k for k in u.bodies if mir.norm(k) == mir.norm(str(r[2][1][1])[len("closure "):])]
                if tf and len(cn) == 1 and tf[2].startswith("u"):
                    cv = sym.expr_local(u.bodies[cn[0]], 0)
                    if cv[0] == "agg":
                        out.append((str(cv[1]).split("::")[-1], ("bin", "Gt", _subst(tf[0], ap), ("const", INT_MAX[tf[1]], tf[2])), ("ne", ["0"])))
                        continue
            return None
        return None
    return out


def _subst(e, arg_paths):
    if not isinstance(e, tuple) or not e:
        return e
    if e[0] in ("load", "refplace"):
        parts = [subst_path(p, arg_paths) for p in e[1].split("|")]
        return (e[0], "|".join(parts)) + tuple(e[2:])
    if e[0] == "arg":
        k = "arg%d" % e[1]
        v0 = (arg_paths.get("#vals") or {}).get(e[1])
        if v0 is not None and v0[0] == "arg":
            return v0                     # parameter handed through by value
        if v0 is not None and v0[0] == "load" and len(v0) > 2 and str(v0[2]) in INT_MAX:
            return v0                     # a scalar loaded by the caller and passed by value
        if arg_paths.get(k):
            return ("refplace", arg_paths[k], "")
        v = (arg_paths.get("#vals") or {}).get(e[1])
        if v is not None and v[0] in ("arg", "const", "var", "cast", "bin", "proj", "call"):
            return v                      # a by-value scalar argument: the caller's expression
        return ("argx", e[1], e[2])
    return tuple(_subst(x, arg_paths) if isinstance(x, tuple) and x and isinstance(x[0], str) else
                 (tuple(_subst(y, arg_paths) for y in x) if isinstance(x, tuple) else x) for x in e)
