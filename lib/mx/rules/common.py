"""Shared analyses used by several property rules."""
from .. import anchors as A
from .. import flow, mir, sym


class Ctx:
    def __init__(self, prog):
        self.prog = prog
        self.u = prog.lib
        self.g = mir.Graph(self.u)
        self.st = mir.Stores(self.g)
        self.an = A.Anchors(self.u, self.g, self.st)
        self.live = self.an.live
        self._tf = {}

    def body(self, p):
        return self.u.bodies[p]

    def short(self, p):
        return mir.norm(p)

    # ------------------------------------------------------------------------------------
    def flag_test(self, body, flag_field, adt=None):
        """blocks ending in `switch(load <..>.flag_field)`: returns list of (bb, false_target, true_target)"""
        out = []
        for blk in body["blocks"]:
            t = blk["term"]
            if t["k"] != "switch" or blk["cleanup"]:
                continue
            e = sym.expr(body, t["discr"])
            if e[0] == "load" and e[1].split(".")[-1] == flag_field and "|" not in e[1]:
                f = tr = None
                for v, tgt in t["arms"]:
                    if v == "0":
                        f = tgt
                tr = t["otherwise"]
                if f is not None:
                    out.append((blk["i"], f, tr))
        return out

    def ok_requires_flag_false(self, fpath, flag_fields, _stack=()):
        """True iff every Ok/Some exit of `fpath` is dominated by the false-edge of a test of one of the
        flag fields, directly or through the Continue edge of `?` on (or delegation to) a callee with
        the same property.  Returns (bool, reason)."""
        key = (fpath, tuple(flag_fields))
        if key in self._tf:
            return self._tf[key]
        if fpath in _stack or fpath not in self.u.bodies:
            return (False, "recursive/unknown " + fpath)
        body = self.u.bodies[fpath]
        dom = mir.dominators(body)
        guards = []           # blocks B such that being dominated by B means the flag was tested false
        for ff in flag_fields:
            for (bb, f, tr) in self.flag_test(body, ff):
                # the true edge must not fall through into the false side
                guards.append(("edge", bb, f, tr))
        tries = flow.try_sites(body)
        for ts in tries:
            src = ts["src"]
            if src and src[0] == "call" and len(src) > 3 and src[3] in self.u.bodies and ts["cont"] is not None:
                ok, _ = self.ok_requires_flag_false(src[3], flag_fields, _stack + (fpath,))
                if ok:
                    guards.append(("try", body["blocks"][ts["bb"]]["term"]["target"], ts["cont"], ts["brk"]))
        res = (True, "")
        exits = flow.exits(body)
        oks = [e for e in exits if e["kind"] in ("ok", "deleg", "other")]
        if not oks:
            res = (False, "no success exit found")
        for e in oks:
            if e["kind"] == "deleg":
                cal = e.get("callee")
                if cal and mir.norm(cal) in flow.PASS_THROUGH:
                    # `inner(..).map(..)` / `.map_err(..)`: success iff the inner call succeeded
                    inner = flow.strip_passthrough(sym.expr(body, e["node"]["args"][0]))
                    cal = inner[3] if inner and inner[0] == "call" and len(inner) > 3 else None
                if cal in self.u.bodies:
                    ok, why = self.ok_requires_flag_false(cal, flag_fields, _stack + (fpath,))
                    if ok:
                        continue
                    # a delegation can still be guarded locally
            good = False
            for (kind, bb, f, tr) in guards:
                # exit block dominated by the guarded successor `f`, and `f` is only entered from bb
                if f in dom.get(e["bb"], set()) and self._edge_exclusive(body, bb, f, tr):
                    good = True
                    break
            if not good:
                res = (False, "success exit in bb%d of %s is not dominated by a flag test" % (e["bb"], mir.norm(fpath)))
                break
        self._tf[key] = res
        return res

    def _edge_exclusive(self, body, bb, f, tr):
        """the guarded successor f is entered only from bb (so dominance by f implies the edge bb->f)"""
        ps = mir.preds(body)[f]
        return set(ps) == {bb} and f != tr


def ret_expr(u, fpath):
    """expression of the value returned by a simple (single-definition) local function"""
    b = u.bodies[fpath]
    ds = mir.defs(b).get(0, [])
    if len(ds) != 1:
        return None
    d = ds[0]
    if d[0] == "stmt":
        return sym.expr_rv(b, d[3]["rv"])
    t = d[2]
    name, _ = mir.callee(t)
    return ("call", mir.norm(name) if name else "?", tuple(sym.expr(b, a) for a in t["args"]), name, d[1])


def subst_path(path, arg_paths):
    """rewrite 'argN.rest' using the caller-side path of argument N (if known)"""
    head, _, rest = path.partition(".")
    if head in arg_paths and arg_paths[head] is not None:
        return arg_paths[head] + ("." + rest if rest else "")
    return path


def inline_expr(u, e, depth=0):
    """replace calls to simple local getters by their return expression, with argument paths
    substituted (one level of `&self.field` / `self` argument passing)"""
    if not isinstance(e, tuple) or not e or depth > 8:
        return e
    if e[0] == "call" and len(e) > 3 and e[3] in u.bodies:
        r = ret_expr(u, e[3])
        if r is not None:
            arg_paths = {}
            for i, a in enumerate(e[2]):
                a2 = a
                while isinstance(a2, tuple) and a2 and a2[0] == "cast":
                    a2 = a2[4]
                if a2[0] == "refplace":
                    arg_paths["arg%d" % (i + 1)] = a2[1]
                elif a2[0] == "arg":
                    arg_paths["arg%d" % (i + 1)] = "arg%d" % a2[1]
                elif a2[0] == "load":
                    arg_paths["arg%d" % (i + 1)] = a2[1]
                else:
                    arg_paths["arg%d" % (i + 1)] = None
            arg_paths["#vals"] = {i + 1: a for i, a in enumerate(e[2])}
            return inline_expr(u, _subst(r, arg_paths), depth + 1)
    if e[0] in ("load", "refplace"):
        return e
    return tuple(inline_expr(u, x, depth) if isinstance(x, tuple) and x and isinstance(x[0], str) else
                 (tuple(inline_expr(u, y, depth) for y in x) if isinstance(x, tuple) else x) for x in e)


def _subst(e, arg_paths):
    if not isinstance(e, tuple) or not e:
        return e
    if e[0] in ("load", "refplace"):
        parts = [subst_path(p, arg_paths) for p in e[1].split("|")]
        return (e[0], "|".join(parts)) + tuple(e[2:])
    if e[0] == "arg":
        k = "arg%d" % e[1]
        v0 = (arg_paths.get("#vals") or {}).get(e[1])
        if v0 is not None and v0[0] == "arg":
            return v0                     # parameter handed through by value
        if arg_paths.get(k):
            return ("refplace", arg_paths[k], "")
        v = (arg_paths.get("#vals") or {}).get(e[1])
        if v is not None and v[0] in ("arg", "const", "var", "cast", "bin", "proj", "call"):
            return v                      # a by-value scalar argument: the caller's expression
        return ("argx", e[1], e[2])
    return tuple(_subst(x, arg_paths) if isinstance(x, tuple) and x and isinstance(x[0], str) else
                 (tuple(_subst(y, arg_paths) for y in x) if isinstance(x, tuple) else x) for x in e)
