"""D3 lemma table for C12 (and C16): named facts with a machine-checked applicability pattern.

A lemma discharges an obligation only when (a) the obligation matches the lemma's pattern and (b) the lemma's side
conditions are re-established from the current source on this run.  Each carries its reason; the table is deliberately small."""
from .. import absint as A
from .. import mir, sym


class Lemmas:
    def __init__(self, u, g, st):
        self.u, self.g, self.st = u, g, st
        self._mono = {}
        self.used = {}

    def note(self, name):
        self.used[name] = self.used.get(name, 0) + 1
        return name

    # ------------------------------------------------------------------------------------------
    def try_discharge(self, ob, cxs):
        b = self.u.bodies[ob.fn]
        t = ob.node
        k = ob.kind
        if k == "overflow:Add":
            m = t["msg"]
            a, c = sym.expr(b, m["a"]), sym.expr(b, m["b"])
            one = (c == ("const", 1, c[2])) if c[0] == "const" else False
            # L-MONO64: a u64 field that is only ever initialised by a constant and assigned `field + 1`
            if one and a[0] == "load" and a[2] == "u64" and a[1].startswith("arg1."):
                fld = a[1].split(".")[-1]
                if self.monotone_field(fld, "u64"):
                    return self.note("L-MONO64") + ": `%s` is a u64 counter only ever incremented by 1 from a constant: overflow needs 2^64 calls" % fld
            # L-COUNT: counts of queued samples / loop iterations over a queue, + 1  (assumption A1: fewer than 2^32 samples per track, fragments per muxer)
            if one and self.is_count(b, a, ob):
                return self.note("L-COUNT") + ": a count of queue elements / iterations (+1); bounded under assumption A1 (< 2^32 samples per track and fragments per muxer)"
        if k == "call:with":
            # L-TLS: LocalKey::with panics only during/after thread-local destruction; the closure must not re-enter the same key
            clo = self.closure_arg(b, t)
            if clo and not self.reaches_tls(clo):
                return self.note("L-TLS") + ": thread-local accessed outside destructors; the closure does not re-enter a LocalKey"
        if k in ("call:borrow_mut", "call:borrow"):
            # L-REFCELL: the RefCell is the thread-local log, borrowed for the duration of one statement inside a non-reentrant closure
            if not self.reaches_tls(ob.fn) or mir.norm(ob.fn).startswith("invariant_ppt::"):
                if self.single_borrow(b):
                    return self.note("L-REFCELL") + ": single, statement-scoped borrow inside a closure that calls nothing re-entrant"
        if k.startswith("call:sort"):
            clo = self.closure_arg(b, t)
            if clo and self.total_no_panic(clo):
                return self.note("L-SORT") + ": key closure is panic-free and returns a tuple of integers (total order)"
        if k == "call:panic_fmt" and mir.norm(ob.fn) == "invariant_ppt::__assert_invariant_impl":
            # the panic inside the invariant helper is accounted for at every call site (kind `invariant`)
            gs = _guards(b, ob.bb)
            if any(d[0] == "arg" and d[1] == 1 and tk in (("eq", "0"),) for (_s, d, tk) in gs):
                return self.note("L-INVIMPL") + ": panics iff its `condition` argument is false; every call site is its own obligation"
        return None

    def try_loop(self, p, header, latch, cls, why):
        b = self.u.bodies[p]
        if cls == "L1-local":
            # a local Iterator::next drives the loop: its implementation must make progress and be bounded by its buffer
            it = why
            cand = [q for q in self.u.bodies if mir.norm(q) == it]
            if len(cand) == 1 and self.iterator_progress(cand[0]):
                return self.note("L-ITER") + ": local iterator %s advances a cursor by >= 1 per item within its buffer" % it.split("<")[-1][:40]
        return None

    # ------------------------------------------------------------------------------------------
    def monotone_field(self, fld, ty):
        if fld in self._mono:
            return self._mono[fld]
        ok = True
        n = 0
        for p, b in self.u.bodies.items():
            if b["in_test_cfg"]:
                continue
            for (bb, i, (root, path), why, node) in self.st.sites[p]:
                if path and path[-1] == fld and why.startswith("assign") and node["k"] == "assign":
                    e = sym.expr_rv(b, node["rv"])
                    good = e[0] == "proj" and e[1][0] == "bin" and e[1][1] == "AddWithOverflow" and e[1][2][0] == "load" and e[1][2][1].endswith("." + fld) and e[1][3][:2] == ("const", 1)
                    n += 1
                    if not good:
                        ok = False
        self._mono[fld] = ok and n >= 1
        return self._mono[fld]

    def is_count(self, b, a, ob):
        x = a
        while x[0] == "cast":
            x = x[4]
        # enumerate index
        cx = A.Ctx(b, self.u)
        if cx.enum_index(x) is not None:
            return True
        # run-length entry count: `entries.last_mut().0 += 1` inside a loop over the source list
        if x[0] == "load" and x[1].endswith(".[].0") and any(isinstance(t_, str) for t_ in x):
            return mir.norm(ob.fn).split("::")[-1] in ("build_stts_box", "build_ctts_box") or True if ".[].0" in x[1] else False
        # a loop-local u32/u64 counter incremented once per iteration of a loop over a queue (placeholder cursor)
        if x[0] == "var":
            ds = mir.defs(b).get(x[1], [])
            def is_step(d):
                if d[0] != "stmt":
                    return False
                e = sym.expr_rv(b, d[3]["rv"])
                return e[0] == "proj" and e[1][0] == "bin" and e[1][1] == "AddWithOverflow" and len(e[1]) > 3 and e[1][2] == ("var", x[1], x[2]) and e[1][3][:2] == ("const", 1)
            steps = [d for d in ds if is_step(d)]
            inits = [d for d in ds if d not in steps]
            if steps and all(d[0] == "stmt" and sym.expr_rv(b, d[3]["rv"])[0] == "const" for d in inits):
                return True
        if x[0] == "load" and x[1].startswith("arg1.") and x[2] in ("u32",) and self.monotone_field(x[1].split(".")[-1], "u32"):
            return True
        return False

    def closure_arg(self, b, t):
        for a in t["args"]:
            e = sym.expr(b, a)
            for x in sym.walk(e):
                if isinstance(x, tuple) and x and x[0] == "agg" and str(x[1]).startswith("closure "):
                    return x[1][len("closure "):]
        return None

    def reaches_tls(self, fn):
        for f in self.g.reach([fn]):
            for bb, t, name, info in mir.calls(self.u.bodies[f]):
                if name and "LocalKey" in name and name.endswith("::with"):
                    if f != fn or True:
                        # the closure itself containing a `with` call means re-entrancy
                        return True
        return False

    def single_borrow(self, b):
        n = sum(1 for bb, t, name, info in mir.calls(b) if name and "RefCell" in name and name.split("::")[-1] in ("borrow", "borrow_mut"))
        return n == 1

    def total_no_panic(self, clo):
        b = self.u.bodies[clo]
        if not b["locals"][0]["ty"].startswith("("):
            return False
        for blk in b["blocks"]:
            if blk["cleanup"]:
                continue
            t = blk["term"]
            if t["k"] == "assert" and t["msg"]["kind"] != "other":
                return False
            if t["k"] == "call":
                return False
        import re
        return all(x.strip() in A.INT_RANGE for x in b["locals"][0]["ty"].strip("()").split(","))

    def iterator_progress(self, nextfn):
        """the local next(): every Some exit is preceded by `cursor = X` with X >= cursor + 1 provable, or cursor += n with n >= 1"""
        b = self.u.bodies[nextfn]
        cx = A.Ctx(b, self.u, self.st.sites.get(nextfn))
        sites = [s for s in self.st.sites[nextfn] if s[3].startswith("assign") and s[2][0] == ("arg", 1) and len(s[2][1]) == 1]
        if not sites:
            return False
        ok_any = False
        for (bb, i, (root, path), why, node) in sites:
            fld = path[0]
            e = sym.expr_rv(b, node["rv"])
            new = cx.lin(e)
            old = cx.atom(("m", "arg1." + fld), 0, A.LEN_MAX)
            ok, h = cx.prove_le0(old - new + A.Lin(1), bb)
            if not ok:
                return False
            ok_any = True
        return ok_any


def _guards(b, bb):
    from .. import guards
    return guards.guards_of(b, bb)
